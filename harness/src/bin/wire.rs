//! Domain `wire` (C19): every message type of the signer protocol registry, driven through the
//! real `SerBolt::as_vec` / `msgs::from_vec` (vls-protocol, bolt-derive, serde_bolt,
//! bitcoin-consensus-derive, rust-bitcoin, txoo).
//!
//! sub-domains
//!   msgs       per type: minimal / maximal / random+boundary values, every variable-length
//!              site driven to its cap and to the MAX_MESSAGE_SIZE boundary, values that
//!              cannot be encoded (as_vec panics); prints the Coq term of the value, the bytes
//!              and what from_vec did.  Monitor: a value that is encodable and fits must come
//!              back as the same variant with equal fields and (except for streamed PSBTs)
//!              equal bytes after re-encoding.
//!   malformed  byte strings that are not encodings (truncated, extended, flipped, retyped)
//!   framed     the length-framed stream paths: msgs::write must produce write_vec(as_vec()) for
//!              every registry type; several messages written back to back are read back one
//!              by one with msgs::read, read_message::<T> and from_reader, equal, nothing left;
//!              plus frames with a wrong length prefix / truncated streams through msgs::read
//!   carrier    (binary `carrier` = this file built with feature `proxy`) the same frames over a real
//!              UnixStream::pair() through vls-proxy's UnixConnection / UnixClient::read_raw (how both
//!              proxy loops take requests off the hsmd socket), delivered in 1, 2 and 3 segments (the
//!              next segment is written only after the reader had time to consume the previous one);
//!              and replies written with UnixClient::write / write_vec read back from the node's end
//!   psbt       StreamedPSBT: consistent and inconsistent PSBTs (incl. bare witness_utxo claims about
//!              admissible and legacy outputs) through SignWithdrawal; the view
//!              the model reads, what the decoder produced, and the reference computed here.
//!
//! The per-struct generators and printers are generated from the Rust source by
//! tools/gen_wire.py (src/gen/wire_gen.rs); this file implements them for the field *types*.
use serde_json::json;
use std::panic::{catch_unwind, AssertUnwindSafe};
use vharness::*;

use lightning_signer::bitcoin;
use lightning_signer::txoo;
use bitcoin::absolute::LockTime;
use bitcoin::block::Header as BlockHeader;
use bitcoin::consensus::serialize;
use bitcoin::hashes::Hash;
use bitcoin::psbt::{Input, Psbt};
use bitcoin::secp256k1::{PublicKey, Secp256k1, SecretKey};
use bitcoin::transaction::Version;
use bitcoin::{Amount, BlockHash, OutPoint, ScriptBuf, Sequence, Transaction, TxIn, TxOut, Txid, Witness};
use txoo::bitcoin::hash_types::FilterHeader;
use txoo::proof::{ProofType, TxoProof};
use vls_protocol::model::*;
use vls_protocol::msgs::{self, *};
use vls_protocol::psbt::{PsbtWrapper, StreamedPSBT};
use vls_protocol::serde_bolt::{Array, ArrayBE, LargeOctets, Octets, WireString, WithSize};

const MAX_MESSAGE_SIZE: usize = 128 * 1024;
const POISON: usize = usize::MAX;

// ------------------------------------------------------------------ value generation

#[derive(Clone, Copy, PartialEq, Debug)]
pub enum Profile {
    Min,
    Max,
    Rand,
}

pub struct Gen {
    pub rng: Rng,
    pub profile: Profile,
    /// variable-length sites met so far (Octets, LargeOctets, WireString, Array, ArrayBE)
    pub site: usize,
    /// (site, forced length); POISON = make the value unencodable at that site
    pub target: Option<(usize, usize)>,
    /// what kind of site the target turned out to be
    pub target_kind: Option<&'static str>,
    pub kinds: Vec<&'static str>,
    /// inside a forced array: elements are minimal so that their size is constant
    pub quiet: u32,
}

impl Gen {
    pub fn new(seed: u64, profile: Profile, target: Option<(usize, usize)>) -> Gen {
        Gen { rng: Rng::new(seed), profile, site: 0, target, target_kind: None, kinds: vec![], quiet: 0 }
    }
    fn prof(&self) -> Profile {
        if self.quiet > 0 {
            Profile::Min
        } else {
            self.profile
        }
    }
    /// length of the variable-length site being generated; `small`: candidate lengths
    fn len(&mut self, kind: &'static str, small: &[usize]) -> (usize, bool) {
        let s = self.site;
        self.site += 1;
        self.kinds.push(kind);
        if let Some((t, l)) = self.target {
            if t == s {
                self.target_kind = Some(kind);
                return (l, true);
            }
        }
        let l = match self.prof() {
            Profile::Min => 0,
            Profile::Max => small[small.len() - 1],
            Profile::Rand => *self.rng.pick(small),
        };
        (l, false)
    }
    fn fill(&mut self, n: usize, forced: bool, nonzero: bool) -> Vec<u8> {
        if forced || n > 600 {
            return vec![0xab; n]; // constant content keeps the Coq term small (run-length printed)
        }
        (0..n)
            .map(|_| {
                let b = self.rng.below(256) as u8;
                if nonzero && b == 0 {
                    1
                } else {
                    b
                }
            })
            .collect()
    }
}

pub trait Arb: Sized {
    fn arb(g: &mut Gen) -> Self;
}
pub trait ToCoq {
    fn coq(&self) -> String;
    /// canonical structure for comparing what was sent with what was received; differs from
    /// `coq` only for streamed PSBTs (sent: the reference summary; received: what was decoded)
    fn canon(&self, _received: bool) -> String {
        self.coq()
    }
}
pub trait AnyMsg {
    fn name(&self) -> &'static str;
    fn bytes(&self) -> Vec<u8>;
    fn coq_msg(&self) -> String;
    fn canon_msg(&self, received: bool) -> String;
    /// msgs::write (the typed, length-framed writer) into a fresh buffer; consumes the value
    fn write_framed(self: Box<Self>) -> Result<Vec<u8>, String>;
    /// msgs::read_message::<Self> from the start of `stream`: canonical structure, bytes consumed
    fn read_typed(&self, stream: &[u8]) -> Result<(String, usize), String>;
    /// the typed `<Self as DeBolt>::from_vec`: canonical structure of what it returns
    fn typed_from_vec(&self, bytes: Vec<u8>) -> Result<String, String>;
}
pub fn typed_from_vec_as<T: DeBolt + ToCoq>(bytes: Vec<u8>) -> Result<String, String> {
    <T as DeBolt>::from_vec(bytes).map(|v| v.canon(true)).map_err(|e| err_kind(&e).to_string())
}

pub fn write_framed_as<T: DeBolt>(v: T) -> Result<Vec<u8>, String> {
    let mut b: Vec<u8> = Vec::new();
    msgs::write(&mut b, v).map_err(|e| err_kind(&e).to_string())?;
    Ok(b)
}
pub fn read_typed_as<T: DeBolt + ToCoq>(stream: &[u8]) -> Result<(String, usize), String> {
    let mut c = vls_protocol::serde_bolt::io::Cursor::new(stream.to_vec());
    let v: T = msgs::read_message(&mut c).map_err(|e| err_kind(&e).to_string())?;
    Ok((v.canon(true), c.position() as usize))
}
pub struct TypeInfo {
    pub name: &'static str,
    pub id: u16,
    pub has_blob: bool,
    pub has_streamed: bool,
    /// closed by a TLV option stream (#[derive(SerBoltTlvOptions)])
    pub has_tlv: bool,
    pub dispatched: bool,
    pub gen: fn(&mut Gen) -> Box<dyn AnyMsg>,
}

macro_rules! arb_int {
    ($t:ty) => {
        impl Arb for $t {
            fn arb(g: &mut Gen) -> Self {
                match g.prof() {
                    Profile::Min => 0,
                    Profile::Max => <$t>::MAX,
                    Profile::Rand => {
                        let bits = <$t>::BITS as u64;
                        match g.rng.below(10) {
                            0 => 0,
                            1 => 1,
                            2 => <$t>::MAX,
                            3 => <$t>::MAX - 1,
                            4 => (1 as $t) << (g.rng.below(bits) as u32),
                            5 => ((1 as $t) << (g.rng.below(bits) as u32)).wrapping_sub(1),
                            6 => (<$t>::MAX >> 1).wrapping_add(g.rng.below(2) as $t),
                            7 => 0x0102030405060708u64 as $t,
                            _ => g.rng.next() as $t,
                        }
                    }
                }
            }
        }
        impl ToCoq for $t {
            fn coq(&self) -> String {
                format!("{}%N", self)
            }
        }
    };
}
arb_int!(u8);
arb_int!(u16);
arb_int!(u32);
arb_int!(u64);

impl Arb for bool {
    fn arb(g: &mut Gen) -> Self {
        match g.prof() {
            Profile::Min => false,
            Profile::Max => true,
            Profile::Rand => g.rng.chance(1, 2),
        }
    }
}
impl ToCoq for bool {
    fn coq(&self) -> String {
        coq_bool(*self).to_string()
    }
}

/// run-length printed byte string: `(hx "00ff" ++ rep 65535%N 171%N ++ hx "01")`
pub fn coq_bytes(b: &[u8]) -> String {
    let mut parts: Vec<String> = vec![];
    let mut lit = String::new();
    let mut i = 0;
    while i < b.len() {
        let mut j = i;
        while j < b.len() && b[j] == b[i] {
            j += 1;
        }
        if j - i >= 48 {
            if !lit.is_empty() {
                parts.push(format!("hx \"{}\"", lit));
                lit.clear();
            }
            parts.push(format!("rep {}%N {}%N", j - i, b[i]));
        } else {
            for k in i..j {
                lit.push_str(&format!("{:02x}", b[k]));
            }
        }
        i = j;
    }
    if !lit.is_empty() || parts.is_empty() {
        parts.push(format!("hx \"{}\"", lit));
    }
    if parts.len() == 1 {
        format!("({})", parts[0])
    } else {
        format!("({})", parts.join(" ++ "))
    }
}

impl<const N: usize> Arb for [u8; N] {
    fn arb(g: &mut Gen) -> Self {
        let mut a = [0u8; N];
        match g.prof() {
            Profile::Min => {}
            Profile::Max => a = [0xff; N],
            Profile::Rand => {
                for x in a.iter_mut() {
                    *x = g.rng.below(256) as u8;
                }
            }
        }
        a
    }
}
impl<const N: usize> ToCoq for [u8; N] {
    fn coq(&self) -> String {
        coq_bytes(&self[..])
    }
}

impl<T: Arb> Arb for Option<T> {
    fn arb(g: &mut Gen) -> Self {
        let some = match g.prof() {
            Profile::Min => false,
            Profile::Max => true,
            Profile::Rand => g.rng.chance(1, 2),
        };
        if some {
            Some(T::arb(g))
        } else {
            None
        }
    }
}
impl<T: ToCoq> ToCoq for Option<T> {
    fn coq(&self) -> String {
        match self {
            None => "None".to_string(),
            Some(x) => format!("(Some {})", x.coq()),
        }
    }
    fn canon(&self, r: bool) -> String {
        match self {
            None => "None".to_string(),
            Some(x) => format!("(Some {})", x.canon(r)),
        }
    }
}

impl Arb for Octets {
    fn arb(g: &mut Gen) -> Self {
        let (n, forced) = g.len("octets", &[0, 1, 2, 33, 255, 256, 300]);
        let n = if n == POISON { 65536 } else { n };
        Octets(g.fill(n, forced, false))
    }
}
impl ToCoq for Octets {
    fn coq(&self) -> String {
        coq_bytes(&self.0)
    }
}
impl Arb for LargeOctets {
    fn arb(g: &mut Gen) -> Self {
        let (n, forced) = g.len("largeoctets", &[0, 1, 255, 256, 1000]);
        let n = if n == POISON { 0 } else { n };
        LargeOctets(g.fill(n, forced, false))
    }
}
impl ToCoq for LargeOctets {
    fn coq(&self) -> String {
        coq_bytes(&self.0)
    }
}
impl Arb for WireString {
    fn arb(g: &mut Gen) -> Self {
        let (n, forced) = g.len("wirestring", &[0, 1, 7, 64]);
        if n == POISON {
            return WireString(vec![b'a', 0, b'b']); // a NUL inside: cannot be written
        }
        WireString(g.fill(n, forced, true))
    }
}
impl ToCoq for WireString {
    fn coq(&self) -> String {
        coq_bytes(&self.0)
    }
}

fn arb_vec<T: Arb>(g: &mut Gen, kind: &'static str) -> Vec<T> {
    let (n, forced) = g.len(kind, &[0, 1, 2, 3]);
    let n = if n == POISON { 0 } else { n };
    if forced {
        g.quiet += 1;
    }
    let v = (0..n).map(|_| T::arb(g)).collect();
    if forced {
        g.quiet -= 1;
    }
    v
}
fn coq_vec<T: ToCoq>(v: &[T], canon: Option<bool>) -> String {
    let items: Vec<String> = v.iter().map(|x| if let Some(r) = canon { x.canon(r) } else { x.coq() }).collect();
    if items.len() >= 16 && items.iter().all(|s| *s == items[0]) {
        return format!("(repl {}%N {})", items.len(), items[0]);
    }
    format!("{}%list", coq_list(&items))
}
impl<T: Arb + bitcoin::consensus::Encodable + bitcoin::consensus::Decodable + std::fmt::Debug> Arb for Array<T> {
    fn arb(g: &mut Gen) -> Self {
        Array(arb_vec(g, "array"))
    }
}
impl<T: ToCoq + bitcoin::consensus::Encodable + bitcoin::consensus::Decodable + std::fmt::Debug> ToCoq for Array<T> {
    fn coq(&self) -> String {
        coq_vec(&self.0, None)
    }
    fn canon(&self, r: bool) -> String {
        coq_vec(&self.0, Some(r))
    }
}
impl Arb for ArrayBE<u32> {
    fn arb(g: &mut Gen) -> Self {
        ArrayBE(arb_vec(g, "array"))
    }
}
impl ToCoq for ArrayBE<u32> {
    fn coq(&self) -> String {
        coq_vec(&self.0, None)
    }
}

macro_rules! arb_hash {
    ($t:ty) => {
        impl Arb for $t {
            fn arb(g: &mut Gen) -> Self {
                <$t>::from_byte_array(<[u8; 32]>::arb(g))
            }
        }
        impl ToCoq for $t {
            fn coq(&self) -> String {
                coq_bytes(&self.to_byte_array())
            }
        }
    };
}
arb_hash!(Txid);
arb_hash!(BlockHash);
arb_hash!(FilterHeader);

impl Arb for OutPoint {
    fn arb(g: &mut Gen) -> Self {
        OutPoint { txid: Txid::arb(g), vout: u32::arb(g) }
    }
}
impl ToCoq for OutPoint {
    fn coq(&self) -> String {
        format!("(Build_OutPoint {} {})", self.txid.coq(), self.vout.coq())
    }
}

impl Arb for BlockHeader {
    fn arb(g: &mut Gen) -> Self {
        BlockHeader {
            version: bitcoin::block::Version::from_consensus(u32::arb(g) as i32),
            prev_blockhash: BlockHash::arb(g),
            merkle_root: bitcoin::TxMerkleNode::from_byte_array(<[u8; 32]>::arb(g)),
            time: u32::arb(g),
            bits: bitcoin::CompactTarget::from_consensus(u32::arb(g)),
            nonce: u32::arb(g),
        }
    }
}
impl ToCoq for BlockHeader {
    fn coq(&self) -> String {
        coq_bytes(&serialize(self))
    }
}

fn arb_script(g: &mut Gen) -> ScriptBuf {
    let n = match g.prof() {
        Profile::Min => 0,
        Profile::Max => 34,
        Profile::Rand => *g.rng.pick(&[0usize, 1, 22, 23, 25, 34, 80]),
    };
    ScriptBuf::from_bytes(g.fill(n, false, false))
}

fn arb_tx(g: &mut Gen, unsigned: bool) -> Transaction {
    let (nin, nout, nwit) = match g.prof() {
        Profile::Min => (1, 0, 0),
        Profile::Max => (if unsigned { 4 } else { 3 }, 3, 2),
        Profile::Rand => (1 + g.rng.below(if unsigned { 4 } else { 3 }) as usize, g.rng.below(4) as usize, g.rng.below(3) as usize),
    };
    let input = (0..nin)
        .map(|_| TxIn {
            previous_output: OutPoint::arb(g),
            script_sig: if unsigned { ScriptBuf::new() } else { arb_script(g) },
            sequence: Sequence(u32::arb(g)),
            witness: if unsigned {
                Witness::default()
            } else {
                let items: Vec<Vec<u8>> = (0..nwit).map(|_| {
                    let n = g.rng.below(73) as usize;
                    g.fill(n, false, false)
                }).collect();
                Witness::from_slice(&items)
            },
        })
        .collect();
    let output = (0..nout)
        .map(|_| TxOut { value: Amount::from_sat(u64::arb(g)), script_pubkey: arb_script(g) })
        .collect();
    Transaction {
        version: Version(u32::arb(g) as i32),
        lock_time: LockTime::from_consensus(u32::arb(g)),
        input,
        output,
    }
}

impl Arb for WithSize<Transaction> {
    fn arb(g: &mut Gen) -> Self {
        WithSize(arb_tx(g, false))
    }
}
impl ToCoq for WithSize<Transaction> {
    fn coq(&self) -> String {
        coq_bytes(&serialize(&self.0))
    }
}

// ---- PSBTs

#[derive(Clone, Copy, PartialEq, Debug)]
pub enum InKind {
    Bare,
    WuOnly,
    Nwu,
    NwuWu,
    NwuBadWuValue,
    NwuBadWuScript,
    NwuBadTxid,
    NwuBadVout,
    /// a claimed previous output without the previous transaction whose script is neither a
    /// witness program nor p2sh: the sighash of such an input does not commit to the amount, the
    /// decoder refuses the claim ("missing utxo")
    WuOnlyLegacy,
}
const CONSISTENT: &[InKind] = &[InKind::Bare, InKind::WuOnly, InKind::Nwu, InKind::NwuWu];
const ALL_KINDS: &[InKind] = &[
    InKind::Bare, InKind::WuOnly, InKind::Nwu, InKind::NwuWu, InKind::Nwu, InKind::NwuWu,
    InKind::NwuBadWuValue, InKind::NwuBadWuScript, InKind::NwuBadTxid, InKind::NwuBadVout,
    InKind::WuOnlyLegacy,
];

fn script_of(head: &[u8], body: usize, tail: &[u8], g: &mut Gen) -> Vec<u8> {
    let mut v = head.to_vec();
    v.extend(g.fill(body, false, false));
    v.extend_from_slice(tail);
    v
}
/// outputs whose spend commits to the amount: witness programs (shortest, longest, v0, v1, v16)
/// and p2sh = OP_HASH160 <20 bytes> OP_EQUAL, exactly 23 bytes
pub fn admissible_script(g: &mut Gen) -> Vec<u8> {
    match g.rng.below(8) {
        0 => script_of(&[0x00, 0x14], 20, &[], g),
        1 => script_of(&[0x00, 0x20], 32, &[], g),
        2 => script_of(&[0x51, 0x20], 32, &[], g),
        3 => script_of(&[0x60, 0x28], 40, &[], g),
        4 => script_of(&[0x00, 0x02], 2, &[], g),
        _ => script_of(&[0xa9, 0x14], 20, &[0x87], g),
    }
}
/// everything else, with the near misses of p2sh (22 / 24 bytes, each of the three fixed bytes
/// wrong) and of a witness program (3 / 43 bytes, a non-version first opcode)
pub fn legacy_script(g: &mut Gen) -> Vec<u8> {
    match g.rng.below(14) {
        0 => script_of(&[0x76, 0xa9, 0x14], 20, &[0x88, 0xac], g), // p2pkh
        1 => script_of(&[0xa9, 0x14], 19, &[0x87], g),             // 22 bytes
        2 => script_of(&[0xa9, 0x14], 21, &[0x87], g),             // 24 bytes
        3 => script_of(&[0xa9, 0x14], 20, &[0x87, 0x00], g),       // p2sh + one byte
        4 => script_of(&[0xaa, 0x14], 20, &[0x87], g),             // OP_HASH256
        5 => script_of(&[0xa8, 0x14], 20, &[0x87], g),             // OP_SHA256
        6 => script_of(&[0xa9, 0x13], 20, &[0x87], g),             // push 19 announced
        7 => script_of(&[0xa9, 0x15], 20, &[0x87], g),             // push 21 announced
        8 => script_of(&[0xa9, 0x14], 20, &[0x88], g),             // OP_EQUALVERIFY
        9 => script_of(&[0xa9, 0x14], 20, &[0x86], g),
        10 => script_of(&[0x00, 0x01], 1, &[], g),                 // 3 bytes: too short for a program
        11 => script_of(&[0x60, 0x29], 41, &[], g),                // 43 bytes: too long
        12 => script_of(&[0x50, 0x14], 20, &[], g),                // OP_RESERVED is not a version
        _ => vec![],
    }
}

/// scripts around every decision of Script::witness_version and Script::is_p2sh
pub fn script_pool(g: &mut Gen) -> Vec<u8> {
    if g.rng.chance(1, 3) {
        return if g.rng.chance(1, 3) { admissible_script(g) } else { legacy_script(g) };
    }
    let r = g.rng.below(22);
    let body = |g: &mut Gen, n: usize| g.fill(n, false, false);
    let mk = |ver: u8, push: u8, n: usize, g: &mut Gen| {
        let mut v = vec![ver, push];
        v.extend(body(g, n));
        v
    };
    match r {
        0 => mk(0x00, 0x14, 20, g),          // p2wpkh
        1 => mk(0x00, 0x20, 32, g),          // p2wsh
        2 => mk(0x51, 0x20, 32, g),          // p2tr
        3 => mk(0x60, 0x28, 40, g),          // v16, 40 bytes: longest (42)
        4 => mk(0x60, 0x29, 41, g),          // 43 bytes: too long
        5 => mk(0x00, 0x02, 2, g),           // shortest (4)
        6 => mk(0x00, 0x01, 1, g),           // 3 bytes: too short
        7 => mk(0x50, 0x14, 20, g),          // OP_RESERVED is not a version
        8 => mk(0x61, 0x14, 20, g),          // OP_NOP is not a version
        9 => mk(0x4f, 0x14, 20, g),          // OP_1NEGATE
        10 => mk(0x00, 0x14, 21, g),         // push length disagrees (+1)
        11 => mk(0x00, 0x14, 19, g),         // push length disagrees (-1)
        12 => mk(0x00, 0x29, 40, g),         // push opcode 41 with 40 bytes
        13 => mk(0x52, 0x28, 40, g),         // v2, 40 bytes
        14 => {
            let mut v = vec![0x76, 0xa9, 0x14];
            v.extend(body(g, 20));
            v.extend([0x88, 0xac]);
            v
        } // p2pkh
        15 => {
            let mut v = vec![0xa9, 0x14];
            v.extend(body(g, 20));
            v.push(0x87);
            v
        } // p2sh
        16 => vec![],
        17 => vec![0x00],
        18 => mk(0x00, 0x4c, 0x4c, g),       // OP_PUSHDATA1 is not a direct push
        19 => mk(0x01, 0x14, 20, g),         // push-1-byte opcode as version
        20 => mk(0x5a, 0x02, 2, g),          // v10, 2 bytes
        _ => {
            let n = g.rng.below(45) as usize;
            body(g, n)
        }
    }
}

/// how an input's previous output relates to those of the inputs before it
#[derive(Clone, Copy, PartialEq, Debug)]
pub enum Share {
    /// a previous transaction no other input spends
    Own,
    /// another output of a previous transaction that an earlier input (adjacent or not) spends too:
    /// a deposit swept together with its change, several outputs of one closing transaction
    Sibling,
    /// the very same outpoint as an earlier input (degenerate; the decoder has no rule about it)
    Duplicate,
}

pub fn arb_psbt(g: &mut Gen, kinds: &[InKind]) -> (Psbt, Vec<InKind>) {
    let (p, k, _) = arb_psbt_shared(g, kinds);
    (p, k)
}

pub fn arb_psbt_shared(g: &mut Gen, kinds: &[InKind]) -> (Psbt, Vec<InKind>, Vec<Share>) {
    let mut tx = arb_tx(g, true);
    let mut inputs = vec![];
    let mut used = vec![];
    let mut shares = vec![];
    // previous transactions so far, with the vouts already spent from each
    let mut parents: Vec<(Transaction, Vec<u32>)> = vec![];
    for txin in tx.input.iter_mut() {
        let kind = match g.prof() {
            Profile::Min => InKind::Bare,
            Profile::Max => InKind::NwuWu,
            Profile::Rand => *g.rng.pick(kinds),
        };
        used.push(kind);
        // which previous transaction / output this input spends
        let want = match g.prof() {
            Profile::Min => Share::Own,
            // the all-maximal value: every input after the first is a sibling of the first
            Profile::Max => if parents.is_empty() { Share::Own } else { Share::Sibling },
            Profile::Rand => {
                if parents.is_empty() {
                    Share::Own
                } else {
                    match g.rng.below(8) {
                        0..=3 => Share::Sibling,
                        4 => Share::Duplicate,
                        _ => Share::Own,
                    }
                }
            }
        };
        let mut share = want;
        let mut pick = if parents.is_empty() { 0 } else { g.rng.below(parents.len() as u64) as usize };
        if want == Share::Sibling {
            // a parent that still has an unspent output (any earlier one: adjacent or interleaved)
            match (0..parents.len()).map(|i| (pick + i) % parents.len()).find(|i| parents[*i].1.len() < parents[*i].0.output.len()) {
                Some(i) => pick = i,
                None => share = Share::Own,
            }
        }
        if share == Share::Own {
            let mut prev = arb_tx(g, false);
            let nout = 2 + g.rng.below(3) as usize;
            prev.output = (0..nout)
                .map(|_| TxOut { value: Amount::from_sat(u64::arb(g)), script_pubkey: ScriptBuf::from_bytes(script_pool(g)) })
                .collect();
            parents.push((prev, vec![]));
            pick = parents.len() - 1;
        }
        let nout = parents[pick].0.output.len();
        let vout = match share {
            Share::Duplicate => *g.rng.pick(&parents[pick].1),
            _ => {
                let free: Vec<u32> = (0..nout as u32).filter(|v| !parents[pick].1.contains(v)).collect();
                *g.rng.pick(&free)
            }
        };
        if !parents[pick].1.contains(&vout) {
            parents[pick].1.push(vout);
        }
        shares.push(share);
        let prev = parents[pick].0.clone();
        let out = prev.output[vout as usize].clone();
        // every kind of input points at its previous transaction; whether that transaction (and / or a
        // witness_utxo) is attached is what the kind decides
        txin.previous_output = OutPoint { txid: prev.compute_txid(), vout };
        let mut inp = Input::default();
        match kind {
            InKind::Bare => {}
            // a bare claim: admissible / not admissible BY CONSTRUCTION of the script bytes (the
            // expectation does not consult the implementation's own predicates)
            InKind::WuOnly => {
                inp.witness_utxo = Some(TxOut { value: out.value, script_pubkey: ScriptBuf::from_bytes(admissible_script(g)) })
            }
            InKind::WuOnlyLegacy => {
                inp.witness_utxo = Some(TxOut { value: out.value, script_pubkey: ScriptBuf::from_bytes(legacy_script(g)) })
            }
            _ => {
                match kind {
                    InKind::NwuWu => inp.witness_utxo = Some(out.clone()),
                    InKind::NwuBadWuValue => {
                        inp.witness_utxo =
                            Some(TxOut { value: Amount::from_sat(out.value.to_sat() ^ 1), script_pubkey: out.script_pubkey.clone() })
                    }
                    InKind::NwuBadWuScript => {
                        let mut s = out.script_pubkey.to_bytes();
                        s.push(0x51);
                        inp.witness_utxo = Some(TxOut { value: out.value, script_pubkey: ScriptBuf::from_bytes(s) })
                    }
                    InKind::NwuBadTxid => {
                        let mut b = txin.previous_output.txid.to_byte_array();
                        b[g.rng.below(32) as usize] ^= 1 << g.rng.below(8);
                        txin.previous_output.txid = Txid::from_byte_array(b);
                    }
                    InKind::NwuBadVout => {
                        txin.previous_output.vout = *g.rng.pick(&[nout as u32, nout as u32 + 1, u32::MAX]);
                    }
                    _ => {}
                }
                inp.non_witness_utxo = Some(prev);
            }
        }
        inputs.push(inp);
    }
    let mut psbt = Psbt::from_unsigned_tx(tx).expect("unsigned tx");
    psbt.inputs = inputs;
    (psbt, used, shares)
}

fn coq_txout(o: &TxOut) -> String {
    format!("(Build_txout {}%N {})", o.value.to_sat(), coq_bytes(o.script_pubkey.as_bytes()))
}
fn coq_opt(o: Option<String>) -> String {
    match o {
        None => "None".to_string(),
        Some(s) => format!("(Some {})", s),
    }
}
/// the view of a PSBT that Model/Wire.v reads
pub fn coq_psbt_view(p: &Psbt) -> String {
    let txins: Vec<String> = p
        .unsigned_tx
        .input
        .iter()
        .map(|i| {
            format!(
                "(Build_txin {} {}%N {} {})",
                coq_bytes(&i.previous_output.txid.to_byte_array()),
                i.previous_output.vout,
                coq_bool(i.script_sig.is_empty()),
                coq_bool(i.witness.is_empty())
            )
        })
        .collect();
    let ins: Vec<String> = p
        .inputs
        .iter()
        .map(|i| {
            let nwu = i.non_witness_utxo.as_ref().map(|t| {
                let outs: Vec<String> = t.output.iter().map(coq_txout).collect();
                format!("(Build_prevtx {} {}%list)", coq_bytes(&t.compute_txid().to_byte_array()), coq_list(&outs))
            });
            format!("(Build_pinput {} {})", coq_opt(nwu), coq_opt(i.witness_utxo.as_ref().map(coq_txout)))
        })
        .collect();
    format!(
        "(Build_psbt {} {}%list {}%list)",
        coq_bytes(&serialize(&p.unsigned_tx)),
        coq_list(&txins),
        coq_list(&ins)
    )
}
fn coq_psbt(p: &Psbt) -> String {
    format!("({}, {})", coq_bytes(&p.serialize()), coq_psbt_view(p))
}

/// reference, computed from the PSBT that is sent: per input the previous output it designates
/// and whether that output is known to be segwit
pub fn reference_summary(p: &Psbt) -> (Vec<Option<TxOut>>, Vec<bool>) {
    let mut outs = vec![];
    let mut flags = vec![];
    for (i, inp) in p.inputs.iter().enumerate() {
        match &inp.non_witness_utxo {
            Some(prev) => {
                let vout = p.unsigned_tx.input[i].previous_output.vout as usize;
                let o = prev.output.get(vout).cloned();
                flags.push(o.as_ref().map(|o| o.script_pubkey.is_witness_program()).unwrap_or(false));
                outs.push(o);
            }
            None => {
                outs.push(inp.witness_utxo.clone());
                flags.push(false);
            }
        }
    }
    (outs, flags)
}
fn canon_summary(tx: &Transaction, outs: &[Option<TxOut>], flags: &[bool]) -> String {
    let o: Vec<String> = outs.iter().map(|o| coq_opt(o.as_ref().map(coq_txout))).collect();
    let f: Vec<&str> = flags.iter().map(|b| coq_bool(*b)).collect();
    format!("(streamed {} {} {})", hex::encode(serialize(tx)), coq_list(&o), coq_list(&f))
}

impl Arb for WithSize<PsbtWrapper> {
    fn arb(g: &mut Gen) -> Self {
        WithSize(PsbtWrapper { inner: arb_psbt(g, ALL_KINDS).0 })
    }
}
impl ToCoq for WithSize<PsbtWrapper> {
    fn coq(&self) -> String {
        coq_psbt(&self.0.inner)
    }
}
impl Arb for WithSize<StreamedPSBT> {
    fn arb(g: &mut Gen) -> Self {
        WithSize(StreamedPSBT::new(arb_psbt(g, CONSISTENT).0))
    }
}
impl ToCoq for WithSize<StreamedPSBT> {
    fn coq(&self) -> String {
        coq_psbt(self.0.psbt())
    }
    fn canon(&self, received: bool) -> String {
        let p = self.0.psbt();
        if received {
            let outs: Vec<Option<TxOut>> = p.inputs.iter().map(|i| i.witness_utxo.clone()).collect();
            let kept = p.inputs.iter().any(|i| i.non_witness_utxo.is_some());
            format!("{}{}", canon_summary(&p.unsigned_tx, &outs, &self.0.segwit_flags), if kept { " kept-prev-tx" } else { "" })
        } else {
            let (outs, flags) = reference_summary(p);
            canon_summary(&p.unsigned_tx, &outs, &flags)
        }
    }
}

impl Arb for DebugTxoProof {
    fn arb(g: &mut Gen) -> Self {
        let secp = Secp256k1::new();
        let n = match g.prof() {
            Profile::Min => 1,
            Profile::Max => 3,
            Profile::Rand => 1 + g.rng.below(3),
        };
        let attestations = (0..n)
            .map(|_| {
                let mut sk = g.rng.bytes32();
                sk[0] = 1;
                let pk = PublicKey::from_secret_key(&secp, &SecretKey::from_slice(&sk).expect("sk"));
                let att = txoo::Attestation {
                    block_hash: BlockHash::arb(g),
                    block_height: u32::arb(g),
                    filter_header: FilterHeader::arb(g),
                    time: u64::arb(g),
                };
                let mut sig = [0u8; 64];
                sig[..32].copy_from_slice(&g.rng.bytes32());
                sig[32..].copy_from_slice(&g.rng.bytes32());
                let signature = bitcoin::secp256k1::schnorr::Signature::from_slice(&sig).expect("sig");
                (pk, txoo::SignedAttestation { attestation: att, signature })
            })
            .collect();
        let proof = if g.prof() == Profile::Min || g.rng.chance(1, 2) {
            ProofType::ExternalBlock()
        } else {
            let header = BlockHeader::arb(g);
            let ntx = 1 + g.rng.below(2) as usize;
            ProofType::Block(bitcoin::Block { header, txdata: (0..ntx).map(|_| arb_tx(g, false)).collect() })
        };
        DebugTxoProof(TxoProof { attestations, proof })
    }
}
impl ToCoq for DebugTxoProof {
    fn coq(&self) -> String {
        coq_bytes(&serialize(&self.0))
    }
}

include!("../gen/wire_gen.rs");

// ------------------------------------------------------------------ running one value

fn err_kind(e: &vls_protocol::Error) -> &'static str {
    use vls_protocol::Error::*;
    match e {
        UnexpectedType(_) => "UnexpectedType",
        BadFraming => "BadFraming",
        Bitcoin(_) => "Bitcoin",
        TrailingBytes(_, _) => "TrailingBytes",
        ShortRead => "ShortRead",
        MessageTooLarge => "MessageTooLarge",
        Eof => "Eof",
        Io(_) => "Io",
        DeveloperField => "DeveloperField",
    }
}

pub struct Outcome {
    /// 0 same variant, equal structure, equal bytes; 1 Err; 2 as_vec panicked;
    /// 3 decoded to something else; 4 Unknown; 5 from_vec panicked
    pub out: u32,
    pub bytes: Vec<u8>,
    pub detail: String,
}

fn run_value(ti: &TypeInfo, m: &dyn AnyMsg) -> Outcome {
    let bytes = match catch_unwind(AssertUnwindSafe(|| m.bytes())) {
        Ok(b) => b,
        Err(_) => return Outcome { out: 2, bytes: vec![], detail: "as_vec panicked".into() },
    };
    let dec = catch_unwind(AssertUnwindSafe(|| msgs::from_vec(bytes.clone())));
    match dec {
        Err(_) => Outcome { out: 5, bytes, detail: "from_vec panicked".into() },
        Ok(Err(e)) => Outcome { out: 1, bytes, detail: err_kind(&e).to_string() },
        Ok(Ok(msg)) => {
            let (variant, canon, re) = describe(&msg);
            if variant == "Unknown" {
                return Outcome { out: 4, bytes, detail: format!("Unknown({})", canon) };
            }
            if variant != ti.name {
                return Outcome { out: 3, bytes, detail: format!("decoded as {}", variant) };
            }
            if canon != m.canon_msg(false) {
                return Outcome { out: 3, bytes, detail: "same variant, different field values".into() };
            }
            if !ti.has_streamed && re != bytes {
                return Outcome { out: 3, bytes, detail: "same variant, different bytes after re-encoding".into() };
            }
            // the typed decoder of the same bytes (T::from_vec) must agree
            match catch_unwind(AssertUnwindSafe(|| m.typed_from_vec(bytes.clone()))) {
                Ok(Ok(c)) if c == m.canon_msg(false) => {}
                Ok(Ok(_)) => return Outcome { out: 0, bytes, detail: "typed-differs: T::from_vec returns different field values".into() },
                Ok(Err(e)) => return Outcome { out: 0, bytes, detail: format!("typed-differs: T::from_vec refuses the bytes msgs::from_vec accepts ({})", e) },
                Err(_) => return Outcome { out: 0, bytes, detail: "typed-differs: T::from_vec panicked".into() },
            }
            Outcome { out: 0, bytes, detail: "ok".into() }
        }
    }
}

struct Stats {
    evals: u64,
    by_out: [u64; 6],
    by_kind: std::collections::BTreeMap<String, u64>,
    by_err: std::collections::BTreeMap<String, u64>,
    monitor: u64,
    max_len: usize,
    types: std::collections::BTreeSet<&'static str>,
    observations: u64,
}

fn emit_case(ti: &TypeInfo, m: &dyn AnyMsg, kind: &str, expect: u32, note: &str, seed: u64, st: &mut Stats) {
    let o = run_value(ti, m);
    st.evals += 1;
    st.by_out[o.out as usize] += 1;
    *st.by_kind.entry(kind.to_string()).or_insert(0) += 1;
    if o.out == 1 {
        *st.by_err.entry(o.detail.clone()).or_insert(0) += 1;
    }
    st.max_len = st.max_len.max(o.bytes.len());
    st.types.insert(ti.name);
    let violated = expect != 9 && (o.out != expect || o.detail.starts_with("typed-differs"));
    if violated {
        st.monitor += 1;
    }
    if expect == 9 {
        st.observations += 1;
    }
    // the out-of-domain panic of from_vec has no model counterpart: compared as an error
    let coq_out = if o.out == 5 { 1 } else { o.out };
    let coq = format!("({}, {}, {}%N)", m.coq_msg(), coq_bytes(&o.bytes), coq_out);
    let hexb = if o.bytes.len() <= 400 { hex::encode(&o.bytes) } else { format!("{}..({} bytes)", hex::encode(&o.bytes[..64]), o.bytes.len()) };
    emit(
        "CASE",
        json!({"ty": ti.name, "id": ti.id, "kind": kind, "note": note, "len": o.bytes.len(), "out": o.out, "expect": expect,
               "detail": o.detail, "monitor_violation": violated, "bytes": hexb, "seed": seed, "coq": coq,
               "value": if violated { m.coq_msg() } else { String::new() },
               "full_bytes": if violated { hex::encode(&o.bytes) } else { String::new() }}),
    );
}

fn gen_value(ti: &TypeInfo, seed: u64, profile: Profile, target: Option<(usize, usize)>) -> (Box<dyn AnyMsg>, Gen) {
    let mut g = Gen::new(seed, profile, target);
    let m = (ti.gen)(&mut g);
    (m, g)
}
fn enc_len(m: &dyn AnyMsg) -> Option<usize> {
    catch_unwind(AssertUnwindSafe(|| m.bytes().len())).ok()
}

/// encoded length of the all-maximal value of `ti` with variable-length site `s` forced to `l`
fn site_len(ti: &TypeInfo, base: u64, s: usize, l: usize) -> Option<usize> {
    let (m, _) = gen_value(ti, base, Profile::Max, Some((s, l)));
    enc_len(&*m)
}
/// largest value v <= cap of site `s` whose encoding has at most `total` bytes (length prefixes of
/// enclosing records may grow with v, so the linear estimate is corrected by measuring)
fn fit_to(ti: &TypeInfo, base: u64, s: usize, total: usize, cap: usize) -> Option<usize> {
    let l0 = site_len(ti, base, s, 0)?;
    let l1 = site_len(ti, base, s, 1)?;
    if l0 > total || l1 <= l0 {
        return None;
    }
    let unit = l1 - l0;
    let mut v = ((total - l0) / unit).min(cap);
    for _ in 0..64 {
        let l = site_len(ti, base, s, v)?;
        if l <= total {
            break;
        }
        let over = l - total;
        v = v.saturating_sub((over + unit - 1) / unit);
    }
    while v < cap && site_len(ti, base, s, v + 1)? <= total {
        v += 1;
    }
    if site_len(ti, base, s, v)? <= total { Some(v) } else { None }
}

fn msgs_domain(args: &Args) {
    let thorough = args.tier == "thorough";
    let only: Option<&String> = args.rest.iter().find(|a| !a.starts_with("--"));
    let mut st = Stats {
        evals: 0, by_out: [0; 6], by_kind: Default::default(), by_err: Default::default(), monitor: 0, max_len: 0,
        types: Default::default(), observations: 0,
    };
    let nrand = args.n.max(1);
    for (tix, ti) in TYPES.iter().enumerate() {
        if let Some(o) = only {
            if o != ti.name {
                continue;
            }
        }
        let base = args.seed.wrapping_mul(1000003).wrapping_add(tix as u64 * 7919);
        // 1. all-minimal and all-maximal values
        let (m, _) = gen_value(ti, base, Profile::Min, None);
        emit_case(ti, &*m, "min", 0, "", base, &mut st);
        let (m, gmax) = gen_value(ti, base, Profile::Max, None);
        emit_case(ti, &*m, "max", 0, "", base, &mut st);
        // 2. random + boundary values
        for k in 0..nrand {
            let s = base.wrapping_add(1 + k as u64);
            let (m, _) = gen_value(ti, s, Profile::Rand, None);
            emit_case(ti, &*m, "rand", 0, "", s, &mut st);
        }
        // 3. every variable-length site (as met in the all-maximal value) driven to its limits
        let nsites = gmax.kinds.len();
        let site_budget = if thorough || ti.has_tlv { nsites } else { nsites.min(4) };
        // quick: rotate which sites are taken by seed
        let first = if nsites > site_budget { (args.seed as usize) % nsites } else { 0 };
        for j in 0..site_budget {
            let s = (first + j) % nsites;
            let kind = gmax.kinds[s];
            let len_at = |l: usize| -> Option<usize> { site_len(ti, base, s, l) };
            let cap: usize = match kind {
                "octets" | "array" => 65535,
                _ => usize::MAX,
            };
            // largest value of the site that is both denotable and fits MAX_MESSAGE_SIZE
            let top = match fit_to(ti, base, s, MAX_MESSAGE_SIZE, cap) {
                Some(t) => t,
                None => continue,
            };
            let ltop = len_at(top).unwrap_or(0);
            let (m, _) = gen_value(ti, base, Profile::Max, Some((s, top)));
            emit_case(ti, &*m, "site-max", 0, &format!("site {} ({}) = {} (total {})", s, kind, top, ltop), base, &mut st);
            if ltop == MAX_MESSAGE_SIZE {
                st.by_kind.entry("size-exact".into()).and_modify(|x| *x += 1).or_insert(1);
            }
            if top < cap {
                // one more: over MAX_MESSAGE_SIZE (only reported by from_vec)
                let (m, _) = gen_value(ti, base, Profile::Max, Some((s, top + 1)));
                emit_case(ti, &*m, "size-over", 1, &format!("site {} ({}) = {}", s, kind, top + 1), base, &mut st);
            }
            // total encoded sizes around 2^16: the largest values with total <= 65535, 65536, 65537
            let mut seen64: Vec<usize> = vec![];
            for t in [65535usize, 65536, 65537] {
                if let Some(v) = fit_to(ti, base, s, t, cap) {
                    if v > 0 && !seen64.contains(&v) {
                        seen64.push(v);
                        let (m, _) = gen_value(ti, base, Profile::Max, Some((s, v)));
                        let l = len_at(v).unwrap_or(0);
                        emit_case(ti, &*m, "size-64k", 0, &format!("site {} ({}) = {} (total {})", s, kind, v, l), base, &mut st);
                    }
                }
            }
            // a TLV option stream: every stream length from just below 2^16 to well past it, so that
            // some record ends exactly at byte 65535 with further records behind it
            if ti.has_tlv && kind == "array" {
                if let Some(c0) = fit_to(ti, base, s, 65535, cap) {
                    let lo = c0.saturating_sub(if thorough { 40 } else { 12 });
                    let hi = (c0 + 150).min(top);
                    for v in lo..=hi {
                        let (m, _) = gen_value(ti, base, Profile::Max, Some((s, v)));
                        emit_case(ti, &*m, "tlv-sweep", 0, &format!("site {} (array) = {}", s, v), base, &mut st);
                    }
                }
            }
            if top == cap {
                match kind {
                    // Octets refuses to write more than 65535 bytes: as_vec panics
                    "octets" => {
                        let (m, _) = gen_value(ti, base, Profile::Max, Some((s, cap + 1)));
                        emit_case(ti, &*m, "unencodable", 2, &format!("site {} (octets) = 65536", s), base, &mut st);
                    }
                    // Array writes `len as u16`: 65536 elements are written as count 0.  Not a value
                    // the wire format can denote; recorded as an observation (DESIGN §4 C19).
                    _ => {
                        let (m, _) = gen_value(ti, base, Profile::Max, Some((s, cap + 1)));
                        emit_case(ti, &*m, "count-truncated", 9, &format!("site {} (array) = 65536", s), base, &mut st);
                    }
                }
            }
            if kind == "wirestring" {
                let (m, _) = gen_value(ti, base, Profile::Max, Some((s, POISON)));
                emit_case(ti, &*m, "unencodable", 2, &format!("site {} (wirestring) contains NUL", s), base, &mut st);
            }
        }
    }
    emit(
        "STATS",
        json!({"domain": "wire-msgs", "evaluations": st.evals, "types": st.types.len(), "registry_types": TYPES.len(),
               "outcomes": {"roundtrip": st.by_out[0], "from_vec_err": st.by_out[1], "as_vec_panic": st.by_out[2],
                            "decoded_differently": st.by_out[3], "unknown": st.by_out[4], "from_vec_panic": st.by_out[5]},
               "kinds": st.by_kind, "errors": st.by_err, "monitor_violations": st.monitor,
               "observations": st.observations, "max_encoded_len": st.max_len}),
    );
}

// ------------------------------------------------------------------ malformed byte strings

fn malformed_domain(args: &Args) {
    let mut rng = Rng::new(args.seed ^ 0x6d616c66);
    let clean: Vec<&TypeInfo> = TYPES.iter().filter(|t| !t.has_blob && t.dispatched).collect();
    let known: std::collections::BTreeSet<u16> = TYPES.iter().map(|t| t.id).collect();
    let mut kinds: std::collections::BTreeMap<&'static str, u64> = Default::default();
    let mut errs: std::collections::BTreeMap<String, u64> = Default::default();
    let mut outs = [0u64; 3];
    let mut n = 0u64;
    let mut run = |bytes: Vec<u8>, what: &'static str| {
        let r = catch_unwind(AssertUnwindSafe(|| msgs::from_vec(bytes.clone())));
        let (kind, idx, re, detail) = match r {
            Err(_) => (1u32, 0u64, vec![], "panic".to_string()),
            Ok(Err(e)) => (1, 0, vec![], err_kind(&e).to_string()),
            Ok(Ok(m)) => {
                let (variant, canon, re) = describe(&m);
                if variant == "Unknown" {
                    (4, canon.parse::<u64>().unwrap(), vec![], "Unknown".to_string())
                } else {
                    let ix = TYPES.iter().position(|t| t.name == variant).unwrap() as u64;
                    (0, ix, re, variant)
                }
            }
        };
        *kinds.entry(what).or_insert(0) += 1;
        outs[match kind { 0 => 0, 1 => 1, _ => 2 }] += 1;
        if kind == 1 {
            *errs.entry(detail.clone()).or_insert(0) += 1;
        }
        n += 1;
        let coq = format!("({}, {}%N, {}%N, {})", coq_bytes(&bytes), kind, idx, coq_bytes(&re));
        emit("MAL", json!({"what": what, "bytes": hex::encode(&bytes[..bytes.len().min(200)]), "len": bytes.len(),
                           "kind": kind, "idx": idx, "detail": detail, "coq": coq}));
    };
    run(vec![], "empty");
    run(vec![0], "one-byte");
    for k in 0..args.n {
        let ti = clean[rng.below(clean.len() as u64) as usize];
        let mut g = Gen::new(args.seed.wrapping_add(k as u64 * 31), Profile::Rand, None);
        let m = (ti.gen)(&mut g);
        let b = m.bytes();
        run(b.clone(), "valid");
        // truncations
        if b.len() > 2 {
            let cut = 2 + rng.below((b.len() - 2) as u64) as usize;
            run(b[..cut].to_vec(), "truncated");
            run(b[..b.len() - 1].to_vec(), "truncated-by-one");
        }
        run(b[..2].to_vec(), "type-only");
        // one byte too many
        let mut x = b.clone();
        x.push(rng.below(256) as u8);
        run(x, "extended");
        // payload byte changed (markers, lengths, counts)
        if b.len() > 2 {
            for _ in 0..3 {
                let mut x = b.clone();
                let p = 2 + rng.below((b.len() - 2) as u64) as usize;
                x[p] = match rng.below(4) {
                    0 => x[p].wrapping_add(1),
                    1 => x[p].wrapping_sub(1),
                    2 => 2,
                    _ => rng.below(256) as u8,
                };
                run(x, "byte-changed");
            }
        }
        // another type's id on this payload
        let other = clean[rng.below(clean.len() as u64) as usize];
        let mut x = b.clone();
        x[..2].copy_from_slice(&other.id.to_be_bytes());
        run(x, "retyped");
        // an id nobody has
        let mut id = rng.below(65536) as u16;
        while known.contains(&id) {
            id = id.wrapping_add(1);
        }
        let mut x = b.clone();
        x[..2].copy_from_slice(&id.to_be_bytes());
        run(x, "unknown-type");
        run(id.to_be_bytes().to_vec(), "unknown-type-only");
    }
    // oversize, whatever the content
    let mut big = vec![0u8; MAX_MESSAGE_SIZE + 1];
    big[1] = 33; // Memleak {}
    run(big.clone(), "oversize");
    big.truncate(MAX_MESSAGE_SIZE);
    run(big, "max-size-trailing");
    drop(run);
    emit("STATS", json!({"domain": "wire-malformed", "evaluations": n, "mutations": kinds,
                         "outcomes": {"ok": outs[0], "err": outs[1], "unknown": outs[2]}, "errors": errs}));
}

// ------------------------------------------------------------------ framed streams

fn framed_domain(args: &Args) {
    use vls_protocol::serde_bolt::io::Cursor;
    let mut rng = Rng::new(args.seed ^ 0x6672616d);
    let ntypes = TYPES.len();
    let mut n_msgs = 0u64;
    let mut monitor = 0u64;
    let mut write_differs = 0u64;
    let mut types_seen: std::collections::BTreeSet<&'static str> = Default::default();
    let mut max_stream = 0usize;
    // sequence specifications: (type index, seed, profile, forced site)
    type Spec = (usize, u64, Profile, Option<(usize, usize)>);
    let mut specs: Vec<Vec<Spec>> = vec![];
    for j in 0..args.n {
        // every registry type comes first or second in some sequence (2 per sequence, in order)
        let mut tix = vec![(2 * j) % ntypes, (2 * j + 1) % ntypes];
        for _ in 0..rng.below(3) {
            tix.push(rng.below(ntypes as u64) as usize);
        }
        let mut seq: Vec<Spec> = vec![];
        for (k, t) in tix.iter().enumerate() {
            let seed = args.seed.wrapping_mul(7121).wrapping_add((j * 16 + k) as u64);
            let (profile, mut target) = match (j + k) % 9 {
                0 => (Profile::Min, None),
                1 => (Profile::Max, None),
                2 if k == 0 => (Profile::Max, Some((0usize, 1500usize))), // a long message inside a stream
                _ => (Profile::Rand, None),
            };
            // every 4th sequence starts with a message of exactly 65536 bytes (or the nearest below)
            if j % 4 == 3 && k == 0 {
                if let Some(v) = fit_to(&TYPES[*t], seed, 0, 65536, 65535) {
                    target = Some((0, v));
                }
            }
            let profile = if target.is_some() { Profile::Max } else { profile };
            seq.push((*t, seed, profile, target));
        }
        specs.push(seq);
    }
    // TLV option streams around 2^16 and up to the frame limit, followed by another message
    for (t, ti) in TYPES.iter().enumerate() {
        if !ti.has_tlv {
            continue;
        }
        let seed = args.seed.wrapping_mul(991).wrapping_add(t as u64);
        let (_, g) = gen_value(ti, seed, Profile::Max, None);
        // ... one string record filling the frame to MAX_MESSAGE_SIZE
        if let Some(site) = g.kinds.iter().position(|k| *k == "wirestring") {
            if let Some(v) = fit_to(ti, seed, site, MAX_MESSAGE_SIZE, usize::MAX) {
                specs.push(vec![(t, seed, Profile::Max, Some((site, v))), (0, seed ^ 1, Profile::Rand, None)]);
            }
        }
        if let Some(site) = g.kinds.iter().position(|k| *k == "array") {
            if let (Some(c0), Some(top)) = (fit_to(ti, seed, site, 65535, 65535), fit_to(ti, seed, site, MAX_MESSAGE_SIZE, 65535)) {
                let mut counts: Vec<usize> = (c0.saturating_sub(2)..c0 + 3).collect();
                counts.extend((1..8).map(|i| c0 + 20 * i));
                counts.push(top);
                for c in counts {
                    specs.push(vec![(t, seed, Profile::Max, Some((site, c.min(top)))), (0, seed ^ 1, Profile::Rand, None)]);
                }
            }
        }
    }
    for (j, seq) in specs.iter().enumerate() {
        let mut sent: Vec<(&TypeInfo, Box<dyn AnyMsg>)> = vec![];
        let mut stream: Vec<u8> = vec![];
        let mut violation = String::new();
        for (t, seed, profile, target) in seq.iter() {
            let ti = &TYPES[*t];
            let (seed, profile, target) = (*seed, *profile, *target);
            let (m, _) = gen_value(ti, seed, profile, target);
            let (m2, _) = gen_value(ti, seed, profile, target); // the same value again: write consumes it
            let payload = m.bytes();
            let mut expected: Vec<u8> = vec![];
            msgs::write_vec(&mut expected, payload.clone()).expect("write_vec");
            match catch_unwind(AssertUnwindSafe(|| m2.write_framed())) {
                Ok(Ok(actual)) => {
                    if actual != expected {
                        write_differs += 1;
                        if violation.is_empty() {
                            violation = format!(
                                "msgs::write({}) differs from write_vec(as_vec()): length prefix {} vs {} (payload {} bytes)",
                                ti.name,
                                u32::from_be_bytes([actual[0], actual[1], actual[2], actual[3]]),
                                expected.len() - 4,
                                actual.len() - 4
                            );
                        }
                    }
                    stream.extend(actual);
                }
                Ok(Err(e)) => {
                    violation = format!("msgs::write({}) failed: {}", ti.name, e);
                    stream.extend(expected);
                }
                Err(_) => {
                    violation = format!("msgs::write({}) panicked", ti.name);
                    stream.extend(expected);
                }
            }
            types_seen.insert(ti.name);
            sent.push((ti, m));
            n_msgs += 1;
        }
        max_stream = max_stream.max(stream.len());
        // 1. msgs::read, one message after the other
        let mut out = 0u32;
        let mut detail = String::from("ok");
        let r = catch_unwind(AssertUnwindSafe(|| {
            let mut c = Cursor::new(stream.clone());
            for (ti, m) in sent.iter() {
                match msgs::read(&mut c) {
                    Err(e) => return Err(format!("msgs::read of {}: {}", ti.name, err_kind(&e))),
                    Ok(msg) => {
                        let (variant, canon, re) = describe(&msg);
                        if variant != ti.name {
                            return Err(format!("msgs::read of {} returned {}", ti.name, variant));
                        }
                        if canon != m.canon_msg(false) || (!ti.has_streamed && re != m.bytes()) {
                            return Err(format!("msgs::read of {}: different field values", ti.name));
                        }
                    }
                }
            }
            if c.position() as usize != stream.len() {
                return Err(format!("{} bytes left on the stream", stream.len() - c.position() as usize));
            }
            Ok(())
        }));
        match r {
            Ok(Ok(())) => {}
            Ok(Err(e)) => {
                out = 1;
                detail = e;
            }
            Err(_) => {
                out = 1;
                detail = "msgs::read panicked".into();
            }
        }
        // 2. read_message::<T>, one after the other
        if out == 0 {
            let mut off = 0usize;
            for (ti, m) in sent.iter() {
                match catch_unwind(AssertUnwindSafe(|| m.read_typed(&stream[off..]))) {
                    Ok(Ok((canon, used))) => {
                        if canon != m.canon_msg(false) {
                            out = 1;
                            detail = format!("read_message::<{}>: different field values", ti.name);
                            break;
                        }
                        off += used;
                    }
                    Ok(Err(e)) => {
                        out = 1;
                        detail = format!("read_message::<{}>: {}", ti.name, e);
                        break;
                    }
                    Err(_) => {
                        out = 1;
                        detail = format!("read_message::<{}> panicked", ti.name);
                        break;
                    }
                }
            }
            if out == 0 && off != stream.len() {
                out = 1;
                detail = "read_message: bytes left on the stream".into();
            }
        }
        // 3. the length read by the caller, then from_reader
        if out == 0 {
            let mut c = Cursor::new(stream.clone());
            for (ti, m) in sent.iter() {
                let mut lb = [0u8; 4];
                use vls_protocol::serde_bolt::io::Read;
                if c.read_exact(&mut lb).is_err() {
                    out = 1;
                    detail = "from_reader: stream ended".into();
                    break;
                }
                match catch_unwind(AssertUnwindSafe(|| msgs::from_reader(&mut c, u32::from_be_bytes(lb)))) {
                    Ok(Ok(msg)) => {
                        let (variant, canon, _) = describe(&msg);
                        if variant != ti.name || canon != m.canon_msg(false) {
                            out = 1;
                            detail = format!("from_reader of {}: different message", ti.name);
                            break;
                        }
                    }
                    _ => {
                        out = 1;
                        detail = format!("from_reader of {} failed", ti.name);
                        break;
                    }
                }
            }
        }
        if out != 0 && violation.is_empty() {
            violation = detail.clone();
        }
        if !violation.is_empty() {
            monitor += 1;
        }
        let terms: Vec<String> = sent.iter().map(|(_, m)| m.coq_msg()).collect();
        let coq = format!("({}%list, {}, {}%N)", coq_list(&terms), coq_bytes(&stream), out);
        emit("STREAM", json!({"seq": j, "types": sent.iter().map(|(t, _)| t.name).collect::<Vec<_>>(), "len": stream.len(),
                              "out": out, "detail": detail, "monitor_violation": violation, "coq": coq,
                              "values": if violation.is_empty() { vec![] } else { terms.clone() },
                              "stream_hex": if violation.is_empty() || stream.len() > 4000 { String::new() } else { hex::encode(&stream) }}));
    }
    // frames that are not frames, through msgs::read (blob-free types)
    let clean: Vec<&TypeInfo> = TYPES.iter().filter(|t| !t.has_blob && t.dispatched).collect();
    let mut kinds: std::collections::BTreeMap<&'static str, u64> = Default::default();
    let mut n_mal = 0u64;
    let mut run = |bytes: Vec<u8>, what: &'static str| {
        let r = catch_unwind(AssertUnwindSafe(|| {
            let mut c = Cursor::new(bytes.clone());
            msgs::read(&mut c).map(|m| (m, c.position() as usize))
        }));
        let (kind, idx, re, left, detail) = match r {
            Err(_) => (1u32, 0u64, vec![], 0usize, "panic".to_string()),
            Ok(Err(e)) => (1, 0, vec![], 0, err_kind(&e).to_string()),
            Ok(Ok((m, pos))) => {
                let (variant, canon, re) = describe(&m);
                if variant == "Unknown" {
                    (4, canon.parse::<u64>().unwrap(), vec![], bytes.len() - pos, "Unknown".to_string())
                } else {
                    (0, TYPES.iter().position(|t| t.name == variant).unwrap() as u64, re, bytes.len() - pos, variant)
                }
            }
        };
        *kinds.entry(what).or_insert(0) += 1;
        n_mal += 1;
        let coq = format!("({}, {}%N, {}%N, {}, {}%N)", coq_bytes(&bytes), kind, idx, coq_bytes(&re), left);
        emit("FMAL", json!({"what": what, "len": bytes.len(), "kind": kind, "idx": idx, "left": left, "detail": detail,
                            "bytes": hex::encode(&bytes[..bytes.len().min(120)]), "coq": coq}));
    };
    for k in 0..args.n {
        let ti = clean[rng.below(clean.len() as u64) as usize];
        let mut g = Gen::new(args.seed.wrapping_add(k as u64 * 131), Profile::Rand, None);
        let payload = (ti.gen)(&mut g).bytes();
        let tail: Vec<u8> = (0..rng.below(7)).map(|_| rng.below(256) as u8).collect();
        let framed = |len: u32, body: &[u8], tail: &[u8]| {
            let mut b = len.to_be_bytes().to_vec();
            b.extend_from_slice(body);
            b.extend_from_slice(tail);
            b
        };
        let n = payload.len() as u32;
        run(framed(n, &payload, &tail), "frame+tail");
        run(framed(n + 1, &payload, &tail), "length+1");
        run(framed(n.saturating_sub(1), &payload, &tail), "length-1");
        run(framed(n, &payload[..payload.len() - 1], &[]), "stream-ends-early");
        run(framed(*rng.pick(&[0u32, 1]), &payload, &tail), "length<2");
        run(framed(*rng.pick(&[131073u32, 1 << 24, u32::MAX]), &payload, &tail), "length>max");
        run(framed(2, &payload[..2], &tail), "type-only-frame");
        let cut = rng.below(4) as usize;
        run(n.to_be_bytes()[..cut].to_vec(), "short-length-prefix");
    }
    drop(run);
    emit("STATS", json!({"domain": "wire-framed", "sequences": specs.len(), "messages": n_msgs, "types": types_seen.len(),
                         "registry_types": ntypes, "write_differs_from_write_vec": write_differs, "monitor_violations": monitor,
                         "max_stream_len": max_stream, "malformed_frames": n_mal, "malformed_kinds": kinds}));
}

// ------------------------------------------------------------------ the carrier (vls-proxy hsmd socket)

#[cfg(feature = "proxy")]
fn carrier_domain(args: &Args) {
    use std::io::{Read as _, Write as _};
    use std::os::fd::IntoRawFd;
    use std::os::unix::net::UnixStream;
    use std::time::Duration;
    use vls_proxy::client::{Client, UnixClient};
    use vls_proxy::connection::UnixConnection;

    let mut rng = Rng::new(args.seed ^ 0x63617272);
    let ntypes = TYPES.len();
    let psbt_types: Vec<usize> = TYPES.iter().enumerate().filter(|(_, t)| t.has_streamed).map(|(i, _)| i).collect();
    let mut n_frames = 0u64;
    let mut monitor = 0u64;
    let mut by_segments = [0u64; 4];
    let mut cut_kinds: std::collections::BTreeMap<&'static str, u64> = Default::default();
    let mut max_frame = 0usize;
    for j in 0..args.n {
        // 1-3 messages back to back; every third case has a large streamed-PSBT request, every
        // fifth a long byte string
        let mut specs: Vec<(usize, u64, Profile, Option<(usize, usize)>)> = vec![];
        let nm = 1 + rng.below(3) as usize;
        for k in 0..nm {
            let seed = args.seed.wrapping_mul(4099).wrapping_add((j * 8 + k) as u64);
            if j % 3 == 0 && k == nm - 1 {
                let t = psbt_types[(j / 3) % psbt_types.len()];
                specs.push((t, seed, Profile::Max, Some((0, 300 + rng.below(900) as usize)))); // many utxos + PSBT
            } else if j % 5 == 1 && k == nm - 1 {
                let t = TYPES.iter().position(|t| t.name == "SignMessage").unwrap_or(0);
                specs.push((t, seed, Profile::Max, Some((0, 20000 + rng.below(40000) as usize))));
            } else {
                specs.push(((j * 3 + k) % ntypes, seed, if rng.chance(1, 4) { Profile::Max } else { Profile::Rand }, None));
            }
        }
        let sent: Vec<(&TypeInfo, Box<dyn AnyMsg>)> =
            specs.iter().map(|(t, s, p, tg)| (&TYPES[*t], gen_value(&TYPES[*t], *s, *p, *tg).0)).collect();
        let payloads: Vec<Vec<u8>> = sent.iter().map(|(_, m)| m.bytes()).collect();
        let mut stream: Vec<u8> = vec![];
        let mut starts = vec![];
        for p in &payloads {
            starts.push(stream.len());
            msgs::write_vec(&mut stream, p.clone()).expect("write_vec");
            max_frame = max_frame.max(p.len() + 4);
        }
        // where the stream is cut into segments: relative to the LAST frame (the earlier ones arrive whole,
        // so the cut frame also "straddles a preceding one")
        let last = *starts.last().unwrap();
        let body = payloads.last().unwrap().len();
        let (what, mut cuts): (&'static str, Vec<usize>) = match j % 8 {
            0 => ("one-segment", vec![]),
            1 => ("body-middle", vec![last + 4 + body / 2]),
            2 => ("after-length-prefix", vec![last + 4]),
            3 => ("inside-length-prefix", vec![last + 2]),
            4 => ("after-type", vec![last + 4 + 2.min(body)]),
            5 => ("last-byte-late", vec![last + 4 + body - 1]),
            6 => ("three-segments", vec![last + 4 + body / 3, last + 4 + 2 * body / 3]),
            _ => ("prefix-and-body", vec![last + 3, last + 4 + 1 + rng.below(body.max(2) as u64 - 1) as usize]),
        };
        cuts.retain(|c| *c > 0 && *c < stream.len());
        cuts.dedup();
        *cut_kinds.entry(what).or_insert(0) += 1;
        by_segments[cuts.len() + 1] += 1;
        let mut segments: Vec<Vec<u8>> = vec![];
        let mut at = 0;
        for c in cuts.iter().chain(std::iter::once(&stream.len())) {
            segments.push(stream[at..*c].to_vec());
            at = *c;
        }
        let (node_end, proxy_end) = UnixStream::pair().expect("socketpair");
        let segs = segments.clone();
        let writer = std::thread::spawn(move || {
            let mut node_end = node_end;
            for (i, sg) in segs.iter().enumerate() {
                // the reader is already blocked in read(); give it time to take the previous segment
                std::thread::sleep(Duration::from_millis(if i == 0 { 5 } else { 40 }));
                if node_end.write_all(sg).is_err() {
                    break;
                }
            }
            node_end // kept open until the reader is done
        });
        let mut client = UnixClient::new(UnixConnection::new(proxy_end.into_raw_fd()));
        let mut out = 0u32;
        let mut detail = String::from("ok");
        for (i, (ti, m)) in sent.iter().enumerate() {
            n_frames += 1;
            match catch_unwind(AssertUnwindSafe(|| client.read_raw())) {
                Ok(Ok(raw)) => {
                    if raw != payloads[i] {
                        out = 1;
                        detail = format!("read_raw returned {} bytes that are not the {} bytes sent for {}", raw.len(), payloads[i].len(), ti.name);
                        break;
                    }
                    match msgs::from_vec(raw) {
                        Ok(msg) => {
                            let (variant, canon, _) = describe(&msg);
                            if variant != ti.name || canon != m.canon_msg(false) {
                                out = 1;
                                detail = format!("frame {} decodes to a different message", ti.name);
                                break;
                            }
                        }
                        Err(e) => {
                            out = 1;
                            detail = format!("frame {} does not decode: {}", ti.name, err_kind(&e));
                            break;
                        }
                    }
                }
                Ok(Err(e)) => {
                    out = 1;
                    detail = format!("UnixClient::read_raw refused the complete frame of {} ({} bytes, delivered as {:?}-byte segments): {}",
                                     ti.name, payloads[i].len(), segments.iter().map(|x| x.len()).collect::<Vec<_>>(), err_kind(&e));
                    break;
                }
                Err(_) => {
                    out = 1;
                    detail = "UnixClient::read_raw panicked".into();
                    break;
                }
            }
        }
        // replies: what the proxy writes must arrive at the node's end as frame(as_vec)
        let node_end = writer.join().expect("writer");
        if out == 0 {
            let (ti, _) = &sent[0];
            let expect = {
                let mut b = vec![];
                msgs::write_vec(&mut b, payloads[0].clone()).unwrap();
                b
            };
            let mut node_end = node_end;
            node_end.set_read_timeout(Some(Duration::from_secs(5))).ok();
            let exp_len = expect.len();
            let rd = std::thread::spawn(move || {
                let mut got = vec![0u8; exp_len];
                let r = node_end.read_exact(&mut got);
                (r.is_ok(), got)
            });
            let wrote = client.write_vec(payloads[0].clone()).is_ok();
            let (ok, got) = rd.join().expect("reader");
            if !wrote || !ok || got != expect {
                out = 1;
                detail = format!("a reply {} written through UnixClient did not arrive as frame(as_vec) at the node's end", ti.name);
            }
        }
        if out != 0 {
            monitor += 1;
        }
        let terms: Vec<String> = sent.iter().map(|(_, m)| m.coq_msg()).collect();
        let coq = format!("({}%list, {}, {}%N)", coq_list(&terms), coq_bytes(&stream), out);
        emit("CARRIER", json!({"case": j, "types": sent.iter().map(|(t, _)| t.name).collect::<Vec<_>>(), "cut": what,
                               "segments": segments.iter().map(|x| x.len()).collect::<Vec<_>>(), "len": stream.len(),
                               "out": out, "detail": detail, "monitor_violation": if out != 0 { detail.clone() } else { String::new() },
                               "coq": coq, "values": if out != 0 && stream.len() < 3000 { terms.clone() } else { vec![] },
                               "stream_hex": if out != 0 && stream.len() < 3000 { hex::encode(&stream) } else { String::new() }}));
    }
    emit("STATS", json!({"domain": "wire-carrier", "cases": args.n, "frames": n_frames, "monitor_violations": monitor,
                         "by_segments": {"1": by_segments[1], "2": by_segments[2], "3": by_segments[3]}, "cuts": cut_kinds,
                         "max_frame_len": max_frame}));
}

// ------------------------------------------------------------------ streamed PSBT

fn psbt_domain(args: &Args) {
    let mut n_ok = 0u64;
    let mut n_err = 0u64;
    let mut monitor = 0u64;
    let mut flags_true = 0u64;
    let mut kinds: std::collections::BTreeMap<String, u64> = Default::default();
    let mut share_kinds: std::collections::BTreeMap<String, u64> = Default::default();
    let mut with_siblings = 0u64;
    for k in 0..args.n {
        let seed = args.seed.wrapping_mul(7777).wrapping_add(k as u64);
        let mut g = Gen::new(seed, Profile::Rand, None);
        let only_consistent = g.rng.chance(1, 3);
        let (psbt, used, shares) = arb_psbt_shared(&mut g, if only_consistent { CONSISTENT } else { ALL_KINDS });
        for u in &used {
            *kinds.entry(format!("{:?}", u)).or_insert(0) += 1;
        }
        for sh in &shares {
            *share_kinds.entry(format!("{:?}", sh)).or_insert(0) += 1;
        }
        if shares.iter().any(|x| *x == Share::Sibling) {
            with_siblings += 1;
        }
        // every message that carries a streamed PSBT, in turn; through the registry (msgs::from_vec) and
        // through the message's own typed from_vec
        let carrier = ["SignWithdrawal", "SignAnchorspend", "SignHtlcTxMingle"][k % 3];
        let sp_new = || WithSize(StreamedPSBT::new(psbt.clone()));
        let peer = PubKey([2u8; 33]);
        let bytes = match carrier {
            "SignWithdrawal" => SerBolt::as_vec(&SignWithdrawal { utxos: Array(vec![]), psbt: sp_new() }),
            "SignAnchorspend" => SerBolt::as_vec(&SignAnchorspend { peer_id: peer, dbid: 7, utxos: Array(vec![]), psbt: sp_new() }),
            _ => SerBolt::as_vec(&SignHtlcTxMingle { peer_id: peer, dbid: 7, utxos: Array(vec![]), psbt: sp_new() }),
        };
        let dec = catch_unwind(AssertUnwindSafe(|| {
            let via_registry = msgs::from_vec(bytes.clone()).map(|m| match m {
                Message::SignWithdrawal(d) => Some(d.psbt.0),
                Message::SignAnchorspend(d) => Some(d.psbt.0),
                Message::SignHtlcTxMingle(d) => Some(d.psbt.0),
                _ => None,
            });
            let typed = match carrier {
                "SignWithdrawal" => <SignWithdrawal as DeBolt>::from_vec(bytes.clone()).map(|d| d.psbt.0),
                "SignAnchorspend" => <SignAnchorspend as DeBolt>::from_vec(bytes.clone()).map(|d| d.psbt.0),
                _ => <SignHtlcTxMingle as DeBolt>::from_vec(bytes.clone()).map(|d| d.psbt.0),
            };
            (via_registry, typed)
        }));
        // the two decoders of the same bytes must agree (accept / refuse, and on what they return)
        let mut typed_note = String::new();
        let dec = dec.map(|(reg, typed)| {
            match (&reg, &typed) {
                (Ok(Some(a)), Ok(b)) => {
                    if a.psbt().unsigned_tx != b.psbt().unsigned_tx || a.segwit_flags != b.segwit_flags
                        || a.psbt().inputs.iter().map(|i| i.witness_utxo.clone()).collect::<Vec<_>>()
                            != b.psbt().inputs.iter().map(|i| i.witness_utxo.clone()).collect::<Vec<_>>()
                    {
                        typed_note = format!("{}::from_vec and msgs::from_vec return different PSBT data", carrier);
                    }
                }
                (Err(_), Err(_)) => {}
                (Ok(None), _) => {}
                _ => typed_note = format!("{}::from_vec and msgs::from_vec disagree on accepting the bytes", carrier),
            }
            reg
        });
        let (reference_outs, reference_flags) = reference_summary(&psbt);
        let expect_ok = used.iter().all(|u| CONSISTENT.contains(u));
        let mut violation = String::new();
        let obs = match dec {
            Ok(Ok(Some(sp))) => {
                n_ok += 1;
                let sp = &sp;
                let p = sp.psbt();
                let outs: Vec<Option<TxOut>> = p.inputs.iter().map(|i| i.witness_utxo.clone()).collect();
                let kept = p.inputs.iter().any(|i| i.non_witness_utxo.is_some());
                flags_true += sp.segwit_flags.iter().filter(|b| **b).count() as u64;
                // the property itself, against the reference computed from what was sent
                if p.unsigned_tx != psbt.unsigned_tx {
                    violation = "decoded transaction differs".into();
                } else if outs != reference_outs {
                    violation = "decoded previous outputs differ from the encoded PSBT's".into();
                } else if sp.segwit_flags != reference_flags {
                    violation = "segwit flags differ from the encoded PSBT's".into();
                } else if !expect_ok {
                    violation = "an inconsistent PSBT was accepted".into();
                }
                let o: Vec<String> = outs.iter().map(|o| coq_opt(o.as_ref().map(coq_txout))).collect();
                let f: Vec<&str> = sp.segwit_flags.iter().map(|b| coq_bool(*b)).collect();
                format!("(Some ({}%list, {}, {}%list))", coq_list(&o), coq_bool(kept), coq_list(&f))
            }
            Ok(Ok(None)) => {
                violation = "decoded as another message".into();
                "None".to_string()
            }
            Ok(Err(e)) => {
                n_err += 1;
                if expect_ok {
                    violation = format!("{}: a consistent PSBT was refused by msgs::from_vec of the message's own encoding ({}); inputs {:?} / {:?}",
                                        carrier, err_kind(&e), used, shares);
                }
                "None".to_string()
            }
            Err(_) => {
                violation = "from_vec panicked".into();
                "None".to_string()
            }
        };
        if violation.is_empty() && !typed_note.is_empty() {
            violation = typed_note;
        }
        if !violation.is_empty() {
            monitor += 1;
        }
        let coq = format!("({}, {})", coq_psbt_view(&psbt), obs);
        emit("PSBT", json!({"seed": seed, "carrier": carrier, "inputs": used.iter().map(|u| format!("{:?}", u)).collect::<Vec<_>>(),
                            "shares": shares.iter().map(|u| format!("{:?}", u)).collect::<Vec<_>>(),
                            "message_hex": if violation.is_empty() { String::new() } else { hex::encode(&bytes) },
                            "accepted": obs != "None", "monitor_violation": violation, "coq": coq,
                            "psbt_hex": if violation.is_empty() { String::new() } else { hex::encode(psbt.serialize()) }}));
    }
    // Script::is_witness_program against the model's, on scripts around every decision
    let mut g = Gen::new(args.seed ^ 0x7770, Profile::Rand, None);
    let mut wp_true = 0u64;
    let mut sh_true = 0u64;
    let nwp = args.n * 4;
    for _ in 0..nwp {
        let s = script_pool(&mut g);
        let b = ScriptBuf::from_bytes(s.clone()).is_witness_program();
        let h = ScriptBuf::from_bytes(s.clone()).is_p2sh();
        if b {
            wp_true += 1;
        }
        if h {
            sh_true += 1;
        }
        emit("WP", json!({"script": hex::encode(&s), "is_witness_program": b, "is_p2sh": h,
                          "coq": format!("({}, {}, {})", coq_bytes(&s), coq_bool(b), coq_bool(h))}));
    }
    emit("STATS", json!({"domain": "wire-psbt", "evaluations": args.n, "accepted": n_ok, "refused": n_err,
                         "input_kinds": kinds, "input_parents": share_kinds, "psbts_with_sibling_inputs": with_siblings, "segwit_flags_true": flags_true, "monitor_violations": monitor,
                         "witness_program_cases": nwp, "witness_program_true": wp_true, "p2sh_true": sh_true}));
}

fn main() {
    let argv: Vec<String> = std::env::args().collect();
    let args = parse_args(&argv[2..]);
    std::panic::set_hook(Box::new(|_| {}));
    match argv[1].as_str() {
        "msgs" => msgs_domain(&args),
        "malformed" => malformed_domain(&args),
        "psbt" => psbt_domain(&args),
        "framed" => framed_domain(&args),
        #[cfg(feature = "proxy")]
        "carrier" => carrier_domain(&args),
        other => {
            eprintln!("unknown sub-domain {}", other);
            std::process::exit(2);
        }
    }
}
