//! Domain `monitor` (C14): a real channel on a real Node; block histories over {funding,
//! double-spend, mutual close, holder / counterparty commitment with 0-2 HTLCs, sweep, HTLC
//! spend, second-level spend} are delivered to the channel's ChainMonitor
//!   * `tracker`: through the node's ChainTracker (add_block / remove_block with compact
//!     proofs, block_chunk + external proof for streamed adds), observing monitor::State and
//!     the ListenSlot the tracker keeps for the channel;
//!   * `direct`: through the ChainListener interface of the monitor (on_add_block /
//!     on_remove_block / on_push + on_*_streamed_block_end), with the six lines of
//!     notify_listeners_add / _remove replicated on a shadow slot (streamed removal cannot
//!     be driven through the tracker).
//! After every step the serde dump of the state, the watch / seen sets and the depth getters
//! are recorded for the Coq model; independently the harness compares them with a fresh
//! node that replays only the surviving chain (the property itself).  Every call that may
//! panic runs under catch_unwind.
use lightning_signer::bitcoin::absolute::LockTime;
use lightning_signer::bitcoin::consensus::serialize;
use lightning_signer::bitcoin::secp256k1::Secp256k1;
use lightning_signer::bitcoin::transaction::Version;
use lightning_signer::bitcoin::{
    Amount, Block, BlockHash, OutPoint, ScriptBuf, Sequence, Transaction, TxIn, TxOut, Txid, Witness,
};
use lightning_signer::chain::tracker::{ChainListener, Headers};
use lightning_signer::channel::Channel;
use lightning_signer::lightning::types::payment::{PaymentHash, PaymentPreimage};
use lightning_signer::monitor::ChainMonitor;
use lightning_signer::node::{Node, RoutedPayment, SpendType};
use lightning_signer::tx::tx::{CommitmentInfo2, HTLCInfo2};
use lightning_signer::txoo::proof::{ProofType, TxoProof};
use lightning_signer::util::test_utils::key::make_test_pubkey;
use lightning_signer::util::test_utils::*;
use serde_json::{json, Value};
use std::collections::{BTreeMap, BTreeSet};
use std::panic::{catch_unwind, AssertUnwindSafe};
use std::sync::Arc;
use vharness::*;

// ------------------------------------------------------------------ scenario

#[derive(Clone, Debug)]
struct HtlcSpec {
    offered: bool, // offered by the broadcaster of the commitment
    amount_sat: u64,
    preimage_known: bool,
}

#[derive(Clone, Debug)]
struct Scenario {
    closer_cp: bool,
    htlcs: Vec<HtlcSpec>,
    our_output: bool,
    no_info: bool, // malformed: the signer has no commitment info for the broadcast number
    // lockstep: the signer holds a holder commitment and a counterparty commitment with the
    // same number and the same HTLC set; one of the two confirms
    lockstep: bool,
    // the signer runs on testnet: a network with compiled-in checkpoints, which
    // Node::restore_node consults on every restart
    testnet: bool,
    // the channel is set up between two chunks of a streamed block
    midstream: Option<MidKind>,
}

#[derive(Clone, Copy, Debug, PartialEq)]
enum MidKind {
    Connects,       // the block in flight is then connected
    Orphan,         // ... is refused: it does not build on the tip (the start of a reorg)
    RefusedRemoval, // the chunks belong to a RemoveBlock, which the tracker refuses
}

impl Scenario {
    fn spendable(&self, h: &HtlcSpec) -> bool {
        // get_spendable_htlc_indices: (offered, is_counterparty_tx)
        match (h.offered, self.closer_cp) {
            (true, true) | (false, false) => h.preimage_known,
            _ => true,
        }
    }
    fn label(&self) -> String {
        format!(
            "{}-{}-{}{}{}{}",
            if self.closer_cp { "cp" } else { "holder" },
            self.htlcs
                .iter()
                .map(|h| format!(
                    "{}{}",
                    if h.offered { "o" } else { "r" },
                    if h.preimage_known { "p" } else { "" }
                ))
                .collect::<Vec<_>>()
                .join(""),
            if self.our_output { "our" } else { "noour" },
            if self.no_info { "-noinfo" } else if self.lockstep { "-lockstep" } else { "" },
            if self.testnet { "-testnet" } else { "" },
            match self.midstream {
                Some(k) => format!("-midstream{:?}", k),
                None => String::new(),
            }
        )
    }
}

fn payment(i: usize) -> (PaymentPreimage, PaymentHash) {
    let pre = PaymentPreimage([(i + 1) as u8; 32]);
    (pre, PaymentHash::from(pre))
}

// ------------------------------------------------------------------ world: node + channel

struct World {
    // the store the signer persists to (MemoryKVVStore behind KVVPersister / JSON), for restarts
    pw: vharness::World,
    node_ctx: TestNodeContext,
    chan_ctx: TestChannelContext,
    key: OutPoint,
    funding: Transaction,
    commitment: Transaction,
    h0: u32,
    // monitor height minus tracker height, as the unchanged code has it: 0, or -1 for a channel
    // set up inside a streamed block that then connected (the new monitor ignores the rest
    // of that block, including its end)
    height_offset: i64,
    // blocks connected through the tracker, with the headers they were built on
    stack: Vec<(Block, Headers)>,
}

const FEERATE: u32 = 1000;
const TO_HOLDER: u64 = 2_000_000;
const TO_CP: u64 = 900_000;

fn make_world(sc: &Scenario) -> World {
    let mut seed = [0u8; 32];
    seed.copy_from_slice(&hex::decode(TEST_SEED[1]).expect("seed"));
    let network = if sc.testnet { lightning_signer::bitcoin::Network::Testnet } else { vharness::NETWORK };
    let mut pw = vharness::World::new_on(network, lightning_signer::policy::simple_validator::make_default_simple_policy(network), seed, lightning_signer::signer::derive::KeyDerivationStyle::Native);
    // as on mainnet: a disconnection beyond the remembered headers is refused
    pw.config.allow_deep_reorgs = false;
    let node_ctx = TestNodeContext { node: pw.new_node(), secp_ctx: Secp256k1::signing_only() };
    if sc.testnet {
        // the tracker has followed a block before the channel exists, as in init_channel: a
        // tracker at height 0 is "fresh" for restore_node and is moved to the checkpoint by design
        let mut tracker = node_ctx.node.get_tracker();
        let prev = tracker.tip().clone();
        let block = build_block(prev.0, vec![coinbase(1)]);
        let proof = TxoProof::prove_unchecked(&block, &prev.1, 1);
        tracker.add_block(block.header, proof).expect("first block");
    }
    // a streamed block is in flight while the channel is set up
    let mut in_flight: Option<(Block, Headers, Block, Headers, Vec<u8>, usize)> = None;
    let mut birth_height: Option<u32> = None;
    if let Some(kind) = sc.midstream {
        let mut tracker = node_ctx.node.get_tracker();
        let mut last: Option<(Block, Headers)> = None;
        for i in 0..2 {
            let prev = tracker.tip().clone();
            let block = build_block(prev.0, vec![coinbase(900 + i)]);
            let proof = TxoProof::prove_unchecked(&block, &prev.1, tracker.height() + 1);
            tracker.add_block(block.header, proof).expect("prelude block");
            last = Some((block, prev));
        }
        let (tip_block, tip_prev) = last.unwrap();
        let tip = tracker.tip().clone();
        // what is streamed: a block on the tip, a block on the tip's parent, or the tip itself
        let (block, base) = match kind {
            MidKind::Connects => (build_block(tip.0, vec![coinbase(990)]), tip.clone()),
            MidKind::Orphan => (build_block(tip_prev.0, vec![coinbase(991)]), tip_prev.clone()),
            MidKind::RefusedRemoval => (tip_block.clone(), tip_prev.clone()),
        };
        let bytes = serialize(&block);
        // the header (and with it the block start event) goes out in the first chunk
        assert!(bytes.len() > 100, "streamed block too small to cut after the header");
        let cut = 92;
        tracker.block_chunk(block.block_hash(), 0, &bytes[..cut]).expect("first chunk");
        birth_height = Some(tracker.height());
        in_flight = Some((block, base, tip_block, tip_prev, bytes, cut));
    }
    let channel_amount = 3_000_000;
    let stype = SpendType::P2wpkh;
    let incoming = channel_amount + 2_000_000;
    let fee = 1000;
    let change = incoming - channel_amount - fee;
    let mut chan_ctx = test_chan_ctx(&node_ctx, 1, channel_amount);
    let mut tx_ctx = TestFundingTxContext::new();
    tx_ctx.add_wallet_input(&node_ctx, stype, 1, incoming / 2);
    tx_ctx.add_wallet_input(&node_ctx, stype, 2, incoming - incoming / 2);
    tx_ctx.add_wallet_output(&node_ctx, stype, 1, change);
    let outpoint_ndx = tx_ctx.add_channel_outpoint(&node_ctx, &chan_ctx, channel_amount);
    let mut tx = tx_ctx.to_tx();
    let st = funding_tx_setup_channel(&node_ctx, &mut chan_ctx, &tx, outpoint_ndx);
    assert!(st.is_none(), "setup_channel: {:?}", st);
    let mut height_offset = 0i64;
    if let Some((block, base, _tip_block, tip_prev, bytes, cut)) = in_flight {
        // the rest of the block, then the request it belongs to
        let kind = sc.midstream.unwrap();
        let mut tracker = node_ctx.node.get_tracker();
        tracker.block_chunk(block.block_hash(), cut as u32, &bytes[cut..]).expect("second chunk");
        let height = if kind == MidKind::Connects { tracker.height() + 1 } else { tracker.height() };
        let p = TxoProof::prove_unchecked(&block, &base.1, height);
        let ext = TxoProof { attestations: p.attestations, proof: ProofType::ExternalBlock() };
        match kind {
            MidKind::Connects => {
                tracker.add_block(block.header, ext).expect("the streamed block connects");
                height_offset = -1;
            }
            MidKind::Orphan => assert!(tracker.add_block(block.header, ext).is_err(), "an orphan was connected"),
            MidKind::RefusedRemoval => assert!(tracker.remove_block(ext, tip_prev).is_err(), "a streamed removal was accepted"),
        }
    }
    let mut commit_tx_ctx = channel_initial_holder_commitment(&node_ctx, &chan_ctx);
    let (csig, hsigs) = counterparty_sign_holder_commitment(&node_ctx, &chan_ctx, &mut commit_tx_ctx);
    validate_holder_commitment(&node_ctx, &chan_ctx, &commit_tx_ctx, &csig, &hsigs)
        .expect("valid holder commitment");
    // signing the funding transaction registers its inputs with the monitor and the tracker
    let witvec = tx_ctx.sign(&node_ctx, &tx).expect("witvec");
    tx_ctx.validate_sig(&node_ctx, &mut tx, &witvec);
    let key = OutPoint { txid: tx.compute_txid(), vout: outpoint_ndx };

    // the commitment transaction of this scenario, and the signer state that knows about it
    let node = node_ctx.node.clone();
    let (offered, received) = htlc_lists(sc);
    let to_holder = if sc.our_output { TO_HOLDER } else { 0 };
    let commitment = if sc.closer_cp {
        let point = make_test_pubkey(12);
        let oic = Channel::htlcs_info2_to_oic(&offered, &received);
        node.with_channel(&chan_ctx.channel_id, |chan| {
            let ctx = chan.make_counterparty_commitment_tx(&point, COMMIT_NUM, FEERATE, to_holder, TO_CP, oic.clone());
            Ok(ctx.trust().built_transaction().transaction.clone())
        })
        .expect("cp commitment")
    } else {
        let c = channel_commitment(&node_ctx, &chan_ctx, COMMIT_NUM, FEERATE, to_holder, TO_CP, offered.clone(), received.clone());
        c.tx.as_ref().unwrap().trust().built_transaction().transaction.clone()
    };
    apply_signer_state(&node, &chan_ctx.channel_id, sc);
    // the height the monitor is born at: the tracker's height when the channel is set up
    let h0 = birth_height.unwrap_or(node.get_tracker().height());
    World { height_offset, pw, node_ctx, chan_ctx, key, funding: tx, commitment, h0, stack: vec![] }
}

const COMMIT_NUM: u64 = 1;

fn htlc_lists(sc: &Scenario) -> (Vec<HTLCInfo2>, Vec<HTLCInfo2>) {
    let mut offered = vec![];
    let mut received = vec![];
    for (i, h) in sc.htlcs.iter().enumerate() {
        let (_, hash) = payment(i);
        let info = HTLCInfo2 { value_sat: h.amount_sat, payment_hash: hash, cltv_expiry: 100 + i as u32 };
        if h.offered {
            offered.push(info)
        } else {
            received.push(info)
        }
    }
    (offered, received)
}

/// what the signer knows about the commitments (preimages, the holder / counterparty
/// commitment records); applied when the world is made and again after a restart (the
/// monitor and tracker state always come from the store)
fn apply_signer_state(node: &Arc<Node>, channel_id: &lightning_signer::channel::ChannelId, sc: &Scenario) {
    let (offered, received) = htlc_lists(sc);
    for (i, h) in sc.htlcs.iter().enumerate() {
        if h.preimage_known {
            let (pre, hash) = payment(i);
            let mut p = RoutedPayment::new();
            p.preimage = Some(pre);
            node.get_state().payments.insert(hash, p);
        }
    }
    let to_holder = if sc.our_output { TO_HOLDER } else { 0 };
    let next = if sc.no_info { COMMIT_NUM + 4 } else { COMMIT_NUM + 1 };
    let holder_info = |o: &Vec<HTLCInfo2>, r: &Vec<HTLCInfo2>| CommitmentInfo2::new(false, TO_CP, to_holder, o.clone(), r.clone(), FEERATE);
    let cp_info = |o: &Vec<HTLCInfo2>, r: &Vec<HTLCInfo2>| CommitmentInfo2::new(true, to_holder, TO_CP, o.clone(), r.clone(), FEERATE);
    node.with_channel(channel_id, |chan| {
        let es = &mut chan.enforcement_state;
        if sc.closer_cp {
            es.set_next_counterparty_commit_num_for_testing(next, make_test_pubkey(12));
            es.current_counterparty_commit_info = Some(cp_info(&offered, &received));
            if sc.lockstep && !sc.no_info {
                // the other side's commitment with the same number and the mirrored HTLC set
                es.set_next_holder_commit_num_for_testing(COMMIT_NUM + 1);
                es.current_holder_commit_info = Some(holder_info(&received, &offered));
            }
        } else {
            es.set_next_holder_commit_num_for_testing(next);
            es.current_holder_commit_info = Some(holder_info(&offered, &received));
            if sc.lockstep && !sc.no_info {
                es.set_next_counterparty_commit_num_for_testing(COMMIT_NUM + 1, make_test_pubkey(12));
                es.current_counterparty_commit_info = Some(cp_info(&received, &offered));
            }
        }
        Ok(())
    })
    .expect("signer state");
}

// ------------------------------------------------------------------ the transactions of a scenario

fn spend(prev: OutPoint) -> TxIn {
    TxIn { previous_output: prev, script_sig: ScriptBuf::new(), sequence: Sequence::ZERO, witness: Witness::default() }
}

fn tx_spending(prevs: &[OutPoint], nout: usize, salt: u64) -> Transaction {
    Transaction {
        version: Version::TWO,
        lock_time: LockTime::ZERO,
        input: prevs.iter().map(|p| spend(*p)).collect(),
        output: (0..nout)
            .map(|i| TxOut { value: Amount::from_sat(1000 + salt * 10 + i as u64), script_pubkey: ScriptBuf::new() })
            .collect(),
    }
}

#[derive(Clone)]
struct ATx {
    id: u64,
    name: &'static str,
    real: Transaction,
    kind: String, // Coq close_kind
}

struct Universe {
    txs: BTreeMap<u64, ATx>,
    ids: BTreeMap<Txid, u64>,
    cfg_coq: String,
    finputs: Vec<OutPoint>,
    n_spendable: usize,
    // what the close must record, from how the commitment was built
    c_our: Option<u32>,
    c_spendable: Vec<u32>,
}

const F: u64 = 10;
const D1: u64 = 11;
const D2: u64 = 12;
const M: u64 = 20;
const C: u64 = 21;
const M2: u64 = 22; // malformed: a second spend of the funding outpoint
const MM: u64 = 23; // malformed: a spend of the funding outpoint with two inputs
const S: u64 = 30;
const SC: u64 = 31;
const S2: u64 = 32; // malformed: a second spend of our output
const H0: u64 = 40; // + i
const HB: u64 = 45;
const NS: u64 = 46;
const H0B: u64 = 47; // malformed: a second spend of HTLC output 0
const X0: u64 = 50; // + i
const XB0: u64 = 55; // + i
const X0B: u64 = 59; // malformed: a second spend of the second-level output of H0
const U: u64 = 60;

impl Universe {
    fn oid(&self, o: &OutPoint) -> (u64, u32) {
        (*self.ids.get(&o.txid).unwrap_or_else(|| panic!("unknown txid {}", o.txid)), o.vout)
    }
    fn coq_op(&self, o: &OutPoint) -> String {
        let (a, b) = self.oid(o);
        format!("({}, {})", a, b)
    }
    fn coq_tx(&self, id: u64) -> String {
        let t = &self.txs[&id];
        let ins: Vec<String> = t.real.input.iter().map(|i| self.coq_op(&i.previous_output)).collect();
        format!("mktx {} {} {} ({})", t.id, coq_list(&ins), t.real.output.len(), t.kind)
    }
    fn coq_block(&self, b: &[u64]) -> String {
        coq_list(&b.iter().map(|i| format!("({})", self.coq_tx(*i))).collect::<Vec<_>>())
    }
}

fn make_universe(sc: &Scenario, w: &World) -> Universe {
    let mut txs = BTreeMap::new();
    let mut ids = BTreeMap::new();
    let fi: Vec<OutPoint> = w.funding.input.iter().map(|i| i.previous_output).collect();
    ids.insert(fi[0].txid, 1u64);
    ids.insert(fi[1].txid, 2u64);
    let ext = Txid::from_raw_hash(lightning_signer::bitcoin::hashes::Hash::from_byte_array([0x33u8; 32]));
    ids.insert(ext, 3u64);
    let mut put = |id: u64, name: &'static str, real: Transaction, kind: String, ids: &mut BTreeMap<Txid, u64>| {
        ids.insert(real.compute_txid(), id);
        txs.insert(id, ATx { id, name, real, kind });
    };
    let nc = "NotCommitment".to_string();
    put(F, "funding", w.funding.clone(), nc.clone(), &mut ids);
    put(D1, "double-spend-1", tx_spending(&[fi[0]], 1, 1), nc.clone(), &mut ids);
    put(D2, "double-spend-2", tx_spending(&[fi[1]], 1, 2), nc.clone(), &mut ids);
    let fo = w.key;
    put(M, "mutual-close", tx_spending(&[fo], 2, 3), nc.clone(), &mut ids);
    put(M2, "second-close", tx_spending(&[fo], 1, 4), nc.clone(), &mut ids);
    put(MM, "two-input-close", tx_spending(&[fo, OutPoint { txid: ext, vout: 7 }], 1, 5), nc.clone(), &mut ids);
    put(U, "unrelated", tx_spending(&[OutPoint { txid: ext, vout: 0 }], 2, 6), nc.clone(), &mut ids);

    // the commitment: what the oracle must answer, derived from how the scenario built it
    let ctx = &w.commitment;
    let ctxid = ctx.compute_txid();
    let pos = |sat: u64| ctx.output.iter().position(|o| o.value.to_sat() == sat).map(|p| p as u32);
    let our = if sc.our_output { pos(TO_HOLDER) } else { None };
    let cpo = pos(TO_CP);
    let mut spendable: Vec<u32> = vec![];
    let mut unspendable: Vec<u32> = vec![];
    for h in sc.htlcs.iter() {
        let p = pos(h.amount_sat).expect("htlc output");
        if sc.spendable(h) {
            spendable.push(p)
        } else {
            unspendable.push(p)
        }
    }
    spendable.sort();
    // without commitment info the listener panics as soon as decode_commitment_tx reports a
    // candidate HTLC output: any HTLC, or the counterparty's delayed output when its
    // per-commitment point is unknown
    let kind = if sc.no_info && (sc.closer_cp || !sc.htlcs.is_empty()) {
        "CommitmentNoInfo".to_string()
    } else {
        format!(
            "Commitment {} {}",
            match our {
                Some(i) => format!("(Some {})", i),
                None => "None".to_string(),
            },
            coq_list(&spendable.iter().map(|i| i.to_string()).collect::<Vec<_>>())
        )
    };
    put(C, "commitment", ctx.clone(), kind, &mut ids);
    if let Some(i) = our {
        put(S, "sweep-our", tx_spending(&[OutPoint { txid: ctxid, vout: i }], 1, 7), nc.clone(), &mut ids);
        put(S2, "sweep-our-again", tx_spending(&[OutPoint { txid: ctxid, vout: i }], 1, 8), nc.clone(), &mut ids);
    }
    if let Some(i) = cpo {
        put(SC, "sweep-cp", tx_spending(&[OutPoint { txid: ctxid, vout: i }], 1, 9), nc.clone(), &mut ids);
    }
    for (k, v) in spendable.iter().enumerate() {
        let hin = OutPoint { txid: ctxid, vout: *v };
        // the first HTLC spend has the HTLC as its second input, so the second-level outpoint is :1
        let ins = if k == 0 { vec![OutPoint { txid: ext, vout: 5 }, hin] } else { vec![hin] };
        let slo_vout = if k == 0 { 1 } else { 0 };
        let h = tx_spending(&ins, 2, 10 + k as u64);
        let hid = h.compute_txid();
        put(H0 + k as u64, "htlc-spend", h, nc.clone(), &mut ids);
        put(X0 + k as u64, "second-level-spend", tx_spending(&[OutPoint { txid: hid, vout: slo_vout }], 1, 20 + k as u64), nc.clone(), &mut ids);
        if k == 0 {
            put(H0B, "htlc-spend-again", tx_spending(&[hin], 1, 30), nc.clone(), &mut ids);
            put(X0B, "second-level-spend-again", tx_spending(&[OutPoint { txid: hid, vout: slo_vout }], 1, 31), nc.clone(), &mut ids);
        }
    }
    if spendable.len() >= 2 {
        let ins: Vec<OutPoint> = spendable.iter().map(|v| OutPoint { txid: ctxid, vout: *v }).collect();
        let hb = tx_spending(&ins, 2, 40);
        let hbid = hb.compute_txid();
        put(HB, "htlc-spend-both", hb, nc.clone(), &mut ids);
        for k in 0..spendable.len() {
            put(XB0 + k as u64, "second-level-spend", tx_spending(&[OutPoint { txid: hbid, vout: k as u32 }], 1, 41 + k as u64), nc.clone(), &mut ids);
        }
    }
    if let Some(v) = unspendable.first() {
        put(NS, "unspendable-htlc-spend", tx_spending(&[OutPoint { txid: ctxid, vout: *v }], 1, 50), nc.clone(), &mut ids);
    }
    let mut u = Universe {
        txs,
        ids,
        cfg_coq: String::new(),
        finputs: fi.clone(),
        n_spendable: spendable.len(),
        c_our: our,
        c_spendable: spendable.clone(),
    };
    let fin: Vec<String> = fi.iter().map(|o| u.coq_op(o)).collect();
    u.cfg_coq = format!("mkcfg {} {} {}", F, w.key.vout, coq_list(&fin));
    u
}

// ------------------------------------------------------------------ observation

fn hexrev(s: &str) -> String {
    let b = hex::decode(s).expect("hex");
    hex::encode(b.iter().rev().cloned().collect::<Vec<u8>>())
}

struct Namer<'a> {
    u: &'a Universe,
}
impl<'a> Namer<'a> {
    fn txid(&self, s: &str) -> u64 {
        for (t, id) in self.u.ids.iter() {
            let d = t.to_string();
            if d == s || hexrev(&d) == s {
                return *id;
            }
        }
        panic!("unknown txid string {}", s)
    }
    // "txid:vout" (state) or {"txid":..,"vout":..} (slot)
    fn op(&self, v: &Value) -> (u64, u64) {
        if let Some(s) = v.as_str() {
            let mut it = s.split(':');
            let t = it.next().unwrap();
            let n: u64 = it.next().unwrap().parse().unwrap();
            (self.txid(t), n)
        } else {
            (self.txid(v["txid"].as_str().unwrap()), v["vout"].as_u64().unwrap())
        }
    }
}

fn coq_opt<T: ToString>(v: Option<T>) -> String {
    match v {
        Some(x) => format!("(Some {})", x.to_string()),
        None => "None".to_string(),
    }
}
fn coq_on(v: &Value) -> String {
    coq_opt(v.as_u64())
}

#[derive(Clone, PartialEq, Debug)]
struct Obs {
    coq: String,
    // the same without saw_block, for the comparison with a fresh replay
    view: Value,
}

fn observe(u: &Universe, state: &Value, watches: &Value, seen: &Value, depths: (u32, u32, u32), done: bool, cs: (u32, u32, u32, u32), init: &Value) -> Obs {
    let nm = Namer { u };
    // the registered funding data must never change
    for k in ["funding_txids", "funding_vouts", "funding_inputs"] {
        assert_eq!(state[k], init[k], "{} changed", k);
    }
    let fo = if state["funding_outpoint"].is_null() { None } else { Some(nm.op(&state["funding_outpoint"])) };
    let clo = &state["closing_outpoints"];
    let clo_coq = if clo.is_null() {
        "None".to_string()
    } else {
        let our = if clo["our_output"].is_null() {
            "None".to_string()
        } else {
            format!("(Some ({}, {}))", clo["our_output"][0].as_u64().unwrap(), clo["our_output"][1].as_bool().unwrap())
        };
        let ho = clo["htlc_outputs"].as_array().unwrap();
        let hs = clo["htlc_spents"].as_array().unwrap();
        assert_eq!(ho.len(), hs.len());
        let hl: Vec<String> = ho.iter().zip(hs.iter()).map(|(a, b)| format!("({}, {})", a.as_u64().unwrap(), b.as_bool().unwrap())).collect();
        let sl: Vec<String> = clo["second_level_htlc_outputs"]
            .as_array()
            .unwrap()
            .iter()
            .map(|e| {
                let (a, b) = nm.op(&e["outpoint"]);
                format!("(({}, {}), {})", a, b, e["spent"].as_bool().unwrap())
            })
            .collect();
        format!("(Some ({}, {}, {}, {}))", nm.txid(clo["txid"].as_str().unwrap()), our, coq_list(&hl), coq_list(&sl))
    };
    let set = |v: &Value| -> Vec<(u64, u64)> {
        let mut l: Vec<(u64, u64)> = v.as_array().unwrap().iter().map(|e| nm.op(e)).collect();
        l.sort();
        l
    };
    let w = set(watches);
    let sn = set(seen);
    let cl = |l: &Vec<(u64, u64)>| coq_list(&l.iter().map(|(a, b)| format!("({}, {})", a, b)).collect::<Vec<_>>());
    let st = format!(
        "({}, {}, {}, {}, {}, {}, {}, {}, {}, {})",
        state["height"].as_u64().unwrap(),
        coq_on(&state["funding_height"]),
        coq_opt(fo.map(|(a, b)| format!("({}, {})", a, b))),
        coq_on(&state["funding_double_spent_height"]),
        coq_on(&state["mutual_closing_height"]),
        coq_on(&state["unilateral_closing_height"]),
        clo_coq,
        coq_on(&state["closing_swept_height"]),
        coq_on(&state["our_output_swept_height"]),
        state["saw_block"].as_bool().unwrap()
    );
    let coq = format!(
        "(Some ({}, {}, {}, ({}, {}, {}), {}, ({}, {}, {}, {})))",
        st, cl(&w), cl(&sn), depths.0, depths.1, depths.2, done, cs.0, cs.1, cs.2, cs.3
    );
    let mut sv = state.clone();
    sv.as_object_mut().unwrap().remove("saw_block");
    let view = json!({"state": sv, "watches": w, "seen": sn, "depths": [depths.0, depths.1, depths.2], "done": done,
        "chain_state": {"current_height": cs.0, "funding_depth": cs.1, "funding_double_spent_depth": cs.2, "closing_depth": cs.3}});
    Obs { coq, view }
}

// ------------------------------------------------------------------ drivers

#[derive(Clone, Copy, PartialEq, Debug)]
enum Outcome {
    Done,
    Panicked,
    Rejected, // the tracker refused the block (Err): nothing was delivered to the monitor
}

#[derive(Clone, Copy, PartialEq, Debug)]
enum Mode {
    Compact,  // filter proof whose SPV part carries every transaction of the block
    Streamed, // the block itself
    Watched,  // filter proof whose SPV part carries what the tracker's watch sets match
              // (nothing at all for a block that does not concern the signer)
}

/// the proof a chain follower sends: the SPV part holds the transactions matched by the
/// tracker's watches (the reverse watches for a disconnection) and their descendants
fn watched_proof(
    tracker: &lightning_signer::chain::tracker::ChainTracker<ChainMonitor>,
    block: &Block,
    prev_filter_header: &lightning_signer::bitcoin::hash_types::FilterHeader,
    height: u32,
    reverse: bool,
) -> TxoProof {
    let base = TxoProof::prove_unchecked(block, prev_filter_header, height);
    let (txids, ops) = if reverse { tracker.get_all_reverse_watches() } else { tracker.get_all_forward_watches() };
    let (spv, _, _) = lightning_signer::txoo::spv::SpvProof::build(block, &txids, &ops);
    match base.proof {
        ProofType::Filter(content, _) => TxoProof { attestations: base.attestations, proof: ProofType::Filter(content, spv) },
        _ => panic!("expected a filter proof"),
    }
}

/// a block on top of `prev`, mined at the regtest difficulty on every network (the tracker
/// accepts any difficulty on testnet, and the testnet genesis difficulty cannot be mined here)
fn build_block(prev: lightning_signer::bitcoin::block::Header, txs: Vec<Transaction>) -> Block {
    use lightning_signer::bitcoin::hashes::Hash;
    let txids: Vec<Txid> = txs.iter().map(|tx| tx.compute_txid()).collect();
    let root = lightning_signer::bitcoin::merkle_tree::calculate_root(txids.into_iter()).unwrap();
    let root = lightning_signer::bitcoin::hash_types::TxMerkleNode::from_raw_hash(root.to_raw_hash());
    let bits = lightning_signer::bitcoin::blockdata::constants::genesis_block(lightning_signer::bitcoin::Network::Regtest).header.bits;
    let header = mine_header_with_bits(prev.block_hash(), root, bits);
    Block { header, txdata: txs }
}

fn coinbase(h: u32) -> Transaction {
    Transaction {
        version: Version::non_standard(0),
        lock_time: LockTime::from_consensus(h),
        input: vec![],
        output: vec![TxOut { value: Amount::ZERO, script_pubkey: ScriptBuf::new() }],
    }
}

struct Driver {
    w: World,
    direct: bool,
    // direct mode: the monitor and the shadow of its ListenSlot
    mon: ChainMonitor,
    watches: BTreeSet<OutPoint>,
    seen: BTreeSet<OutPoint>,
    dstack: Vec<(Vec<Transaction>, BlockHash)>,
    init: Value,
    forgot: bool,
}

impl Driver {
    fn new(sc: &Scenario, direct: bool, forgot: bool) -> Driver {
        let w = make_world(sc);
        let (mon, watches, seen, init) = {
            let tracker = w.node_ctx.node.get_tracker();
            let (m, slot) = tracker.listeners.get(&w.key).expect("listener");
            let init = serde_json::to_value(&*m.get_state()).unwrap();
            (m.clone(), slot.watches.iter().cloned().collect(), slot.seen.iter().cloned().collect(), init)
        };
        if forgot {
            mon.as_base().forget_channel();
        }
        Driver { w, direct, mon, watches, seen, dstack: vec![], init, forgot }
    }

    /// (the monitor's own height, ChainState::current_height, the tracker's height)
    fn heights(&self) -> (i64, i64, i64) {
        let c = self.mon.as_base().as_chain_state();
        let h = serde_json::to_value(&*self.mon.get_state()).unwrap()["height"].as_i64().unwrap();
        (h, c.current_height as i64, self.w.node_ctx.node.get_tracker().height() as i64)
    }

    /// tip, height and the number of remembered headers of the tracker
    fn tracker_view(&self) -> Value {
        let t = self.w.node_ctx.node.get_tracker();
        json!({"height": t.height(), "tip": t.tip().0.block_hash().to_string(), "remembered_headers": t.headers.len()})
    }

    /// ChainTracker::headers.len(): how many previous headers the tracker remembers
    fn remembered(&self) -> u64 {
        self.w.node_ctx.node.get_tracker().headers.len() as u64
    }

    fn obs(&self, u: &Universe) -> Obs {
        let node = &self.w.node_ctx.node;
        let depths = (self.mon.funding_depth(), self.mon.funding_double_spent_depth(), self.mon.closing_depth());
        let done = self.mon.is_done();
        // the view the validators consume
        let c = self.mon.as_base().as_chain_state();
        let cs = (c.current_height, c.funding_depth, c.funding_double_spent_depth, c.closing_depth);
        let st = serde_json::to_value(&*self.mon.get_state()).unwrap();
        if self.direct {
            let wv = serde_json::to_value(self.watches.iter().collect::<Vec<_>>()).unwrap();
            let sv = serde_json::to_value(self.seen.iter().collect::<Vec<_>>()).unwrap();
            let fix = |v: Value| -> Value {
                // OutPoint's own serde prints "txid:vout" strings
                v
            };
            observe(u, &st, &fix(wv), &fix(sv), depths, done, cs, &self.init)
        } else {
            let tracker = node.get_tracker();
            let (_, slot) = tracker.listeners.get(&self.w.key).expect("listener");
            let sl = serde_json::to_value(slot).unwrap();
            observe(u, &st, &sl["watches"], &sl["seen"], depths, done, cs, &self.init)
        }
    }

    fn push_block(&self, txs: &[Transaction], hash: &BlockHash, header: Option<&lightning_signer::bitcoin::block::Header>, with_start: bool) {
        self.mon.on_push(|l| {
            if with_start {
                l.on_block_start(header.expect("header"));
            }
            for t in txs {
                l.on_transaction_start(t.version.0);
                for i in t.input.iter() {
                    l.on_transaction_input(i);
                }
                for o in t.output.iter() {
                    l.on_transaction_output(o);
                }
                l.on_transaction_end(t.lock_time, t.compute_txid());
            }
            l.on_block_end();
        });
        let _ = hash;
    }

    fn add(&mut self, txs: &[Transaction], mode: Mode) -> Outcome {
        if self.direct {
            let h = self.w.h0 + self.dstack.len() as u32 + 1;
            let mut all = vec![coinbase(h)];
            all.extend_from_slice(txs);
            let prev = self.w.node_ctx.node.get_tracker().tip().0;
            let block = build_block(prev, all.clone());
            let hash = block.block_hash();
            let mon = self.mon.clone();
            let r = catch_unwind(AssertUnwindSafe(|| match mode {
                Mode::Compact | Mode::Watched => mon.on_add_block(&all, &hash),
                Mode::Streamed => {
                    self.push_block(&all, &hash, Some(&block.header), true);
                    mon.on_add_streamed_block_end(&hash)
                }
            }));
            match r {
                Ok((adds, removes)) => {
                    // notify_listeners_add
                    self.watches.extend(adds);
                    for o in removes.iter() {
                        self.watches.remove(o);
                    }
                    self.seen.extend(removes);
                    self.dstack.push((all, hash));
                    Outcome::Done
                }
                Err(_) => Outcome::Panicked,
            }
        } else {
            let node = self.w.node_ctx.node.clone();
            let r = catch_unwind(AssertUnwindSafe(|| {
                let mut tracker = node.get_tracker();
                let mut all = vec![coinbase(tracker.height() + 1)];
                all.extend_from_slice(txs);
                let prev = tracker.tip().clone();
                let block = build_block(prev.0, all);
                let proof = TxoProof::prove_unchecked(&block, &prev.1, tracker.height() + 1);
                let r = match mode {
                    Mode::Compact => tracker.add_block(block.header, proof),
                    Mode::Watched => {
                        let wp = watched_proof(&tracker, &block, &prev.1, tracker.height() + 1, false);
                        tracker.add_block(block.header, wp)
                    }
                    Mode::Streamed => {
                        let proof = TxoProof { attestations: proof.attestations, proof: ProofType::ExternalBlock() };
                        let bytes = serialize(&block);
                        tracker.block_chunk(block.block_hash(), 0, &bytes).expect("block_chunk");
                        tracker.add_block(block.header, proof)
                    }
                };
                (block, prev, r.is_ok())
            }));
            match r {
                Ok((b, p, true)) => {
                    self.w.stack.push((b, p));
                    Outcome::Done
                }
                Ok((_, _, false)) => Outcome::Rejected,
                Err(_) => Outcome::Panicked,
            }
        }
    }

    fn remove(&mut self, mode: Mode) -> Outcome {
        if self.direct {
            let (all, hash) = self.dstack.pop().expect("nothing to remove");
            let mon = self.mon.clone();
            let prev = self.w.node_ctx.node.get_tracker().tip().0;
            let header = build_block(prev, all.clone()).header;
            let r = catch_unwind(AssertUnwindSafe(|| match mode {
                Mode::Compact | Mode::Watched => mon.on_remove_block(&all, &hash),
                Mode::Streamed => {
                    self.push_block(&all, &hash, Some(&header), true);
                    mon.on_remove_streamed_block_end(&hash)
                }
            }));
            match r {
                Ok((adds, removes)) => {
                    // notify_listeners_remove
                    for o in removes.iter() {
                        self.seen.remove(o);
                    }
                    self.watches.extend(removes);
                    for o in adds.iter() {
                        self.watches.remove(o);
                    }
                    Outcome::Done
                }
                Err(_) => Outcome::Panicked,
            }
        } else {
            let (block, prev) = self.w.stack.pop().expect("nothing to remove");
            let node = self.w.node_ctx.node.clone();
            let r = catch_unwind(AssertUnwindSafe(|| {
                let mut tracker = node.get_tracker();
                let proof = TxoProof::prove_unchecked(&block, &prev.1, tracker.height());
                let proof = if mode == Mode::Watched {
                    watched_proof(&tracker, &block, &prev.1, tracker.height(), true)
                } else if mode == Mode::Streamed && std::env::var("C14_TRY_STREAMED_REMOVE").is_ok() {
                    let bytes = serialize(&block);
                    tracker.block_chunk(block.block_hash(), 0, &bytes).expect("block_chunk");
                    TxoProof { attestations: proof.attestations, proof: ProofType::ExternalBlock() }
                } else {
                    proof
                };
                let r = tracker.remove_block(proof, prev.clone());
                if let Err(e) = &r {
                    eprintln!("remove_block refused: {:?}", e);
                }
                r.is_ok()
            }));
            match r {
                Ok(true) => Outcome::Done,
                Ok(false) => {
                    self.w.stack.push((block, prev));
                    Outcome::Rejected
                }
                Err(_) => Outcome::Panicked,
            }
        }
    }

    /// a signer restart: the tracker (with the monitors' states and listen slots) and the
    /// channel are persisted the way the request handler does after every request, a new Node
    /// is restored from the store alone, and the history continues on it
    fn restart(&mut self, sc: &Scenario) -> Outcome {
        assert!(!self.direct);
        let node = self.w.node_ctx.node.clone();
        let id = node.get_id();
        let chan_id = self.w.chan_ctx.channel_id.clone();
        let pw = &self.w.pw;
        let key = self.w.key;
        let r = catch_unwind(AssertUnwindSafe(|| {
            use lightning_signer::persist::Persist;
            {
                let tracker = node.get_tracker();
                pw.persister.update_tracker(&id, &tracker).expect("update_tracker");
            }
            node.with_channel(&chan_id, |chan| {
                pw.persister.update_channel(&id, chan).expect("update_channel");
                Ok(())
            })
            .expect("with_channel");
            let node2 = pw.restart(&id);
            apply_signer_state(&node2, &chan_id, sc);
            let mon = {
                let tracker = node2.get_tracker();
                tracker.listeners.get(&key).expect("listener after restart").0.clone()
            };
            (node2, mon)
        }));
        match r {
            Ok((node2, mon)) => {
                self.w.node_ctx = TestNodeContext { node: node2, secp_ctx: Secp256k1::signing_only() };
                self.mon = mon;
                Outcome::Done
            }
            Err(_) => Outcome::Panicked,
        }
    }

    /// push events without a block start, then the streamed block end (direct mode only)
    fn partial(&mut self, txs: &[Transaction], add: bool) -> Outcome {
        assert!(self.direct);
        let hash = build_block(self.w.node_ctx.node.get_tracker().tip().0, vec![coinbase(77)]).block_hash();
        let mon = self.mon.clone();
        let r = catch_unwind(AssertUnwindSafe(|| {
            self.push_block(txs, &hash, None, false);
            if add {
                mon.on_add_streamed_block_end(&hash)
            } else {
                mon.on_remove_streamed_block_end(&hash)
            }
        }));
        match r {
            Ok((a, rm)) => {
                assert!(a.is_empty() && rm.is_empty(), "a partial stream produced watch changes");
                Outcome::Done
            }
            Err(_) => Outcome::Panicked,
        }
    }
}

// ------------------------------------------------------------------ cases

#[derive(Clone, Debug)]
enum Step {
    Add(Vec<u64>, Mode),
    Remove(Mode),
    PartialAdd(Vec<u64>),
    PartialRemove(Vec<u64>),
    Restart,
}

struct CaseOut {
    coq: String,
    json: Value,
    nontrivial: bool,
    aborted: bool,
    monitor_violation: Option<Value>,
}

fn run_case(sc: &Scenario, u: &Universe, steps: &[Step], direct: bool, forgot: bool, admissible: bool, origin: &str) -> CaseOut {
    let mut d = Driver::new(sc, direct, forgot);
    let h0 = d.w.h0;
    let mut chain: Vec<Vec<u64>> = vec![];
    let mut coq_steps = vec![];
    let mut coq_obs = vec![];
    let mut jsteps = vec![];
    let mut aborted = false;
    let mut violation = None;
    let mut n_removes = 0;
    let mut max_depth = 0usize;
    let mut cur_depth = 0usize;
    let mut rejected = 0u64;
    let mut n_restarts = 0u64;
    // the window of remembered headers (tracker driver): deliveries and what was observed
    let max_reorg = lightning_signer::chain::tracker::ChainTracker::<ChainMonitor>::MAX_REORG_SIZE as usize;
    let remembered0 = d.remembered();
    let mut wops: Vec<&str> = vec![];
    let mut wobs: Vec<String> = vec![];
    let mut peak = 0usize;
    let mut expected_refusals = 0u64;
    let mut last_view: Option<Value> = None;
    let mut steps_removed: Vec<Vec<u64>> = vec![];
    let sparse_replay = steps.len() > 60;
    // the monitor's height follows the tracker's (right after the set-up and after every delivery)
    let check_heights = |d: &Driver, step: i64| -> Option<Value> {
        if d.direct {
            return None;
        }
        let (mh, ch, th) = d.heights();
        if mh != th + d.w.height_offset || ch != mh {
            Some(json!({
                "what": if mh > th || ch > th {
                    "the channel monitor's height (ChainState::current_height for the validators) is ahead of the height of the tracker's best chain"
                } else {
                    "the channel monitor's height (ChainState::current_height for the validators) is not what the best chain implies (tracker height, or one less for a channel set up inside a streamed block that connected)"
                },
                "step": step,
                "monitor_height": mh, "chain_state_current_height": ch, "tracker_height": th,
                "expected_monitor_minus_tracker": d.w.height_offset,
            }))
        } else {
            None
        }
    };
    if admissible {
        violation = check_heights(&d, -1);
    }
    let real = |b: &Vec<u64>| -> Vec<Transaction> { b.iter().map(|i| u.txs[i].real.clone()).collect() };
    for (sti, st) in steps.iter().enumerate() {
        // must the tracker accept this disconnection?  (not below the creation height, not more
        // than MAX_REORG_SIZE below the highest block ever connected)
        let len_before = chain.len();
        let within_window = len_before > 0 && peak - len_before < max_reorg;
        let _ = remembered0;
        let ok = match st {
            Step::Add(b, mode) => {
                coq_steps.push(format!("SAdd {}", u.coq_block(b)));
                jsteps.push(json!({"add": b.iter().map(|i| u.txs[i].name).collect::<Vec<_>>(), "ids": b, "mode": format!("{:?}", mode)}));
                let ok = d.add(&real(b), *mode);
                chain.push(b.clone());
                cur_depth = 0;
                ok
            }
            Step::Remove(mode) => {
                if chain.is_empty() {
                    // only after the tracker rejected a block of a malformed history
                    assert!(!admissible);
                    continue;
                }
                let b = chain.pop().expect("remove on empty chain");
                steps_removed.push(b.clone());
                coq_steps.push(format!("SRemove {}", u.coq_block(&b)));
                jsteps.push(json!({"remove": b.iter().map(|i| u.txs[i].name).collect::<Vec<_>>(), "ids": b, "mode": format!("{:?}", mode)}));
                n_removes += 1;
                cur_depth += 1;
                let r = d.remove(*mode);
                if r == Outcome::Done {
                    max_depth = max_depth.max(cur_depth);
                }
                r
            }
            Step::PartialAdd(b) => {
                coq_steps.push("SAddPartial".to_string());
                jsteps.push(json!({"partial_add": b}));
                d.partial(&real(b), true)
            }
            Step::PartialRemove(b) => {
                coq_steps.push("SRemovePartial".to_string());
                jsteps.push(json!({"partial_remove": b}));
                d.partial(&real(b), false)
            }
            Step::Restart => {
                coq_steps.push("SRestart".to_string());
                jsteps.push(json!({"restart": "persist tracker + channel, restore the node from the store"}));
                n_restarts += 1;
                let before = d.tracker_view();
                let r = d.restart(sc);
                if r == Outcome::Done && admissible && violation.is_none() {
                    let after = d.tracker_view();
                    if after != before {
                        violation = Some(json!({
                            "what": "a restart from the store changed the tracker's tip / height / remembered headers under the restored monitors; the best chain is no longer the chain the monitors connected",
                            "step": jsteps.len() - 1,
                            "before": before,
                            "after": after,
                        }));
                    }
                }
                r
            }
        };
        if !direct && ok != Outcome::Panicked {
            match st {
                Step::Add(_, _) => wops.push("WAdd"),
                Step::Remove(_) => wops.push("WRemove"),
                Step::Restart => wops.push("WRestart"),
                _ => {}
            }
            if matches!(st, Step::Add(_, _) | Step::Remove(_) | Step::Restart) {
                wobs.push(if ok == Outcome::Rejected { "None".to_string() } else { format!("(Some {})", d.remembered()) });
            }
        }
        if matches!(st, Step::Add(_, _)) && ok == Outcome::Done {
            peak = peak.max(chain.len());
        }
        if ok == Outcome::Rejected && admissible && matches!(st, Step::Remove(_)) && !within_window {
            // beyond the window: the refusal is the documented ReorgTooDeep; nothing may change
            let b = steps_removed.pop().expect("removed block");
            chain.push(b);
            coq_steps.pop();
            jsteps.last_mut().unwrap()["refused"] = json!("beyond the window of remembered headers (expected)");
            n_removes -= 1;
            cur_depth -= 1;
            expected_refusals += 1;
            let o = d.obs(u);
            if violation.is_none() && last_view.as_ref().map(|v| *v != o.view).unwrap_or(false) {
                violation = Some(json!({"what": "a refused disconnection changed the channel's view", "step": jsteps.len() - 1}));
            }
            continue;
        }
        if ok == Outcome::Rejected && admissible {
            // the model has no refusal on an admissible history (C14_no_abort): the channel's
            // view stays on the abandoned branch (and the signer's handlers abort on it)
            let kind = if matches!(st, Step::Remove(_)) {
                if len_before > 0 { "disconnect (a reorganisation inside the window of MAX_REORG_SIZE remembered headers)" } else { "disconnect" }
            } else {
                "connect"
            };
            coq_steps.pop();
            let last = jsteps.len() - 1;
            if violation.is_none() {
                violation = Some(json!({
                    "what": format!("the tracker refused to {} a block of an admissible history{}; the channel's view no longer follows the best chain",
                                    kind, if n_restarts > 0 { " after a restart from the store" } else { "" }),
                    "step": last,
                }));
            }
            rejected += 1;
            break;
        }
        if ok == Outcome::Rejected {
            // malformed stream only: the tracker refused the block (TXOO validation rejects a
            // child that precedes its parent, and what follows such a refusal is C13's
            // subject); the case ends before this step
            coq_steps.pop();
            jsteps.pop();
            rejected += 1;
            break;
        }
        if ok == Outcome::Rejected {
            // the tracker refused the block before any listener saw it (only in the malformed
            // stream: TXOO validation rejects a child that precedes its parent); not a step
            assert!(!admissible, "the tracker rejected a block of an admissible history");
            chain.pop();
            coq_steps.pop();
            jsteps.pop();
            rejected += 1;
            continue;
        }
        if ok == Outcome::Panicked {
            coq_obs.push("None".to_string());
            aborted = true;
            if admissible && violation.is_none() {
                violation = Some(json!({
                    "what": "processing an admissible block history panicked",
                    "step": jsteps.len() - 1,
                }));
            }
            break;
        }
        let o = d.obs(u);
        coq_obs.push(o.coq.clone());
        last_view = Some(o.view.clone());
        if admissible && violation.is_none() {
            violation = check_heights(&d, jsteps.len() as i64 - 1);
        }
        // the recorded close must be the one of the confirmed transaction: our output and the
        // claimable HTLC outputs as the harness built them
        if admissible && violation.is_none() {
            let clo = &o.view["state"]["closing_outpoints"];
            if !clo.is_null() {
                let got_h: Vec<u64> = clo["htlc_outputs"].as_array().unwrap().iter().map(|x| x.as_u64().unwrap()).collect();
                let got_o = if clo["our_output"].is_null() { None } else { clo["our_output"][0].as_u64() };
                let exp_h: Vec<u64> = u.c_spendable.iter().map(|x| *x as u64).collect();
                let exp_o = u.c_our.map(|x| x as u64);
                if got_h != exp_h || got_o != exp_o {
                    violation = Some(json!({
                        "what": "the unilateral close recorded by the monitor is not the one of the confirmed commitment transaction (our output / claimable HTLC outputs)",
                        "step": jsteps.len() - 1,
                        "recorded": {"our_output": got_o, "htlc_outputs": got_h},
                        "confirmed_transaction": {"our_output": exp_o, "claimable_htlc_outputs": exp_h},
                    }));
                }
            }
        }
        // the two views of one channel must agree: the ChainState handed to the validators
        // against the monitor's own getters
        if admissible && violation.is_none() {
            let cs = &o.view["chain_state"];
            let st = &o.view["state"];
            let d = &o.view["depths"];
            if cs["current_height"] != st["height"] || cs["funding_depth"] != d[0] || cs["funding_double_spent_depth"] != d[1] || cs["closing_depth"] != d[2] {
                violation = Some(json!({
                    "what": "as_chain_state (the chain view handed to the validators) disagrees with the monitor's own height / depth getters",
                    "step": jsteps.len() - 1,
                    "chain_state": cs,
                    "height": st["height"],
                    "funding_depth": d[0], "funding_double_spent_depth": d[1], "closing_depth": d[2],
                }));
            }
        }
        // the property itself: after a disconnection the view must be the one of a fresh
        // monitor that connected only the surviving chain
        let run_ends = !matches!(steps.get(sti + 1), Some(Step::Remove(_)));
        if admissible && matches!(st, Step::Remove(_) | Step::Restart) && violation.is_none() && (!sparse_replay || run_ends) {
            let mut f = Driver::new(sc, direct, forgot);
            let mut fok = true;
            for b in chain.iter() {
                fok &= f.add(&real(b), Mode::Compact) == Outcome::Done;
            }
            if !fok {
                violation = Some(json!({"what": "the fresh replay of the surviving chain panicked", "step": jsteps.len() - 1}));
            } else {
                let fo = f.obs(u);
                if fo.view != o.view {
                    violation = Some(json!({
                        "what": if matches!(st, Step::Restart) {
                            "after a restart from the store the channel's view differs from a fresh replay of the best chain"
                        } else {
                            "after a disconnection the channel's view differs from a fresh replay of the surviving best chain"
                        },
                        "step": jsteps.len() - 1,
                        "view": o.view,
                        "fresh_replay_view": fo.view,
                    }));
                }
            }
        }
    }
    let coq = format!(
        "(({}, {}, {}), {}, {}, {})",
        u.cfg_coq,
        h0,
        coq_bool(forgot),
        coq_list(&coq_steps.iter().map(|s| format!("({})", s)).collect::<Vec<_>>()),
        coq_bool(admissible),
        coq_list(&coq_obs)
    );
    let json = json!({
        "scenario": sc.label(),
        "origin": origin,
        "driver": if direct { "direct" } else { "tracker" },
        "admissible": admissible,
        "forgot": forgot,
        "steps": jsteps,
        "aborted": aborted,
        "removes": n_removes,
        "max_reorg_depth": max_depth,
        "rejected_by_tracker": rejected,
        "restarts": n_restarts,
        "expected_refusals": expected_refusals,
        "max_reorg_size": max_reorg,
        "wcoq": if direct || !admissible { Value::Null } else { json!(format!("({}, {}, {})", remembered0, coq_list(&wops), coq_list(&wobs))) },
    });
    CaseOut { coq, json, nontrivial: n_removes > 0 && chain.len() + n_removes >= 2, aborted, monitor_violation: violation }
}

// ------------------------------------------------------------------ generators

fn scenarios() -> Vec<Scenario> {
    let h = |o: bool, a: u64, p: bool| HtlcSpec { offered: o, amount_sat: a, preimage_known: p };
    let mut v = vec![];
    for closer_cp in [false, true] {
        v.push(Scenario { closer_cp, htlcs: vec![], our_output: true, no_info: false, lockstep: false, testnet: false, midstream: None });
        v.push(Scenario { closer_cp, htlcs: vec![h(true, 10_000, closer_cp)], our_output: true, no_info: false, lockstep: false, testnet: false, midstream: None });
        v.push(Scenario { closer_cp, htlcs: vec![h(true, 10_000, true), h(false, 12_000, true)], our_output: true, no_info: false, lockstep: false, testnet: false, midstream: None });
        v.push(Scenario { closer_cp, htlcs: vec![h(true, 10_000, false), h(false, 12_000, false)], our_output: true, no_info: false, lockstep: false, testnet: false, midstream: None });
        v.push(Scenario { closer_cp, htlcs: vec![h(!closer_cp, 11_000, false)], our_output: false, no_info: false, lockstep: false, testnet: false, midstream: None });
        v.push(Scenario { closer_cp, htlcs: vec![], our_output: false, no_info: false, lockstep: false, testnet: false, midstream: None });
        // both sides' commitment N held, one of them confirms
        v.push(Scenario { closer_cp, htlcs: vec![h(true, 10_000, true), h(false, 12_000, true)], our_output: true, no_info: false, lockstep: true, testnet: false, midstream: None });
        v.push(Scenario { closer_cp, htlcs: vec![h(true, 10_000, false), h(false, 12_000, false)], our_output: true, no_info: false, lockstep: true, testnet: false, midstream: None });
        v.push(Scenario { closer_cp, htlcs: vec![h(!closer_cp, 11_000, closer_cp)], our_output: true, no_info: false, lockstep: true, testnet: false, midstream: None });
        v.push(Scenario { closer_cp, htlcs: vec![], our_output: true, no_info: false, lockstep: true, testnet: false, midstream: None });
    }
    v
}

/// all the ways to cut `seq` into at most `maxb` consecutive non-empty blocks
fn groupings(seq: &[u64], maxb: usize) -> Vec<Vec<Vec<u64>>> {
    let n = seq.len();
    let mut out = vec![];
    for mask in 0u32..(1 << (n - 1)) {
        if mask.count_ones() as usize + 1 > maxb {
            continue;
        }
        let mut blocks = vec![vec![seq[0]]];
        for i in 1..n {
            if mask & (1 << (i - 1)) != 0 {
                blocks.push(vec![]);
            }
            blocks.last_mut().unwrap().push(seq[i]);
        }
        out.push(blocks);
    }
    out
}

fn canonical_sequences(u: &Universe) -> Vec<Vec<u64>> {
    let has = |i: u64| u.txs.contains_key(&i);
    let mut v: Vec<Vec<u64>> = vec![vec![F, M], vec![D1, D2], vec![F, C]];
    if has(S) {
        v.push(vec![F, C, S]);
        v.push(vec![C, S]);
    }
    if u.n_spendable >= 1 {
        v.push(vec![F, C, H0, X0]);
        v.push(vec![C, H0, X0]);
        if has(S) {
            v.push(vec![F, C, S, H0, X0]);
            v.push(vec![C, H0, S, X0]);
        }
    }
    if u.n_spendable >= 2 {
        v.push(vec![C, H0, H0 + 1, X0 + 1, X0]);
        v.push(vec![C, HB, XB0, XB0 + 1]);
        if has(S) {
            v.push(vec![C, HB, S, XB0 + 1, XB0]);
        }
    }
    if has(NS) {
        v.push(vec![C, NS]);
    }
    if has(SC) {
        v.push(vec![F, C, SC]);
    }
    v
}

/// does `t` fit on top of `chain` + `blk` (parents present, nothing spent twice)?
fn fits(u: &Universe, chain: &[Vec<u64>], blk: &[u64], t: u64) -> bool {
    let present: Vec<u64> = chain.iter().flatten().cloned().chain(blk.iter().cloned()).collect();
    if present.contains(&t) {
        return false;
    }
    let tx = &u.txs[&t];
    let mut spent: BTreeSet<OutPoint> = BTreeSet::new();
    for p in present.iter() {
        for i in u.txs[p].real.input.iter() {
            spent.insert(i.previous_output);
        }
    }
    for i in tx.real.input.iter() {
        if spent.contains(&i.previous_output) {
            return false;
        }
        let pid = u.ids[&i.previous_output.txid];
        if pid >= 10 && !present.contains(&pid) {
            return false;
        }
    }
    true
}

fn random_history(rng: &mut Rng, u: &Universe, len: usize, malformed: bool) -> Vec<Step> {
    let mut chain: Vec<Vec<u64>> = vec![];
    let mut steps = vec![];
    let all: Vec<u64> = u.txs.keys().cloned().collect();
    let progress = [F, C, S, H0, H0 + 1, X0, X0 + 1, HB, XB0, XB0 + 1, M, D1];
    let bad = [M2, MM, S2, H0B, X0B];
    let mut removed_run = 0;
    for _ in 0..len {
        let mode = match rng.below(3) {
            0 => Mode::Streamed,
            1 => Mode::Watched,
            _ => Mode::Compact,
        };
        if !chain.is_empty() && removed_run < 4 && rng.chance(2, 5) {
            chain.pop();
            removed_run += 1;
            steps.push(Step::Remove(mode));
            continue;
        }
        removed_run = 0;
        let want = *rng.pick(&[0usize, 1, 1, 1, 2, 2, 3, 4]);
        let mut blk = vec![];
        for _ in 0..want {
            let mut cands: Vec<u64> = all.iter().cloned().filter(|t| !bad.contains(t) && fits(u, &chain, &blk, *t)).collect();
            if malformed && rng.chance(1, 2) {
                // anything goes: conflicting spends, children before parents
                cands = all.iter().cloned().filter(|t| !chain.iter().flatten().any(|x| x == t) && !blk.contains(t)).collect();
            }
            if cands.is_empty() {
                break;
            }
            let pr: Vec<u64> = cands.iter().cloned().filter(|t| progress.contains(t)).collect();
            let t = if !pr.is_empty() && rng.chance(3, 4) { *rng.pick(&pr) } else { *rng.pick(&cands) };
            blk.push(t);
        }
        chain.push(blk.clone());
        steps.push(Step::Add(blk, mode));
    }
    steps
}

fn emit_case(c: &CaseOut, stats: &mut BTreeMap<String, u64>) {
    let mut j = c.json.clone();
    j["coq"] = json!(c.coq);
    j["nontrivial"] = json!(c.nontrivial);
    if let Some(v) = &c.monitor_violation {
        j["monitor_violation"] = v.clone();
    }
    *stats.entry("cases".into()).or_default() += 1;
    if c.aborted {
        *stats.entry("aborted".into()).or_default() += 1;
    }
    if c.monitor_violation.is_some() {
        *stats.entry("monitor_violations".into()).or_default() += 1;
    }
    *stats.entry(format!("driver_{}", c.json["driver"].as_str().unwrap())).or_default() += 1;
    *stats.entry("restarts".into()).or_default() += c.json["restarts"].as_u64().unwrap();
    *stats.entry("expected_refusals_beyond_window".into()).or_default() += c.json["expected_refusals"].as_u64().unwrap();
    for st in c.json["steps"].as_array().unwrap() {
        if st["mode"] == "Watched" {
            *stats.entry(if st.get("remove").is_some() { "watched_removes" } else { "watched_adds" }.into()).or_default() += 1;
            if st["ids"].as_array().map(|a| a.is_empty()).unwrap_or(false) {
                *stats.entry("watched_empty_blocks".into()).or_default() += 1;
            }
        }
    }
    if c.json["scenario"].as_str().unwrap().contains("-midstream") {
        *stats.entry("midstream_cases".into()).or_default() += 1;
    }
    if c.json["scenario"].as_str().unwrap().contains("-testnet") {
        *stats.entry("testnet_cases".into()).or_default() += 1;
    }
    if c.json["scenario"].as_str().unwrap().contains("-lockstep") {
        *stats.entry("lockstep_cases".into()).or_default() += 1;
    }
    *stats.entry(format!("steps")).or_default() += c.json["steps"].as_array().unwrap().len() as u64;
    *stats.entry(format!("removes")).or_default() += c.json["removes"].as_u64().unwrap();
    *stats.entry(format!("reorg_depth_{}", c.json["max_reorg_depth"])).or_default() += 1;
    emit("CASE", j);
}

/// systematic part: every grouping of the canonical sequences into <= 4 blocks, then a reorg
/// of depth d (remove d blocks, connect them again, possibly merged into one block)
fn systematic(args: &Args) {
    let mut rng = Rng::new(args.seed ^ 0x5157);
    let mut stats = BTreeMap::new();
    let quick = args.tier == "quick";
    let mut budget = args.n;
    let scs = scenarios();
    let mut plans: Vec<(usize, Vec<Step>, String)> = vec![];
    for (si, sc) in scs.iter().enumerate() {
        let w = make_world(sc);
        let u = make_universe(sc, &w);
        for seq in canonical_sequences(&u) {
            // a prefix that is delivered one transaction per block, so that the grouped part starts anywhere
            let pre: Vec<u64> = if seq[0] == C { vec![F] } else { vec![] };
            for g in groupings(&seq, 4) {
                for d in 1..=g.len().min(4) {
                    for merged in [false, true] {
                        if merged && d < 2 {
                            continue;
                        }
                        let mut steps = vec![];
                        for t in pre.iter() {
                            steps.push(Step::Add(vec![*t], Mode::Compact));
                        }
                        for b in g.iter() {
                            steps.push(Step::Add(b.clone(), Mode::Compact));
                        }
                        for _ in 0..d {
                            steps.push(Step::Remove(Mode::Compact));
                        }
                        let tail: Vec<Vec<u64>> = g[g.len() - d..].to_vec();
                        if merged {
                            steps.push(Step::Add(tail.concat(), Mode::Compact));
                        } else {
                            for b in tail {
                                steps.push(Step::Add(b, Mode::Compact));
                            }
                        }
                        plans.push((si, steps, format!("grouping {:?} reorg {}{}", g, d, if merged { " merged" } else { "" })));
                    }
                }
            }
        }
    }
    let total = plans.len();
    // quick: a seeded sample, always including the smallest close+sweep plans; thorough: all
    let mut chosen: Vec<usize> = (0..total).collect();
    if quick && total > budget {
        let mut keep: Vec<usize> = vec![];
        for (i, p) in plans.iter().enumerate() {
            if p.2.starts_with("grouping [[21, 30]] reorg 1") || p.2.starts_with("grouping [[21, 40, 50]] reorg 1") {
                keep.push(i);
            }
        }
        while keep.len() < budget {
            let i = rng.below(total as u64) as usize;
            if !keep.contains(&i) {
                keep.push(i);
            }
        }
        chosen = keep;
    }
    budget = chosen.len();
    let mut unis: BTreeMap<usize, Universe> = BTreeMap::new();
    for (k, i) in chosen.iter().enumerate() {
        let (si, steps, origin) = &plans[*i];
        let sc = &scs[*si];
        if !unis.contains_key(si) {
            let w = make_world(sc);
            unis.insert(*si, make_universe(sc, &w));
        }
        let u = &unis[si];
        // alternate drivers and delivery modes deterministically
        let direct = k % 3 == 2;
        let mut steps: Vec<Step> = steps
            .iter()
            .enumerate()
            .map(|(j, s)| {
                let streamed = (k + j) % 4 == 1;
                // what the chain follower really sends: only what the watches match
                let watched = !direct && (k + j) % 4 >= 2;
                match s {
                    Step::Add(b, _) => Step::Add(
                        b.clone(),
                        if streamed {
                            Mode::Streamed
                        } else if watched {
                            Mode::Watched
                        } else {
                            Mode::Compact
                        },
                    ),
                    Step::Remove(_) => Step::Remove(if streamed && direct {
                        Mode::Streamed
                    } else if watched {
                        Mode::Watched
                    } else {
                        Mode::Compact
                    }),
                    o => o.clone(),
                }
            })
            .collect();
        if !direct {
            // a signer restart: right before the reorganisation, or early in the history
            let first_remove = steps.iter().position(|s| matches!(s, Step::Remove(_)));
            match (k % 4, first_remove) {
                (0, Some(i)) | (3, Some(i)) => steps.insert(i, Step::Restart),
                (1, _) if steps.len() >= 2 => steps.insert(2.min(steps.len()), Step::Restart),
                _ => {}
            }
        }
        let c = run_case(sc, u, &steps, direct, false, true, origin);
        emit_case(&c, &mut stats);
    }
    stats.insert("plans_total".into(), total as u64);
    stats.insert("plans_run".into(), budget as u64);
    emit("STATS", json!({"domain": "monitor-systematic", "stats": stats}));
}

fn random(args: &Args, malformed: bool) {
    let mut rng = Rng::new(args.seed ^ if malformed { 0xBAD } else { 0x600D });
    let mut stats = BTreeMap::new();
    let scs = scenarios();
    let mut unis: BTreeMap<usize, Universe> = BTreeMap::new();
    for k in 0..args.n {
        let si = rng.below(scs.len() as u64) as usize;
        let mut sc = scs[si].clone();
        let key = if malformed && rng.chance(1, 6) {
            sc.no_info = true;
            sc.lockstep = false;
            si + 100
        } else {
            si
        };
        if !unis.contains_key(&key) {
            let w = make_world(&sc);
            unis.insert(key, make_universe(&sc, &w));
        }
        let u = &unis[&key];
        let direct = rng.chance(1, 3);
        let len = 3 + rng.below(8) as usize;
        let mut steps = random_history(&mut rng, u, len, malformed);
        if !direct && std::env::var("C14_TRY_STREAMED_REMOVE").is_err() {
            // streamed removal is only possible through the listener interface
            steps = steps
                .into_iter()
                .map(|s| match s {
                    Step::Remove(Mode::Streamed) => Step::Remove(Mode::Compact),
                    o => o,
                })
                .collect();
        }
        if malformed {
            // the watch sets only cover admissible histories
            steps = steps
                .into_iter()
                .map(|s| match s {
                    Step::Remove(Mode::Watched) => Step::Remove(Mode::Compact),
                    Step::Add(b, Mode::Watched) => Step::Add(b, Mode::Compact),
                    o => o,
                })
                .collect();
        } else if !direct {
            // signer restarts anywhere in the history
            let mut i = 1;
            while i <= steps.len() {
                if rng.chance(1, 5) {
                    steps.insert(i, Step::Restart);
                    i += 1;
                }
                i += 1;
            }
        }
        if malformed && direct && rng.chance(1, 3) {
            // a monitor created in the middle of a stream: events without a block start
            let b = vec![F];
            steps.insert(0, if rng.chance(1, 2) { Step::PartialAdd(b) } else { Step::PartialRemove(b) });
        }
        let forgot = rng.chance(1, 4);
        let c = run_case(&sc, u, &steps, direct, forgot, !malformed, if malformed { "random-malformed" } else { "random" });
        emit_case(&c, &mut stats);
        let _ = k;
    }
    emit("STATS", json!({"domain": if malformed { "monitor-malformed" } else { "monitor-random" }, "stats": stats}));
}

/// burial: is_done flips exactly MIN_DEPTH blocks after the event and flips back on a disconnection
fn burial(args: &Args) {
    let mut stats = BTreeMap::new();
    let scs = scenarios();
    let sc = &scs[0];
    let w = make_world(sc);
    let u = make_universe(sc, &w);
    let plans: Vec<(&str, Vec<Vec<u64>>)> = vec![
        ("mutual", vec![vec![F], vec![M]]),
        ("double-spend", vec![vec![D1]]),
        ("swept", vec![vec![F], vec![C, S]]),
    ];
    for (k, (name, pre)) in plans.iter().enumerate().take(args.n.max(1)) {
        let mut steps: Vec<Step> = pre.iter().map(|b| Step::Add(b.clone(), Mode::Compact)).collect();
        for _ in 0..98 {
            steps.push(Step::Add(vec![], Mode::Compact));
        }
        steps.push(Step::Add(vec![], Mode::Compact)); // depth 100
        steps.push(Step::Remove(Mode::Compact)); // depth 99 again
        steps.push(Step::Add(vec![U], Mode::Compact));
        steps.push(Step::Add(vec![], Mode::Compact));
        let c = run_case(sc, &u, &steps, k % 2 == 1, true, true, &format!("burial-{}", name));
        emit_case(&c, &mut stats);
    }
    emit("STATS", json!({"domain": "monitor-burial", "stats": stats}));
}

/// the edge of the window of remembered headers: 103 blocks connected (funding and
/// {commitment, sweep} among the first), MAX-1 disconnected and connected again, exactly MAX
/// disconnected (all must be accepted and leave the view of the first 3 blocks), one more
/// (must be refused and change nothing), then forward again
fn window(args: &Args) {
    let mut stats = BTreeMap::new();
    let scs = scenarios();
    let maxw = lightning_signer::chain::tracker::ChainTracker::<ChainMonitor>::MAX_REORG_SIZE;
    let plans: Vec<(usize, bool)> = vec![(0, false), (8, true)];
    for (k, (si, watched)) in plans.iter().enumerate().take(args.n.max(1)) {
        let sc = &scs[*si % scs.len()];
        let w = make_world(sc);
        let u = make_universe(sc, &w);
        let mode = |j: usize| if *watched && j % 2 == 0 { Mode::Watched } else { Mode::Compact };
        let mut steps: Vec<Step> = vec![];
        let mut body: Vec<Vec<u64>> = vec![vec![]; 3];
        body.push(vec![F]);
        body.push(if u.txs.contains_key(&S) { vec![C, S] } else { vec![C] });
        while body.len() < maxw + 3 {
            body.push(if body.len() == 17 { vec![U] } else { vec![] });
        }
        for (j, b) in body.iter().enumerate() {
            steps.push(Step::Add(b.clone(), mode(j)));
        }
        for j in 0..maxw - 1 {
            steps.push(Step::Remove(mode(j)));
        }
        if k == 1 {
            steps.push(Step::Restart);
        }
        for (j, b) in body.iter().enumerate().skip(4) {
            steps.push(Step::Add(b.clone(), mode(j + 1)));
        }
        for j in 0..maxw {
            steps.push(Step::Remove(mode(j + 1)));
        }
        steps.push(Step::Remove(Mode::Compact)); // one too many
        steps.push(Step::Add(vec![F], Mode::Compact));
        steps.push(Step::Remove(Mode::Compact));
        steps.push(Step::Add(vec![F], Mode::Compact));
        let c = run_case(sc, &u, &steps, false, false, true, &format!("window-edge-{}", k));
        emit_case(&c, &mut stats);
    }
    emit("STATS", json!({"domain": "monitor-window", "stats": stats}));
}

/// signers on testnet (compiled-in checkpoints): restarts at small non-zero heights, then
/// disconnect the last block and connect a competing one
fn testnet(args: &Args) {
    let mut rng = Rng::new(args.seed ^ 0x7e57);
    let mut stats = BTreeMap::new();
    let base = scenarios();
    let picks = [0usize, 2, 10, 12, 16];
    let mut unis: BTreeMap<usize, (Scenario, Universe)> = BTreeMap::new();
    for k in 0..args.n {
        let si = picks[k % picks.len()] % base.len();
        if !unis.contains_key(&si) {
            let mut sc = base[si].clone();
            sc.testnet = true;
            let w = make_world(&sc);
            let u = make_universe(&sc, &w);
            unis.insert(si, (sc, u));
        }
        let (sc, u) = &unis[&si];
        let steps: Vec<Step> = if k < picks.len() {
            // scripted: funding, a close, restart, disconnect the close, connect the competing close / a later one
            let has_s = u.txs.contains_key(&S);
            let close: Vec<u64> = if k % 2 == 0 { vec![M] } else if has_s { vec![C, S] } else { vec![C] };
            let other: Vec<u64> = if k % 2 == 0 { vec![C] } else { vec![M] };
            vec![
                Step::Add(vec![], Mode::Compact),
                Step::Add(vec![F], Mode::Watched),
                Step::Add(vec![], Mode::Streamed),
                Step::Add(close, Mode::Compact),
                Step::Restart,
                Step::Remove(Mode::Compact),
                Step::Add(other, Mode::Watched),
                Step::Add(vec![], Mode::Compact),
                Step::Restart,
                Step::Remove(Mode::Watched),
                Step::Remove(Mode::Compact),
            ]
        } else {
            let len = 4 + rng.below(8) as usize;
            let mut steps: Vec<Step> = random_history(&mut rng, u, len, false)
                .into_iter()
                .map(|s| match s {
                    Step::Remove(Mode::Streamed) => Step::Remove(Mode::Compact),
                    o => o,
                })
                .collect();
            let mut i = 1;
            while i <= steps.len() {
                if rng.chance(1, 3) {
                    steps.insert(i, Step::Restart);
                    i += 1;
                }
                i += 1;
            }
            steps
        };
        let c = run_case(sc, u, &steps, false, false, true, if k < picks.len() { "testnet-scripted" } else { "testnet-random" });
        emit_case(&c, &mut stats);
    }
    emit("STATS", json!({"domain": "monitor-testnet", "stats": stats}));
}

/// channels set up between two chunks of a streamed block that then connects, is refused as an
/// orphan, or belongs to a refused RemoveBlock; afterwards ordinary histories with restarts
fn midstream(args: &Args) {
    let mut rng = Rng::new(args.seed ^ 0x3157);
    let mut stats = BTreeMap::new();
    let base = scenarios();
    let picks = [0usize, 2, 10, 14];
    let kinds = [MidKind::Connects, MidKind::Orphan, MidKind::RefusedRemoval];
    for k in 0..args.n {
        let mut sc = base[picks[(k / 3) % picks.len()] % base.len()].clone();
        sc.midstream = Some(kinds[k % 3]);
        let w = make_world(&sc);
        let u = make_universe(&sc, &w);
        let has_s = u.txs.contains_key(&S);
        let steps: Vec<Step> = if k < 6 {
            vec![
                Step::Add(vec![F], if k % 2 == 0 { Mode::Streamed } else { Mode::Compact }),
                Step::Add(if has_s { vec![C, S] } else { vec![C] }, Mode::Watched),
                Step::Restart,
                Step::Remove(Mode::Compact),
                Step::Add(vec![M], Mode::Streamed),
                Step::Add(vec![], Mode::Watched),
                Step::Remove(Mode::Watched),
            ]
        } else {
            let len = 3 + rng.below(7) as usize;
            let mut steps: Vec<Step> = random_history(&mut rng, &u, len, false)
                .into_iter()
                .map(|s| match s {
                    Step::Remove(Mode::Streamed) => Step::Remove(Mode::Compact),
                    o => o,
                })
                .collect();
            let mut i = 1;
            while i <= steps.len() {
                if rng.chance(1, 5) {
                    steps.insert(i, Step::Restart);
                    i += 1;
                }
                i += 1;
            }
            steps
        };
        let c = run_case(&sc, &u, &steps, false, false, true, "midstream");
        emit_case(&c, &mut stats);
    }
    emit("STATS", json!({"domain": "monitor-midstream", "stats": stats}));
}

fn main() {
    // one line per panic (most are the observations we are after), no backtraces
    std::panic::set_hook(Box::new(|info| {
        let loc = info.location().map(|l| format!("{}:{}", l.file(), l.line())).unwrap_or_default();
        let msg = info
            .payload()
            .downcast_ref::<&str>()
            .map(|s| s.to_string())
            .or_else(|| info.payload().downcast_ref::<String>().cloned())
            .unwrap_or_default();
        eprintln!("panic at {}: {}", loc, msg);
    }));
    let argv: Vec<String> = std::env::args().skip(1).collect();
    let sub = argv.get(0).cloned().unwrap_or_default();
    let args = parse_args(&argv[1.min(argv.len())..]);
    match sub.as_str() {
        "systematic" => systematic(&args),
        "random" => random(&args, false),
        "malformed" => random(&args, true),
        "burial" => burial(&args),
        "window" => window(&args),
        "testnet" => testnet(&args),
        "midstream" => midstream(&args),
        _ => {
            eprintln!("usage: monitor systematic|random|malformed|burial --seed S --n N --tier T");
            std::process::exit(2);
        }
    }
}
