//! Domain `monitor` (C14): probe version
use lightning_signer::bitcoin::absolute::LockTime;
use lightning_signer::bitcoin::consensus::serialize;
use lightning_signer::bitcoin::hashes::Hash;
use lightning_signer::bitcoin::transaction::Version;
use lightning_signer::bitcoin::{
    Amount, Block, OutPoint, ScriptBuf, Sequence, Transaction, TxIn, TxOut, Txid, Witness,
};
use lightning_signer::chain::tracker::{ChainListener, Headers};
use lightning_signer::channel::{Channel, ChannelBase, ChannelId};
use lightning_signer::node::{Node, SpendType};
use lightning_signer::tx::tx::{CommitmentInfo2, HTLCInfo2};
use lightning_signer::txoo::proof::{ProofType, TxoProof};
use lightning_signer::util::test_utils::key::make_test_pubkey;
use lightning_signer::util::test_utils::*;
use serde_json::json;
use std::panic::{catch_unwind, AssertUnwindSafe};
use std::sync::Arc;
use vharness::*;

fn spend(prev: OutPoint) -> TxIn {
    TxIn {
        previous_output: prev,
        script_sig: ScriptBuf::new(),
        sequence: Sequence::ZERO,
        witness: Witness::default(),
    }
}

fn tx_spending(prevs: &[OutPoint], nout: usize, salt: u64) -> Transaction {
    Transaction {
        version: Version::TWO,
        lock_time: LockTime::ZERO,
        input: prevs.iter().map(|p| spend(*p)).collect(),
        output: (0..nout)
            .map(|i| TxOut {
                value: Amount::from_sat(1000 + salt * 10 + i as u64),
                script_pubkey: ScriptBuf::new(),
            })
            .collect(),
    }
}

struct Ctx {
    node_ctx: TestNodeContext,
    chan_ctx: TestChannelContext,
    funding: Transaction,
    funding_vout: u32,
}

fn make_ctx() -> Ctx {
    let node_ctx = TestNodeContext {
        node: init_node(REGTEST_NODE_CONFIG, TEST_SEED[1]),
        secp_ctx: lightning_signer::bitcoin::secp256k1::Secp256k1::signing_only(),
    };
    let channel_amount = 3_000_000;
    let stype = SpendType::P2wpkh;
    let incoming = channel_amount + 2_000_000;
    let fee = 1000;
    let change = incoming - channel_amount - fee;
    let mut chan_ctx = test_chan_ctx(&node_ctx, 1, channel_amount);
    let mut tx_ctx = TestFundingTxContext::new();
    tx_ctx.add_wallet_input(&node_ctx, stype, 1, incoming / 2);
    tx_ctx.add_wallet_input(&node_ctx, stype, 2, incoming - incoming / 2);
    tx_ctx.add_wallet_output(&node_ctx, stype, 1, change);
    let outpoint_ndx = tx_ctx.add_channel_outpoint(&node_ctx, &chan_ctx, channel_amount);
    let mut tx = tx_ctx.to_tx();
    let st = funding_tx_setup_channel(&node_ctx, &mut chan_ctx, &tx, outpoint_ndx);
    assert!(st.is_none(), "setup_channel: {:?}", st);
    let mut commit_tx_ctx = channel_initial_holder_commitment(&node_ctx, &chan_ctx);
    let (csig, hsigs) = counterparty_sign_holder_commitment(&node_ctx, &chan_ctx, &mut commit_tx_ctx);
    validate_holder_commitment(&node_ctx, &chan_ctx, &commit_tx_ctx, &csig, &hsigs)
        .expect("valid holder commitment");
    let witvec = tx_ctx.sign(&node_ctx, &tx).expect("witvec");
    tx_ctx.validate_sig(&node_ctx, &mut tx, &witvec);
    Ctx { node_ctx, chan_ctx, funding: tx, funding_vout: outpoint_ndx }
}

fn dump(node: &Node, key: &OutPoint) -> serde_json::Value {
    let tracker = node.get_tracker();
    let (mon, slot) = tracker.listeners.get(key).expect("listener");
    let st = mon.get_state();
    json!({
        "state": serde_json::to_value(&*st).unwrap(),
        "slot": serde_json::to_value(slot).unwrap(),
        "theight": tracker.height(),
    })
}

fn add_compact(node: &Node, txs: &[Transaction]) -> Block {
    let mut tracker = node.get_tracker();
    let mut all = vec![Transaction {
        version: Version::non_standard(0),
        lock_time: LockTime::from_consensus(tracker.height() + 1),
        input: vec![],
        output: vec![TxOut { value: Amount::ZERO, script_pubkey: ScriptBuf::new() }],
    }];
    all.extend_from_slice(txs);
    let block = make_block(tracker.tip().0, all);
    let proof = TxoProof::prove_unchecked(&block, &tracker.tip().1, tracker.height() + 1);
    tracker.add_block(block.header, proof).expect("add_block");
    block
}

fn remove_compact(node: &Node, block: &Block, prev: &Headers) {
    let mut tracker = node.get_tracker();
    let proof = TxoProof::prove_unchecked(block, &prev.1, tracker.height());
    tracker.remove_block(proof, prev.clone()).expect("remove_block");
}

fn probe() {
    let ctx = make_ctx();
    let node = ctx.node_ctx.node.clone();
    let key = OutPoint { txid: ctx.funding.compute_txid(), vout: ctx.funding_vout };
    println!("init {}", dump(&node, &key));
    let prev0 = node.get_tracker().tip().clone();
    let b1 = add_compact(&node, &[ctx.funding.clone()]);
    println!("after funding {}", dump(&node, &key));

    // holder commitment with one offered HTLC
    let hash = lightning_signer::lightning::types::payment::PaymentHash([7u8; 32]);
    let offered = vec![HTLCInfo2 { value_sat: 10_000, payment_hash: hash, cltv_expiry: 100 }];
    let commit_num = 1;
    let c = channel_commitment(&ctx.node_ctx, &ctx.chan_ctx, commit_num, 1000, 2_000_000, 980_000, offered.clone(), vec![]);
    let ctx_tx = c.tx.as_ref().unwrap().trust().built_transaction().transaction.clone();
    node.with_channel(&ctx.chan_ctx.channel_id, |chan| {
        chan.enforcement_state.set_next_holder_commit_num_for_testing(commit_num + 1);
        chan.enforcement_state.current_holder_commit_info =
            Some(CommitmentInfo2::new(false, 980_000, 2_000_000, offered.clone(), vec![], 1000));
        Ok(())
    })
    .unwrap();
    println!("commitment tx: {:?}", ctx_tx);
    let prev1 = node.get_tracker().tip().clone();
    let b2 = add_compact(&node, &[ctx_tx.clone()]);
    let d2 = dump(&node, &key);
    println!("after commitment {}", d2);
    let co = d2["state"]["closing_outpoints"].clone();
    let ctxid = ctx_tx.compute_txid();
    let htlc_vout = co["htlc_outputs"][0].as_u64().unwrap() as u32;
    let our_vout = co["our_output"][0].as_u64().unwrap() as u32;
    let htx = tx_spending(&[OutPoint { txid: ctxid, vout: htlc_vout }], 1, 1);
    let prev2 = node.get_tracker().tip().clone();
    let b3 = add_compact(&node, &[htx.clone()]);
    println!("after htlc tx {}", dump(&node, &key));
    remove_compact(&node, &b3, &prev2);
    println!("after removing htlc tx block {}", dump(&node, &key));
    println!("EXPECT equal to after-commitment: {}", dump(&node, &key) == d2);
    // second level
    let b3 = add_compact(&node, &[htx.clone()]);
    let d3 = dump(&node, &key);
    let prev3 = node.get_tracker().tip().clone();
    let x = tx_spending(&[OutPoint { txid: htx.compute_txid(), vout: 0 }], 1, 2);
    let b4 = add_compact(&node, &[x.clone()]);
    println!("after second-level {}", dump(&node, &key));
    remove_compact(&node, &b4, &prev3);
    println!("after removing second-level block {}", dump(&node, &key));
    println!("EXPECT equal to d3: {}", dump(&node, &key) == d3);
    // close + sweep in one block
    remove_compact(&node, &b3, &prev2);
    remove_compact(&node, &b2, &prev1);
    let sweep = tx_spending(&[OutPoint { txid: ctxid, vout: our_vout }], 1, 3);
    let before = dump(&node, &key);
    let r = catch_unwind(AssertUnwindSafe(|| {
        let b = add_compact(&node, &[ctx_tx.clone(), sweep.clone()]);
        println!("after close+sweep {}", dump(&node, &key));
        remove_compact(&node, &b, &prev1);
        println!("after removing close+sweep {}", dump(&node, &key));
    }));
    println!("close+sweep add/remove panicked: {}", r.is_err());
    let _ = (b1, prev0, before);
}

fn main() {
    let argv: Vec<String> = std::env::args().skip(1).collect();
    let sub = argv.get(0).cloned().unwrap_or_default();
    let _args = parse_args(&argv[1.min(argv.len())..]);
    match sub.as_str() {
        "probe" => probe(),
        _ => {
            eprintln!("usage: monitor probe");
            std::process::exit(2);
        }
    }
}
