//! Domain `tracker` (C13): a real `ChainTracker<ChainMonitor>` driven through add_block /
//! remove_block / block_chunk with valid and defective headers, proofs, previous-header
//! arguments and oracle sets; after every call the persisted image (`ChainTrackerEntry`) is
//! compared with the Gallina model and, on `Err`, with its own pre-image.
//!
//! Sub-domains: `seq` (generated histories), `scripted` (the replays the property is about:
//! refused removal then correct removal, refused streamed block then next streamed block),
//! `handler` (the same requests through `RootHandler`: AddBlock / RemoveBlock / BlockChunk).
use std::collections::BTreeMap;
use std::panic::{catch_unwind, AssertUnwindSafe};
use std::sync::Arc;

use lightning_signer::bitcoin::absolute::LockTime;
use lightning_signer::bitcoin::bip32::DerivationPath;
use lightning_signer::bitcoin::block::{Header as BlockHeader, Version as BlockVersion};
use lightning_signer::bitcoin::blockdata::constants::genesis_block;
use lightning_signer::bitcoin::consensus::serialize;
use lightning_signer::bitcoin::hash_types::{FilterHeader, TxMerkleNode};
use lightning_signer::bitcoin::hashes::Hash;
use lightning_signer::bitcoin::key::Keypair;
use lightning_signer::bitcoin::secp256k1::{PublicKey, Secp256k1, SecretKey};
use lightning_signer::bitcoin::transaction::Version;
use lightning_signer::bitcoin::{
    merkle_tree, Amount, Block, BlockHash, CompactTarget, Network, OutPoint, ScriptBuf, Sequence,
    Target, Transaction, TxIn, TxOut, Txid, Witness,
};
use lightning_signer::chain::tracker::{ChainListener, ChainTracker, Error as TrackerError, Headers};
use lightning_signer::channel::{ChannelId, ChannelSetup};
use lightning_signer::lightning::ln::chan_utils::ChannelTransactionParameters;
use lightning_signer::monitor::{ChainMonitor, ChainMonitorBase};
use lightning_signer::policy::filter::{FilterRule, PolicyFilter};
use lightning_signer::policy::simple_validator::SimpleValidatorFactory;
use lightning_signer::policy::validator::ValidatorFactory;
use lightning_signer::signer::derive::KeyDerivationStyle;
use lightning_signer::txoo::filter::BlockSpendFilter;
use lightning_signer::txoo::proof::{ProofType, TxoProof};
use lightning_signer::txoo::spv::SpvProof;
use lightning_signer::txoo::util::sign_attestation;
use lightning_signer::txoo::{Attestation, SignedAttestation};
use lightning_signer::util::status::Status;
use lightning_signer::util::test_utils::make_test_channel_setup;
use lightning_signer::{CommitmentPointProvider, SendSync};
use serde_json::{json, Value};
use vharness::*;
use lightning_signer::node::{Node, NodeServices};
use lightning_signer::persist::Persist;
use vls_persist::kvv::KVVStore;
use vls_persist::model::ChainTrackerEntry;
use vls_protocol::serde_bolt::LargeOctets;
use vls_protocol::serde_bolt::Octets;
use vls_protocol::msgs::{self, Message, SerBolt};
use vls_protocol_signer::handler::{Handler, HandlerBuilder, RootHandler};

type Tracker = ChainTracker<ChainMonitor>;

// ------------------------------------------------------------------ shared helpers
mod hx {
    use super::*;

    /// identities for the model: hashes, filter headers, outpoints, txids, keys, monitor states
    #[derive(Default)]
    pub struct Intern {
        maps: BTreeMap<&'static str, BTreeMap<Vec<u8>, u64>>,
    }
    impl Intern {
        pub fn id(&mut self, space: &'static str, bytes: &[u8]) -> u64 {
            let m = self.maps.entry(space).or_default();
            let n = m.len() as u64 + 1;
            *m.entry(bytes.to_vec()).or_insert(n)
        }
        pub fn hash(&mut self, h: &BlockHash) -> u64 {
            self.id("hash", &h.to_byte_array())
        }
        /// the all-zero filter header is identity 0
        pub fn fh(&mut self, f: &FilterHeader) -> u64 {
            let b = f.to_byte_array();
            if b.iter().all(|x| *x == 0) {
                0
            } else {
                self.id("fh", &b)
            }
        }
        pub fn outpoint(&mut self, o: &OutPoint) -> u64 {
            let mut b = o.txid.to_byte_array().to_vec();
            b.extend_from_slice(&o.vout.to_le_bytes());
            self.id("outpoint", &b)
        }
        pub fn txid(&mut self, t: &Txid) -> u64 {
            self.id("txid", &t.to_byte_array())
        }
        pub fn key(&mut self, k: &PublicKey) -> u64 {
            self.id("key", &k.serialize())
        }
        pub fn mon(&mut self, v: &Value) -> u64 {
            self.id("mon", v.to_string().as_bytes())
        }
    }

    pub fn sorted(mut v: Vec<u64>) -> Vec<u64> {
        v.sort();
        v.dedup();
        v
    }

    pub fn pow_ok(h: &BlockHeader) -> bool {
        h.validate_pow(h.target()).is_ok()
    }

    /// mine (or deliberately fail to mine) a header
    pub fn mine(prev: BlockHash, merkle_root: TxMerkleNode, bits: CompactTarget, time: u32, want_pow: bool) -> BlockHeader {
        let mut nonce = 0u32;
        loop {
            let header = BlockHeader {
                version: BlockVersion::from_consensus(0),
                prev_blockhash: prev,
                merkle_root,
                time,
                bits,
                nonce,
            };
            // a target that cannot be met in reasonable time (a degenerate bits value): hand the
            // header out as it is, its proof-of-work flag is computed from the header anyway
            if pow_ok(&header) == want_pow || nonce > (1 << 22) {
                return header;
            }
            nonce = nonce.checked_add(1).expect("nonce space exhausted");
        }
    }

    pub fn merkle_root(txs: &[Transaction]) -> TxMerkleNode {
        let txids: Vec<Txid> = txs.iter().map(|tx| tx.compute_txid()).collect();
        let root = merkle_tree::calculate_root(txids.into_iter()).unwrap();
        TxMerkleNode::from_raw_hash(root.into())
    }

    /// a coinbase-like first transaction, unique per (salt)
    pub fn coinbase(salt: u32) -> Transaction {
        Transaction {
            version: Version::non_standard(0),
            lock_time: LockTime::from_consensus(salt % 400_000_000),
            input: vec![],
            output: vec![TxOut { value: Amount::from_sat(salt as u64), script_pubkey: ScriptBuf::new() }],
        }
    }

    pub fn spend(outpoint: OutPoint, salt: u64) -> Transaction {
        Transaction {
            version: Version::TWO,
            lock_time: LockTime::ZERO,
            input: vec![TxIn {
                previous_output: outpoint,
                script_sig: ScriptBuf::new(),
                sequence: Sequence::ZERO,
                witness: Witness::default(),
            }],
            output: vec![TxOut { value: Amount::from_sat(salt), script_pubkey: ScriptBuf::new() }],
        }
    }

    pub struct Oracle {
        pub keypair: Keypair,
        pub pubkey: PublicKey,
    }
    pub fn oracle(byte: u8) -> Oracle {
        let secp = Secp256k1::new();
        let sk = SecretKey::from_slice(&[byte; 32]).unwrap();
        Oracle { keypair: Keypair::from_secret_key(&secp, &sk), pubkey: PublicKey::from_secret_key(&secp, &sk) }
    }

    pub fn attest(o: &Oracle, claimed: &PublicKey, block_hash: BlockHash, height: u32, fh: FilterHeader) -> (PublicKey, SignedAttestation) {
        let secp = Secp256k1::new();
        let a = Attestation { block_hash, block_height: height, filter_header: fh, time: 0 };
        (*claimed, sign_attestation(a, &o.keypair, &secp))
    }

    pub fn filter_header_of(block: &Block, prev_fh: &FilterHeader) -> FilterHeader {
        BlockSpendFilter::from_block(block).filter_header(prev_fh)
    }

    /// a compact proof: the filter of `block` and an SPV proof for the listed txids / outpoints
    pub fn compact_proof(block: &Block, txids: &[Txid], outpoints: &[OutPoint]) -> ProofType {
        let filter = BlockSpendFilter::from_block(block);
        let (spv, _spent, _unspent) = SpvProof::build(block, txids, outpoints);
        ProofType::Filter(filter.content, spv)
    }

    pub fn err_code(r: &Result<(), TrackerError>) -> u64 {
        match r {
            Ok(()) => 0,
            Err(TrackerError::InvalidChain) => 1,
            Err(TrackerError::OrphanBlock(_)) => 2,
            Err(TrackerError::InvalidBlock) => 3,
            Err(TrackerError::BlockDecodeError) => 4,
            Err(TrackerError::ReorgTooDeep) => 5,
            Err(TrackerError::InvalidProof) => 6,
        }
    }
    pub const ABORT: u64 = 7;
    pub fn code_name(c: u64) -> &'static str {
        ["Ok", "InvalidChain", "OrphanBlock", "InvalidBlock", "BlockDecodeError", "ReorgTooDeep", "InvalidProof", "Abort"][c as usize]
    }

    #[derive(Clone)]
    pub struct HProvider {
        pub params: ChannelTransactionParameters,
    }
    impl SendSync for HProvider {}
    impl CommitmentPointProvider for HProvider {
        fn get_holder_commitment_point(&self, _n: u64) -> PublicKey {
            unimplemented!("the tracker domain only produces non-commitment spends")
        }
        fn get_counterparty_commitment_point(&self, _n: u64) -> Option<PublicKey> {
            unimplemented!()
        }
        fn get_transaction_parameters(&self) -> ChannelTransactionParameters {
            self.params.clone()
        }
        fn get_spendable_htlc_indices(&self, _tx: &Transaction, _n: u64) -> Result<Vec<u32>, Status> {
            unimplemented!()
        }
        fn clone_box(&self) -> Box<dyn CommitmentPointProvider> {
            Box::new(self.clone())
        }
    }

    pub fn quiet_panics() {
        // refusals by panic are caught and counted; VERIF_LOUD=1 shows them (to locate a panic that
        // ends the harness itself)
        if std::env::var("VERIF_LOUD").is_err() {
            std::panic::set_hook(Box::new(|_| {}));
        }
    }
}
use hx::*;

// ------------------------------------------------------------------ fixture

struct Chan {
    id: ChannelId,
    funding_tx: Transaction,
    funding_outpoint: OutPoint,
    provider: HProvider,
}

struct Fixture {
    node_id: PublicKey,
    chans: Vec<Chan>,
    oracles: Vec<Oracle>,
    /// a pre-mined regtest chain: block i has height i (0 = genesis), with its filter header
    pool: Vec<(Block, FilterHeader)>,
}

fn fixture(pool_len: usize) -> Fixture {
    let world = World::new(World::default_policy(), [9u8; 32], KeyDerivationStyle::Native);
    let node = world.new_node();
    let mut chans = vec![];
    for i in 0..2u8 {
        let funding_tx = spend(OutPoint { txid: Txid::from_byte_array([0x40 + i; 32]), vout: 0 }, 3_000_000);
        let funding_outpoint = OutPoint { txid: funding_tx.compute_txid(), vout: 0 };
        let mut setup: ChannelSetup = make_test_channel_setup();
        setup.funding_outpoint = funding_outpoint;
        let (id, _) = node.new_channel(1 + i as u64, &[2u8; 33], &node).expect("new_channel");
        let chan = node
            .setup_channel(id.clone(), None, setup, &DerivationPath::master())
            .expect("setup_channel");
        let provider = HProvider { params: chan.make_channel_parameters() };
        chans.push(Chan { id, funding_tx, funding_outpoint, provider });
    }
    // 0..=4 may be trusted by a case, 5..=7 never are
    let oracles = (0..8u8).map(|i| oracle(0x21 + i)).collect();
    let genesis = genesis_block(Network::Regtest);
    let mut pool = vec![(genesis.clone(), FilterHeader::all_zeros())];
    for h in 1..pool_len {
        let (prev, prev_fh) = pool.last().unwrap().clone();
        let txs = vec![coinbase(1_000_000 + h as u32)];
        let header = mine(prev.block_hash(), merkle_root(&txs), prev.header.bits, h as u32, true);
        let block = Block { header, txdata: txs };
        let fh = filter_header_of(&block, &prev_fh);
        pool.push((block, fh));
    }
    Fixture { node_id: node.get_id(), chans, oracles, pool }
}

/// The operator's policy filter of a case and whether it downgrades policy-chain-validated
/// (the model's `warn`).  The FIRST matching rule decides, so a strict rule ahead of a lenient
/// one keeps chain validation enforced: under kinds 2, 3 and 5 the signer must behave exactly
/// as under the default filter; under 1 and 4 exactly as under the plain warn rule.
fn policy_filter(kind: u8) -> (PolicyFilter, bool, &'static str) {
    use lightning_signer::policy::filter::FilterResult;
    let rule = |tag: &str, is_prefix: bool, action: FilterResult| FilterRule { tag: tag.to_string(), is_prefix, action };
    match kind {
        0 => (PolicyFilter { rules: vec![] }, false, "default (empty)"),
        1 => (PolicyFilter { rules: vec![FilterRule::new_warn("policy-chain-validated")] }, true, "warn policy-chain-validated"),
        2 => (vharness::shadowed_permissive_filter(), false, "error policy-* ahead of the permissive rule"),
        3 => (
            PolicyFilter { rules: vec![rule("policy-chain-validated", false, FilterResult::Error), rule("", true, FilterResult::Warn)] },
            false,
            "error policy-chain-validated ahead of warn *",
        ),
        4 => (
            PolicyFilter { rules: vec![rule("policy-chain-validated", false, FilterResult::Warn), rule("policy-", true, FilterResult::Error)] },
            true,
            "warn policy-chain-validated ahead of error policy-*",
        ),
        _ => (
            PolicyFilter { rules: vec![rule("policy-chain-", true, FilterResult::Error), rule("policy-onchain-fee-range", false, FilterResult::Warn), rule("policy-c", true, FilterResult::Warn)] },
            false,
            "error policy-chain-* ahead of warn policy-onchain-fee-range and warn policy-c*",
        ),
    }
}

fn validator_factory(filter: u8) -> Arc<dyn ValidatorFactory> {
    let mut policy = World::default_policy();
    policy.filter = policy_filter(filter).0;
    Arc::new(SimpleValidatorFactory::new_with_policy(policy))
}

// ------------------------------------------------------------------ one case = one tracker + its mirror

#[derive(Clone, Copy, PartialEq, Debug)]
enum Stage {
    Unfunded,
    Funded,
    Closed,
}

/// the signer behind the wire protocol: the tracker is the node's, requests are messages
struct HandlerCtx {
    world: World,
    node: Arc<Node>,
    handler: RootHandler,
    network: Network,
    trusted: Vec<PublicKey>,
}

impl HandlerCtx {
    fn services(world: &World, trusted: &[PublicKey]) -> NodeServices {
        let mut sv = world.services();
        sv.trusted_oracle_pubkeys = trusted.to_vec();
        sv
    }
    /// HandlerBuilder::build: a fresh node when the store is empty, Node::restore_node otherwise
    fn boot(world: &World, network: Network, trusted: &[PublicKey]) -> (Arc<Node>, RootHandler) {
        let mut init = HandlerBuilder::new(network, 0, Self::services(world, trusted), world.seed).build().expect("init handler");
        let (done, _) = init.handle(hsmd_init_message(network)).expect("hsmd init");
        assert!(done);
        let handler: RootHandler = init.into();
        let node = handler.node().clone();
        (node, handler)
    }
}

enum TRef<'a> {
    Own(&'a Tracker),
    Node(lightning_signer::prelude::MutexGuard<'a, Tracker>),
}
impl<'a> std::ops::Deref for TRef<'a> {
    type Target = Tracker;
    fn deref(&self) -> &Tracker {
        match self {
            TRef::Own(t) => t,
            TRef::Node(g) => &*g,
        }
    }
}

struct Case {
    own: Option<Tracker>,
    hctx: Option<HandlerCtx>,
    /// the blocks of the best chain as the harness knows it; last = tip
    chain: Vec<(Block, FilterHeader)>,
    /// per channel: is it registered as a listener, and where its funding stands
    registered: Vec<bool>,
    stage: Vec<Stage>,
    /// stage changes made by each block on `chain` above the start (to revert on removal)
    undo: Vec<Vec<(usize, Stage)>>,
    network: Network,
    trusted: Vec<usize>,
    warn: bool,
    allow_deep: bool,
    salt: u32,
    intern: Intern,
    /// a block stream in progress: (declared hash, complete)
    stream: Option<(BlockHash, bool)>,
    last_view: String,
    last_store: Option<Value>,
    last_dump: Vec<(String, u64, String)>,
    /// the height of the last block of `chain`, kept by the harness
    ghost_height: u32,
}

fn entry_json(t: &Tracker) -> Value {
    // a request that ended in a panic inside a listener leaves that listener's lock poisoned: the
    // state can then no longer be read.  That is a state change of a refused request (and every
    // later request dies), so it is reported as one instead of ending the harness
    match catch_unwind(AssertUnwindSafe(|| serde_json::to_value(&ChainTrackerEntry::from(t)).expect("entry json"))) {
        Ok(v) => v,
        Err(_) => json!({"unreadable": "reading the tracker state panics (a listener's lock was poisoned by a panic during an earlier request)"}),
    }
}

impl Case {
    fn tr(&self) -> TRef<'_> {
        match (&self.own, &self.hctx) {
            (Some(t), _) => TRef::Own(t),
            (None, Some(h)) => TRef::Node(h.node.get_tracker()),
            _ => unreachable!(),
        }
    }

    /// the tracker entry as it sits in the store (handler mode)
    fn stored_entry(&self) -> Option<Value> {
        let h = self.hctx.as_ref()?;
        let key = format!("node/tracker/{}", hex::encode(h.node.get_id().serialize()));
        let (_, bytes) = h.world.persister.0.get(&key).expect("store get")?;
        Some(serde_json::from_slice(&bytes).expect("stored tracker entry is JSON"))
    }

    /// the three requests, against the bare tracker or as wire messages through RootHandler;
    /// result code as in [err_code] (through the handler only Ok, OrphanBlock and panic exist)
    fn call_add(&mut self, header: BlockHeader, proof: TxoProof) -> u64 {
        if let Some(t) = self.own.as_mut() {
            return match catch_unwind(AssertUnwindSafe(|| t.add_block(header, proof))) {
                Ok(x) => err_code(&x),
                Err(_) => ABORT,
            };
        }
        let h = self.hctx.as_ref().unwrap();
        let msg = Message::AddBlock(msgs::AddBlock { header: Octets(serialize(&header)), unspent_proof: Some(msgs::DebugTxoProof(proof)) });
        Self::wire(h, msg, |m| matches!(m, Message::AddBlockReply(_)))
    }
    fn call_remove(&mut self, proof: TxoProof, prev: Headers) -> u64 {
        if let Some(t) = self.own.as_mut() {
            return match catch_unwind(AssertUnwindSafe(|| t.remove_block(proof, prev).map(|_| ()))) {
                Ok(x) => err_code(&x),
                Err(_) => ABORT,
            };
        }
        let h = self.hctx.as_ref().unwrap();
        let msg = Message::RemoveBlock(msgs::RemoveBlock {
            unspent_proof: Some(LargeOctets(serialize(&proof))),
            prev_block_header: prev.0,
            prev_filter_header: prev.1,
        });
        Self::wire(h, msg, |m| matches!(m, Message::RemoveBlockReply(_)))
    }
    fn call_chunk(&mut self, hash: BlockHash, offset: u32, bytes: &[u8]) -> u64 {
        if let Some(t) = self.own.as_mut() {
            return match catch_unwind(AssertUnwindSafe(|| t.block_chunk(hash, offset, bytes))) {
                Ok(x) => err_code(&x),
                Err(_) => ABORT,
            };
        }
        let h = self.hctx.as_ref().unwrap();
        let msg = Message::BlockChunk(msgs::BlockChunk { hash, offset, content: Octets(bytes.to_vec()) });
        Self::wire(h, msg, |m| matches!(m, Message::BlockChunkReply(_)))
    }
    /// serialise, parse back (the real wire path), handle
    fn wire(h: &HandlerCtx, msg: Message, is_ok: impl Fn(&Message) -> bool) -> u64 {
        let bytes = msg.inner().as_vec();
        let parsed = msgs::from_vec(bytes).expect("request parses back");
        let r = catch_unwind(AssertUnwindSafe(|| h.handler.handle(parsed)));
        match r {
            Err(_) => ABORT,
            Ok(Err(_)) => ABORT, // a Status error: not produced by these arms for well-formed input
            Ok(Ok(reply)) => {
                let back = msgs::from_vec(reply.as_vec()).expect("reply parses");
                if is_ok(&back) {
                    0
                } else if let Message::SignerError(e) = &back {
                    assert_eq!(e.code, msgs::CODE_ORPHAN_BLOCK);
                    2
                } else {
                    panic!("unexpected reply")
                }
            }
        }
    }

    fn mon_json(m: &ChainMonitor) -> Value {
        serde_json::to_value(&*m.get_state()).expect("monitor json")
    }

    fn coq_hdr(&mut self, h: &BlockHeader) -> String {
        format!(
            "(mkhdr {} {} {} {} {})",
            self.intern.hash(&h.block_hash()),
            self.intern.hash(&h.prev_blockhash),
            coq_bool(pow_ok(h)),
            h.bits.to_consensus(),
            h.time
        )
    }
    fn coq_headers(&mut self, h: &Headers) -> String {
        format!("({}, {})", self.coq_hdr(&h.0), self.intern.fh(&h.1))
    }

    fn slots_view(&mut self) -> Vec<(u64, Vec<u64>, Vec<u64>, Vec<u64>, u64)> {
        let mut out = vec![];
        let items: Vec<_> = self
            .tr()
            .listeners
            .iter()
            .map(|(k, (l, s))| (*k, Self::mon_json(l), s.clone()))
            .collect();
        for (k, mj, s) in items {
            let key = self.intern.outpoint(&k);
            let txw = sorted(s.txid_watches.iter().map(|t| self.intern.txid(t)).collect());
            let w = sorted(s.watches.iter().map(|o| self.intern.outpoint(o)).collect());
            let seen = sorted(s.seen.iter().map(|o| self.intern.outpoint(o)).collect());
            let mon = self.intern.mon(&mj);
            out.push((key, txw, w, seen, mon));
        }
        out
    }

    fn coq_state(&mut self) -> String {
        let hdrs: Vec<Headers> = self.tr().headers.iter().cloned().collect();
        self.last_view = self.coq_view();
        let hs: Vec<String> = hdrs.iter().map(|h| self.coq_headers(h)).collect();
        let tip = self.tr().tip.clone();
        let tip_s = self.coq_headers(&tip);
        let slots: Vec<String> = self
            .slots_view()
            .into_iter()
            .map(|(k, t, w, s, m)| format!("(mkslot {} {} {} {} {})", k, coq_nlist(&t), coq_nlist(&w), coq_nlist(&s), m))
            .collect();
        format!("(mkts {} {} {} {} None false)", coq_list(&hs), tip_s, self.tr().height, coq_list(&slots))
    }

    /// the observation compared with the model after every step; after a panic the tracker is
    /// not looked at any more (poisoned locks): the model leaves the state alone as well
    fn coq_obs(&mut self, code: u64) -> String {
        if code != ABORT {
            self.last_view = self.coq_view();
        }
        format!("({}, {})", code, self.last_view)
    }
    fn coq_view(&mut self) -> String {
        let hdrs: Vec<Headers> = self.tr().headers.iter().cloned().collect();
        let hs: Vec<String> = hdrs
            .iter()
            .map(|h| format!("({}, {})", self.intern.hash(&h.0.block_hash()), self.intern.fh(&h.1)))
            .collect();
        let tip = self.tr().tip.clone();
        let slots: Vec<String> = self
            .slots_view()
            .into_iter()
            .map(|(k, t, w, s, m)| format!("({}, {}, {}, {}, {})", k, coq_nlist(&t), coq_nlist(&w), coq_nlist(&s), m))
            .collect();
        let height = self.tr().height;
        format!(
            "({}, ({}, {}), {}, {})",
            height,
            self.intern.hash(&tip.0.block_hash()),
            self.intern.fh(&tip.1),
            coq_list(&hs),
            coq_list(&slots)
        )
    }

    fn coq_cfg(&mut self, fx: &Fixture) -> String {
        let net = match self.network {
            Network::Regtest => "Regtest",
            Network::Testnet => "Testnet",
            _ => "Bitcoin",
        };
        let keys: Vec<PublicKey> = self.tr().trusted_oracle_pubkeys.clone();
        let trusted: Vec<u64> = keys.iter().map(|k| self.intern.key(k)).collect();
        let _ = fx;
        // the compiled-in checkpoint a restart may fast-forward to
        let ck = match lightning_signer::txoo::get_latest_checkpoint(self.network) {
            Some((height, _hash, fh, header)) => {
                let h = Headers(header, fh);
                format!("(Some ({}, {}))", self.coq_headers(&h), height)
            }
            None => "None".to_string(),
        };
        format!(
            "(mkcfg {} {} {} {} {} {})",
            net,
            coq_nlist(&trusted),
            coq_bool(self.warn),
            coq_bool(self.allow_deep),
            if cfg!(debug_assertions) { "Debug" } else { "Release" },
            ck
        )
    }

    fn forward_watches(&self) -> Vec<OutPoint> {
        let mut v: Vec<OutPoint> = self.tr().listeners.values().flat_map(|(_, s)| s.watches.iter().cloned()).collect();
        v.sort();
        v.dedup();
        v
    }
    fn reverse_watches(&self) -> Vec<OutPoint> {
        let mut v: Vec<OutPoint> = self
            .tr()
            .listeners
            .values()
            .flat_map(|(_, s)| s.watches.iter().cloned().chain(s.seen.iter().cloned()))
            .collect();
        v.sort();
        v.dedup();
        v
    }

    /// the listeners' answers to a block, computed by the real monitor code on copies of
    /// their states
    fn deltas(&mut self, fx: &Fixture, txs: &[Transaction], hash: &BlockHash, is_remove: bool) -> Option<String> {
        let mut out = vec![];
        let items: Vec<(OutPoint, lightning_signer::monitor::State)> =
            self.tr().listeners.iter().map(|(k, (l, _))| (*k, l.get_state().clone())).collect();
        for (k, st) in items {
            let ch = fx.chans.iter().find(|c| c.funding_outpoint == k).expect("listener of a fixture channel");
            let copy = ChainMonitorBase::new_from_persistence(k, st, &ch.id).as_monitor(Box::new(ch.provider.clone()));
            let r = catch_unwind(AssertUnwindSafe(|| {
                if is_remove {
                    copy.on_remove_block(txs, hash)
                } else {
                    copy.on_add_block(txs, hash)
                }
            }));
            let (adds, removes) = match r {
                Ok(x) => x,
                Err(_) => return None,
            };
            let a: Vec<u64> = adds.iter().map(|o| self.intern.outpoint(o)).collect();
            let r: Vec<u64> = removes.iter().map(|o| self.intern.outpoint(o)).collect();
            let m = self.intern.mon(&Self::mon_json(&copy));
            out.push(format!("({}, {}, {})", coq_nlist(&a), coq_nlist(&r), m));
        }
        Some(coq_list(&out))
    }

    /// monitor states after they saw the start of a streamed block
    fn mons_after_block_start(&mut self, fx: &Fixture, header: &BlockHeader) -> String {
        let mut out = vec![];
        let items: Vec<(OutPoint, lightning_signer::monitor::State)> =
            self.tr().listeners.iter().map(|(k, (l, _))| (*k, l.get_state().clone())).collect();
        for (k, st) in items {
            let ch = fx.chans.iter().find(|c| c.funding_outpoint == k).expect("listener of a fixture channel");
            let copy = ChainMonitorBase::new_from_persistence(k, st, &ch.id).as_monitor(Box::new(ch.provider.clone()));
            copy.on_push(|l| l.on_block_start(header));
            out.push(self.intern.mon(&Self::mon_json(&copy)));
        }
        coq_nlist(&out)
    }
    fn mons_now(&mut self) -> String {
        let v: Vec<u64> = self.slots_view().into_iter().map(|x| x.4).collect();
        coq_nlist(&v)
    }
}

// ------------------------------------------------------------------ request construction

#[derive(Clone, Copy, PartialEq, Debug)]
enum Flavour {
    Valid,
    ValidStreamed,
    WrongPrev,
    /// the block is streamed, then named by an AddBlock whose header does not link: refused as an orphan
    StreamedWrongPrev,
    BadPow,
    OtherBits(u8),
    ProofOtherBlock,
    ProofMissingSpend,
    /// fewer distinct trusted oracles than the quorum, but as many attestations as the quorum
    RepeatedAttestation,
    AttestWrongPrevFilter,
    AttestWrongHeight,
    BadSignature,
    NoAttestation,
    MixedFilterHeaders,
    FullBlockProof,
    ExternalWithoutStream,
    // removal only
    WrongSuppliedHeader,
    WrongSuppliedFilter,
    StreamedRemoval,
    // streaming defects
    StreamIncomplete,
    StreamOtherBlock,
}

#[derive(Clone, Copy, PartialEq, Debug)]
enum Attest {
    Quorum,
    RepeatedBelowQuorum,
    Random,
}

struct Built {
    header: BlockHeader,
    block: Block,
    proof: TxoProof,
    fh: FilterHeader,
}

/// the retarget window of the consensus rules, with the bitcoin crate's own target arithmetic:
/// within a factor 4 of the previous target (bounds rounded through the compact form, as
/// bitcoind compares them) and not above the chain maximum
fn retarget_allowed(network: Network, prev_bits: CompactTarget, bits: CompactTarget) -> bool {
    let rt = |t: Target| Target::from_compact(t.to_compact_lossy());
    let (p, t) = (Target::from_compact(prev_bits), Target::from_compact(bits));
    let params = network.params();
    let min = rt(p.min_transition_threshold());
    let max = rt(p.max_transition_threshold(params));
    t <= params.max_attainable_target && t >= min && t <= max
}

fn shifted_bits(bits: CompactTarget, kind: u8) -> CompactTarget {
    let t = Target::from_compact(bits);
    let mut b = t.to_be_bytes();
    let mut hi = u128::from_be_bytes(b[0..16].try_into().unwrap());
    match kind {
        0 => hi >>= 1,
        1 => hi >>= 2,
        2 => hi >>= 3,
        3 => hi <<= 1,
        4 => hi <<= 2,
        5 => hi <<= 3,
        6 => hi = (hi >> 2) - (hi >> 20), // just below a quarter
        7 => hi = (hi >> 2) + (hi >> 20),
        8 => hi = hi - (hi >> 12),
        // one unit in the last place of the compact form beyond the factor-4 bounds
        9 | 10 => {
            if kind == 9 {
                hi <<= 2
            } else {
                hi >>= 2
            }
            b[0..16].copy_from_slice(&hi.to_be_bytes());
            let size = Target::from_be_bytes(b).to_compact_lossy().to_consensus() >> 24;
            let shift = 8 * (size.saturating_sub(3));
            if shift >= 128 && shift < 256 {
                let ulp = 1u128 << (shift - 128);
                hi = if kind == 9 { hi.saturating_add(ulp) } else { hi.saturating_sub(ulp) };
            }
        }
        11 => hi <<= 4,
        // far below the parent (start states well below the chain maximum)
        12 => hi >>= 5,
        13 => hi >>= 6,
        14 => hi >>= 8,
        _ => hi >>= 10,
    }
    b[0..16].copy_from_slice(&hi.to_be_bytes());
    Target::from_be_bytes(b).to_compact_lossy()
}

impl Case {
    fn next_salt(&mut self) -> u32 {
        self.salt += 1;
        self.salt
    }

    /// the transactions of the next block and the stage changes they make
    fn next_txs(&mut self, fx: &Fixture, rng: &mut Rng) -> (Vec<Transaction>, Vec<(usize, Stage)>) {
        let mut txs = vec![coinbase(self.next_salt())];
        let mut changes = vec![];
        for i in 0..fx.chans.len() {
            if !self.registered[i] {
                continue;
            }
            match self.stage[i] {
                Stage::Unfunded if rng.chance(1, 2) => {
                    txs.push(fx.chans[i].funding_tx.clone());
                    changes.push((i, Stage::Unfunded));
                    self.stage[i] = Stage::Funded;
                }
                Stage::Funded if rng.chance(1, 3) => {
                    txs.push(spend(fx.chans[i].funding_outpoint, 2_999_000 + self.next_salt() as u64));
                    changes.push((i, Stage::Funded));
                    self.stage[i] = Stage::Closed;
                }
                _ => {}
            }
        }
        if rng.chance(1, 4) {
            let s = self.next_salt();
            txs.push(spend(OutPoint { txid: Txid::from_byte_array([0x55; 32]), vout: s }, s as u64));
        }
        (txs, changes)
    }

    /// who signs the attestations of a proof (indices into the fixture's oracles, in order,
    /// repeats allowed: txoo verifies every attestation by itself and accepts duplicates)
    fn attesters_for(&self, fx: &Fixture, rng: &mut Rng, mode: Attest) -> Vec<usize> {
        let mut distinct_trusted = self.trusted.clone();
        distinct_trusted.sort();
        distinct_trusted.dedup();
        let quorum = (self.trusted.len() + 1) / 2; // in entries of the trusted list
        let untrusted = |rng: &mut Rng| 5 + rng.below(3) as usize;
        let mut v: Vec<usize> = vec![];
        match mode {
            Attest::Quorum => {
                // all trusted oracles, or just enough of them
                let mut pool = distinct_trusted.clone();
                if rng.chance(1, 2) && self.trusted.len() == distinct_trusted.len() {
                    while pool.len() > quorum.max(1) {
                        let i = rng.below(pool.len() as u64) as usize;
                        pool.remove(i);
                    }
                }
                v = pool;
                if v.is_empty() || rng.chance(1, 4) {
                    v.push(untrusted(rng));
                }
                if rng.chance(1, 5) {
                    let again = v[rng.below(v.len() as u64) as usize];
                    v.push(again);
                }
            }
            Attest::RepeatedBelowQuorum => {
                // one distinct trusted oracle fewer than the quorum, the attestation of one of them
                // (or of an untrusted oracle) repeated until the *number of attestations* reaches it
                let mut pool = distinct_trusted.clone();
                while pool.len() + 1 > quorum && !pool.is_empty() {
                    let i = rng.below(pool.len() as u64) as usize;
                    pool.remove(i);
                }
                v = pool;
                let filler = if v.is_empty() { untrusted(rng) } else { v[rng.below(v.len() as u64) as usize] };
                while v.len() < quorum.max(2) + rng.below(2) as usize {
                    v.push(filler);
                }
                if rng.chance(1, 3) {
                    v.push(untrusted(rng));
                }
            }
            Attest::Random => {
                let n = 1 + rng.below(5) as usize;
                v = (0..n).map(|_| rng.below(fx.oracles.len() as u64) as usize).collect();
            }
        }
        // the order of the attestations must not matter
        for i in (1..v.len()).rev() {
            let j = rng.below(i as u64 + 1) as usize;
            v.swap(i, j);
        }
        v
    }

    /// build the add_block request of the given flavour on top of the current tip
    fn build_add(&mut self, fx: &Fixture, rng: &mut Rng, fl: Flavour) -> (Built, Vec<(usize, Stage)>) {
        // built from the harness's own record of the chain and height, never from the tracker: a
        // tracker that went astray still gets the request that is correct for the real chain
        let (tip_block, tip_fh) = self.chain.last().cloned().unwrap();
        let tip = Headers(tip_block.header, tip_fh);
        let height = self.ghost_height.wrapping_add(1);
        let (txs, changes) = self.next_txs(fx, rng);
        let prev_hash = match fl {
            Flavour::WrongPrev | Flavour::StreamedWrongPrev => {
                if self.chain.len() >= 2 && rng.chance(1, 2) {
                    self.chain[self.chain.len() - 2].0.block_hash()
                } else {
                    BlockHash::from_byte_array(rng.bytes32())
                }
            }
            _ => tip.0.block_hash(),
        };
        let bits = match fl {
            Flavour::OtherBits(k) => shifted_bits(tip.0.bits, k),
            _ => tip.0.bits,
        };
        let time = tip.0.time.wrapping_add(rng.below(3000) as u32);
        let header = mine(prev_hash, merkle_root(&txs), bits, time, fl != Flavour::BadPow);
        let block = Block { header, txdata: txs };
        let fh = filter_header_of(&block, &tip.1);
        let all_txids: Vec<Txid> = block.txdata.iter().map(|t| t.compute_txid()).collect();
        let ptype = match fl {
            Flavour::ProofOtherBlock => {
                let other_txs = vec![coinbase(self.next_salt())];
                let oh = mine(tip.0.block_hash(), merkle_root(&other_txs), tip.0.bits, time, true);
                let other = Block { header: oh, txdata: other_txs };
                let ids: Vec<Txid> = other.txdata.iter().map(|t| t.compute_txid()).collect();
                compact_proof(&other, &ids, &[])
            }
            Flavour::ProofMissingSpend => compact_proof(&block, &all_txids[0..1], &[]),
            Flavour::FullBlockProof => ProofType::Block(block.clone()),
            Flavour::ValidStreamed | Flavour::StreamedWrongPrev | Flavour::ExternalWithoutStream | Flavour::StreamIncomplete | Flavour::StreamOtherBlock => ProofType::ExternalBlock(),
            _ => compact_proof(&block, &all_txids, &[]),
        };
        let mode = match fl {
            // other bits with an otherwise correct proof: the difficulty rule alone decides
            Flavour::Valid | Flavour::ValidStreamed | Flavour::OtherBits(_) => Attest::Quorum,
            Flavour::RepeatedAttestation => Attest::RepeatedBelowQuorum,
            _ => *rng.pick(&[Attest::Quorum, Attest::Quorum, Attest::Random, Attest::RepeatedBelowQuorum]),
        };
        let who = self.attesters_for(fx, rng, mode);
        let att_fh = match fl {
            Flavour::AttestWrongPrevFilter => filter_header_of(&block, &FilterHeader::from_byte_array([7u8; 32])),
            _ => fh,
        };
        let att_height = if fl == Flavour::AttestWrongHeight { height.wrapping_add(1) } else { height };
        let mut attestations = vec![];
        for (n, i) in who.iter().enumerate() {
            let signer = if fl == Flavour::BadSignature && n == 0 { &fx.oracles[(*i + 1) % fx.oracles.len()] } else { &fx.oracles[*i] };
            let this_fh = if fl == Flavour::MixedFilterHeaders && n == 1 { FilterHeader::from_byte_array([9u8; 32]) } else { att_fh };
            attestations.push(attest(signer, &fx.oracles[*i].pubkey, header.block_hash(), att_height, this_fh));
        }
        if fl == Flavour::MixedFilterHeaders && attestations.len() < 2 {
            let i = (who[0] + 1) % fx.oracles.len();
            attestations.push(attest(&fx.oracles[i], &fx.oracles[i].pubkey, header.block_hash(), att_height, FilterHeader::from_byte_array([9u8; 32])));
        }
        if fl == Flavour::NoAttestation {
            attestations.clear();
        }
        (Built { header, block, proof: TxoProof { attestations, proof: ptype }, fh }, changes)
    }

    /// build the remove_block request of the given flavour for the current tip
    fn build_remove(&mut self, fx: &Fixture, rng: &mut Rng, fl: Flavour) -> Option<(Headers, TxoProof, Block)> {
        if self.chain.len() < 2 {
            return None;
        }
        let (tip_block, _) = self.chain[self.chain.len() - 1].clone();
        let (prev_block, prev_fh) = self.chain[self.chain.len() - 2].clone();
        // the harness's own record of the chain, never the tracker's window
        let mut prev = Headers(prev_block.header, prev_fh);
        match fl {
            Flavour::WrongSuppliedHeader => {
                let txs = vec![coinbase(self.next_salt())];
                prev.0 = mine(prev.0.prev_blockhash, merkle_root(&txs), prev.0.bits, prev.0.time, true);
            }
            Flavour::WrongSuppliedFilter => prev.1 = FilterHeader::from_byte_array([0x33; 32]),
            _ => {}
        }
        let height = self.ghost_height;
        let fh = filter_header_of(&tip_block, &prev.1);
        let all_txids: Vec<Txid> = tip_block.txdata.iter().map(|t| t.compute_txid()).collect();
        let ptype = match fl {
            Flavour::ProofOtherBlock => {
                let ids: Vec<Txid> = prev_block.txdata.iter().map(|t| t.compute_txid()).collect();
                compact_proof(&prev_block, &ids, &[])
            }
            Flavour::ProofMissingSpend => compact_proof(&tip_block, &all_txids[0..1], &[]),
            Flavour::FullBlockProof => ProofType::Block(tip_block.clone()),
            Flavour::StreamedRemoval | Flavour::ExternalWithoutStream => ProofType::ExternalBlock(),
            _ => compact_proof(&tip_block, &all_txids, &[]),
        };
        let mode = match fl {
            Flavour::Valid | Flavour::StreamedRemoval => Attest::Quorum,
            Flavour::RepeatedAttestation => Attest::RepeatedBelowQuorum,
            _ => *rng.pick(&[Attest::Quorum, Attest::Quorum, Attest::Random, Attest::RepeatedBelowQuorum]),
        };
        let who = self.attesters_for(fx, rng, mode);
        let att_fh = if fl == Flavour::AttestWrongPrevFilter { filter_header_of(&tip_block, &FilterHeader::from_byte_array([7u8; 32])) } else { fh };
        let att_height = if fl == Flavour::AttestWrongHeight { height.wrapping_sub(1) } else { height };
        let mut attestations = vec![];
        for (n, i) in who.iter().enumerate() {
            let signer = if fl == Flavour::BadSignature && n == 0 { &fx.oracles[(*i + 1) % fx.oracles.len()] } else { &fx.oracles[*i] };
            attestations.push(attest(signer, &fx.oracles[*i].pubkey, tip_block.block_hash(), att_height, att_fh));
        }
        if fl == Flavour::NoAttestation {
            attestations.clear();
        }
        Some((prev, TxoProof { attestations, proof: ptype }, tip_block))
    }

    fn coq_proof(&mut self, fx: &Fixture, proof: &TxoProof, header_for_verify: &BlockHeader, exp_height: u32, ext_hash: &BlockHash, prev_fh: &FilterHeader, block: &Block, notify_hash: &BlockHash, is_remove: bool) -> (String, bool) {
        let secp = Secp256k1::new();
        let ext = if proof.proof.is_external() { Some(ext_hash) } else { None };
        let fwd = self.forward_watches();
        let rev = self.reverse_watches();
        let pok_fwd = proof.verify(exp_height, header_for_verify, ext, prev_fh, &fwd, &secp).is_ok();
        let pok_rev = proof.verify(exp_height, header_for_verify, ext, prev_fh, &rev, &secp).is_ok();
        let mut no_panic = true;
        let pfh = match catch_unwind(AssertUnwindSafe(|| proof.filter_header())) {
            Ok(f) => format!("(Some {})", self.intern.fh(&f)),
            Err(_) => {
                no_panic = is_remove; // remove_block never asks for it
                "None".to_string()
            }
        };
        let att: Vec<u64> = proof.attestations.iter().map(|(k, _)| self.intern.key(k)).collect();
        let (pty, txs): (&str, Vec<Transaction>) = match &proof.proof {
            ProofType::Filter(_, spv) => ("PFilter", spv.txs.clone()),
            ProofType::Block(_) => ("PBlock", vec![]),
            ProofType::ExternalBlock() => ("PExternal", block.txdata.clone()),
        };
        let deltas = match self.deltas(fx, &txs, notify_hash, is_remove) {
            Some(d) => format!("(Some {})", d),
            None => {
                no_panic = false;
                "None".to_string()
            }
        };
        (format!("(mkproof {} {} {} {} {} {})", pty, pfh, coq_bool(pok_fwd), coq_bool(pok_rev), coq_nlist(&att), deltas), no_panic)
    }
}

// ------------------------------------------------------------------ running requests against the real tracker

struct StepOut {
    coq_req: String,
    coq_obs: String,
    code: u64,
    what: String,
    atomic_violation: Option<Value>,
    invalid_accepted: Option<Value>,
    store_violation: Option<Value>,
    restart_violation: Option<Value>,
    /// which decision points of the code this request sat on (coverage counters)
    tags: Vec<String>,
    /// the harness's own judgement that this request is correct in every respect it can
    /// decide without the model (used by the later-request monitor)
    expected_ok: bool,
}

impl Case {
    fn finish_step(&mut self, coq_req: String, what: String, code: u64, pre: &Value, validity: Option<(bool, String)>, expected_ok: bool) -> StepOut {
        let post = if code == ABORT { pre.clone() } else { entry_json(&self.tr()) };
        let mut atomic_violation = None;
        if (1..=6).contains(&code) && post != *pre {
            atomic_violation = Some(json!({"request": what, "result": code_name(code), "changed": diff_entries(pre, &post)}));
        }
        let mut invalid_accepted = None;
        if code != ABORT {
            let n = self.tr().headers.len();
            if n > Tracker::MAX_REORG_SIZE {
                invalid_accepted = Some(json!({"request": what, "remembered_headers": n, "MAX_REORG_SIZE": Tracker::MAX_REORG_SIZE}));
            }
        }
        if code == 0 && invalid_accepted.is_none() {
            if let Some((ok, why)) = validity.clone() {
                if !ok {
                    invalid_accepted = Some(json!({"request": what, "accepted_although": why}));
                }
            }
        }
        // behind the handler: an acknowledged block is in the store, anything else left it alone
        let mut store_violation = None;
        if self.hctx.is_some() {
            // every key / version / value of the store: a request that was not acknowledged as a
            // block (a refusal - the orphan answer is one, although it travels in an Ok reply -,
            // a panic, a chunk) must not write at all, not even the same value again
            let dump = store_dump(&self.hctx.as_ref().unwrap().world.persister);
            if !(code == 0 && validity.is_some()) && dump != self.last_dump {
                let changed: Vec<Value> = dump
                    .iter()
                    .filter_map(|(k, ver, val)| match self.last_dump.iter().find(|(k0, _, _)| k0 == k) {
                        Some((_, v0, val0)) if v0 == ver && val0 == val => None,
                        Some((_, v0, val0)) => Some(json!({"key": k, "version_before": v0, "version_after": ver, "value_changed": val0 != val})),
                        None => Some(json!({"key": k, "new": true})),
                    })
                    .collect();
                let v = json!({"request": what, "result": code_name(code), "store_written_by_a_request_that_was_not_acknowledged": changed});
                if (1..=6).contains(&code) && atomic_violation.is_none() {
                    atomic_violation = Some(v.clone());
                }
                store_violation = Some(v);
            }
            self.last_dump = dump;
        }
        if self.hctx.is_some() && store_violation.is_none() {
            let stored = self.stored_entry();
            if code == 0 && validity.is_some() {
                if stored.as_ref() != Some(&post) {
                    store_violation = Some(json!({"request": what, "acknowledged_but_store_differs_from_memory": true}));
                }
            } else if stored != self.last_store {
                store_violation = Some(json!({"request": what, "result": code_name(code), "store_changed_without_acknowledgement": true}));
            }
            self.last_store = stored;
        }
        let coq_obs = self.coq_obs(code);
        StepOut { coq_req, coq_obs, code, what, atomic_violation, invalid_accepted, store_violation, restart_violation: None, tags: vec![], expected_ok }
    }

    /// add_block with a compact, full-block or external proof (the stream, if any, was sent before)
    fn do_add(&mut self, fx: &Fixture, b: &Built, changes: Vec<(usize, Stage)>, what: String) -> StepOut {
        let pre = entry_json(&self.tr());
        let tip = self.tr().tip.clone();
        let exp_height = self.tr().height.wrapping_add(1);
        let hash = b.header.block_hash();
        let (cp, no_panic) = self.coq_proof(fx, &b.proof, &b.header, exp_height, &hash, &tip.1, &b.block, &hash, false);
        let coq_req = format!("(Add {} {})", self.coq_hdr(&b.header), cp);
        // the property itself, on the implementation's answer
        let secp = Secp256k1::new();
        let ext = if b.proof.proof.is_external() { Some(&hash) } else { None };
        let link = b.header.prev_blockhash == tip.0.block_hash();
        let pow = pow_ok(&b.header);
        let bypass = tip.1.to_byte_array().iter().all(|x| *x == 0);
        let fwd = self.forward_watches();
        let pok = b.proof.verify(exp_height, &b.header, ext, &tip.1, &fwd, &secp).is_ok();
        let trusted = self.tr().trusted_oracle_pubkeys.clone();
        // independent of how often an oracle's attestation is repeated: the set of attesting keys
        let attesting: std::collections::BTreeSet<PublicKey> = b.proof.attestations.iter().map(|(a, _)| *a).collect();
        let matching = trusted.iter().filter(|k| attesting.contains(*k)).count();
        let half = 2 * matching >= trusted.len();
        let equal_bits_rule = if exp_height % 2016 == 0 {
            retarget_allowed(self.network, tip.0.bits, b.header.bits)
        } else {
            self.network == Network::Testnet || b.header.bits == tip.0.bits
        };
        let valid = link && pow && equal_bits_rule && (bypass || self.warn || (pok && half));
        let why = format!("link={} pow={} difficulty_rule={} bypass={} warn={} proof_ok={} distinct_trusted_attesting={}/{}", link, pow, equal_bits_rule, bypass, self.warn, pok, matching, trusted.len());
        // "correct in every respect": same bits (which also passes the retarget window on regtest)
        let bits_surely_ok = if exp_height % 2016 == 0 { self.network == Network::Regtest && b.header.bits == tip.0.bits } else { self.network == Network::Testnet || b.header.bits == tip.0.bits };
        let stream_ok = match (&b.proof.proof, &self.stream) {
            (ProofType::ExternalBlock(), Some((h, complete))) => *complete && *h == hash,
            (ProofType::Filter(_, _), None) => true,
            _ => false,
        };
        let expected_ok = valid && bits_surely_ok && stream_ok && no_panic && self.tr().height < u32::MAX;

        let window_before = self.tr().headers.len();
        let code = self.call_add(b.header, b.proof.clone());
        if code == 0 {
            self.chain.push((b.block.clone(), b.fh));
            self.ghost_height = self.ghost_height.wrapping_add(1);
            self.undo.push(changes);
        } else {
            for (i, st) in changes {
                self.stage[i] = st;
            }
        }
        if b.proof.proof.is_external() && code != ABORT {
            self.stream = None;
        }
        let mut o = self.finish_step(coq_req, what, code, &pre, Some((valid, why)), expected_ok);
        if exp_height % 2016 == 0 {
            o.tags.push(format!("add at a retarget height, bits {}: {}", if b.header.bits == tip.0.bits { "equal" } else { "changed" }, code_name(code)));
            let (p, t) = (Target::from_compact(tip.0.bits), Target::from_compact(b.header.bits));
            let chain_max = self.network.params().max_attainable_target;
            if t > p.max_transition_threshold_unchecked() && t <= chain_max {
                o.tags.push(format!("add at a retarget height easing by more than 4 below the chain maximum: {}", code_name(code)));
            } else if t < p.min_transition_threshold() {
                o.tags.push(format!("add at a retarget height tightening by more than 4: {}", code_name(code)));
            } else if t != p && t <= chain_max {
                o.tags.push(format!("add at a retarget height within the factor-4 window: {}", code_name(code)));
            }
        } else if b.header.bits != tip.0.bits {
            o.tags.push(format!("add off the retarget height with other bits ({:?}): {}", self.network, code_name(code)));
        }
        if window_before >= 99 && code == 0 {
            o.tags.push(format!("accepted add with {} remembered headers -> {}", window_before, self.tr().headers.len()));
        }
        if bypass && code == 0 && !(pok && half) {
            o.tags.push("add accepted through the all-zero filter header bypass".into());
        }
        o
    }

    fn do_remove(&mut self, fx: &Fixture, prev: &Headers, proof: &TxoProof, tip_block: &Block, what: String) -> StepOut {
        let pre = entry_json(&self.tr());
        let tip = self.tr().tip.clone();
        let exp_height = self.tr().height;
        let prev_hash = prev.0.block_hash();
        let (cp, no_panic) = self.coq_proof(fx, proof, &tip.0, exp_height, &prev_hash, &prev.1, tip_block, &prev_hash, true);
        let coq_req = format!("(Remove {} {})", self.coq_headers(prev), cp);
        let secp = Secp256k1::new();
        let ext = if proof.proof.is_external() { Some(&prev_hash) } else { None };
        let link = tip.0.prev_blockhash == prev_hash;
        let pow = pow_ok(&tip.0);
        let bypass = prev.1.to_byte_array().iter().all(|x| *x == 0);
        let rev = self.reverse_watches();
        let pok = proof.verify(exp_height, &tip.0, ext, &prev.1, &rev, &secp).is_ok();
        let trusted = self.tr().trusted_oracle_pubkeys.clone();
        let attesting: std::collections::BTreeSet<PublicKey> = proof.attestations.iter().map(|(a, _)| *a).collect();
        let matching = trusted.iter().filter(|k| attesting.contains(*k)).count();
        let half = 2 * matching >= trusted.len();
        let remembered = self.tr().headers.front().map(|h| h.0 == prev.0 && h.1 == prev.1).unwrap_or(self.allow_deep);
        let difficulty = if exp_height % 2016 == 0 {
            retarget_allowed(self.network, prev.0.bits, tip.0.bits)
        } else {
            self.network == Network::Testnet || tip.0.bits == prev.0.bits
        };
        let valid = link && pow && difficulty && remembered && (bypass || self.warn || (pok && half));
        let why = format!("link={} pow={} difficulty_rule={} matches_remembered_header={} bypass={} warn={} proof_ok={} distinct_trusted_attesting={}/{}", link, pow, difficulty, remembered, bypass, self.warn, pok, matching, trusted.len());

        let bits_surely_ok = if exp_height % 2016 == 0 { self.network == Network::Regtest && tip.0.bits == prev.0.bits } else { self.network == Network::Testnet || tip.0.bits == prev.0.bits };
        let stream_ok = match (&proof.proof, &self.stream) {
            (ProofType::ExternalBlock(), Some((h, complete))) => *complete && *h == prev_hash,
            (ProofType::Filter(_, _), None) => true,
            _ => false,
        };
        let expected_ok = valid && bits_surely_ok && stream_ok && no_panic && self.tr().height > 0;
        let window_before = self.tr().headers.len();
        let code = self.call_remove(proof.clone(), prev.clone());
        if code == 0 {
            self.chain.pop();
            self.ghost_height = self.ghost_height.wrapping_sub(1);
            if let Some(changes) = self.undo.pop() {
                for (i, st) in changes {
                    self.stage[i] = st;
                }
            }
        }
        if proof.proof.is_external() && code != ABORT {
            self.stream = None;
        }
        let mut o = self.finish_step(coq_req, what, code, &pre, Some((valid, why)), expected_ok);
        if window_before == 0 {
            o.tags.push(format!("remove below the remembered window (deep reorgs {}): {}", if self.allow_deep { "allowed" } else { "refused" }, code_name(code)));
        }
        if exp_height % 2016 == 0 {
            o.tags.push(format!("remove of a retarget-height block: {}", code_name(code)));
        }
        if bypass && code == 0 && !(pok && half) {
            o.tags.push("remove accepted through the all-zero filter header bypass".into());
        }
        o
    }

    /// the signer restarts: a new node and handler from the store alone
    fn do_restart(&mut self) -> StepOut {
        let pre_mem = entry_json(&self.tr());
        let stored_before = self.stored_entry();
        // the monitor states the store holds
        let mons: Vec<u64> = match &stored_before {
            Some(e) => e["listeners"].as_array().map(|a| a.iter().map(|l| self.intern.mon(&l[1][0])).collect()).unwrap_or_default(),
            None => vec![],
        };
        let coq_req = format!("(Restart {})", coq_nlist(&mons));
        let (network, trusted) = { let h = self.hctx.as_ref().unwrap(); (h.network, h.trusted.clone()) };
        let booted = {
            let h = self.hctx.as_ref().unwrap();
            catch_unwind(AssertUnwindSafe(|| HandlerCtx::boot(&h.world, network, &trusted)))
        };
        let code = match booted {
            Ok((node, handler)) => {
                let h = self.hctx.as_mut().unwrap();
                h.node = node;
                h.handler = handler;
                0
            }
            Err(_) => ABORT,
        };
        self.stream = None;
        let mut o = self.finish_step(coq_req, "restart".into(), code, &pre_mem, None, false);
        o.store_violation = None; // judged here, not by the request rules
        if code == 0 {
            // the property itself: the restarted tracker is the stored one (the only documented
            // exception: height 0 on a network with a checkpoint), and the store is not rewritten
            let mem = entry_json(&self.tr());
            let stored_after = self.stored_entry();
            let fast_forward = pre_mem["height"] == json!(0) && lightning_signer::txoo::get_latest_checkpoint(network).is_some();
            if let Some(before) = &stored_before {
                if !fast_forward && mem != *before {
                    o.restart_violation = Some(json!({"restart_changed_the_tracker": diff_entries(before, &mem),
                        "stored_height": before["height"], "height_after_restart": mem["height"]}));
                }
            }
            if stored_after != stored_before && !fast_forward {
                o.restart_violation = Some(json!({"restart_rewrote_the_stored_tracker": true}));
            }
            self.last_store = stored_after;
            self.last_dump = store_dump(&self.hctx.as_ref().unwrap().world.persister);
            if fast_forward {
                o.tags.push("restart at height 0 fast-forwards to the checkpoint".into());
            } else {
                o.tags.push(format!("restart at height {} on {:?}: nothing moves", if pre_mem["height"] == json!(0) { "0" } else { ">0" }, network));
            }
        }
        o
    }

    /// one BlockChunk
    fn do_chunk(&mut self, fx: &Fixture, block: &Block, hash: BlockHash, offset: u32, bytes: &[u8], first: bool, wellformed: bool, complete: bool, what: String) -> StepOut {
        let pre = entry_json(&self.tr());
        let mons = if first { self.mons_after_block_start(fx, &block.header) } else { self.mons_now() };
        let coq_req = format!("(Chunk {} {} {} {} {})", self.intern.hash(&hash), coq_bool(first), coq_bool(wellformed), coq_bool(complete), mons);
        let code = self.call_chunk(hash, offset, bytes);
        if code == 0 {
            self.stream = Some((hash, complete));
        }
        self.finish_step(coq_req, what, code, &pre, None, false)
    }
}

/// which persisted fields a refused request changed
fn diff_entries(pre: &Value, post: &Value) -> Value {
    let mut out = serde_json::Map::new();
    for f in ["height", "tip", "network", "listeners"] {
        if pre[f] != post[f] {
            out.insert(f.to_string(), json!({"before": pre[f], "after": post[f]}));
        }
    }
    if pre["headers"] != post["headers"] {
        let (a, b) = (pre["headers"].as_array().unwrap(), post["headers"].as_array().unwrap());
        let short = |v: Option<&Value>| v.and_then(|x| x.as_str()).map(|x| x[..x.len().min(24)].to_string());
        out.insert("headers".into(), json!({"remembered_before": a.len(), "remembered_after": b.len(),
            "first_before": short(a.first()), "first_after": short(b.first())}));
    }
    Value::Object(out)
}

// ------------------------------------------------------------------ case set-up

struct Start {
    network: Network,
    trusted: Vec<usize>,
    warn: bool,
    /// which policy filter ([policy_filter]); `warn` is what it does to policy-chain-validated
    filter: u8,
    allow_deep: bool,
    window: usize,
    height: u32,
    tip_bits_kind: Option<u8>,
    /// bits of the tip's parent relative to the pool's regtest bits ([shifted_bits] kind)
    prev_bits_kind: Option<u8>,
    tip_fh_zero: bool,
    prev_fh_zero: bool,
    listeners: Vec<bool>,
}

fn new_case(fx: &Fixture, st: &Start, salt0: u32) -> Case {
    new_case_on(fx, st, salt0, false)
}

fn hsmd_init_message(network: Network) -> Message {
    Message::HsmdInit(msgs::HsmdInit {
        key_version: vls_protocol::model::Bip32KeyVersion { pubkey_version: 0x0488b21e, privkey_version: 0x0488ade4 },
        chain_params: genesis_block(network).block_hash(),
        encryption_key: None,
        dev_privkey: None,
        dev_bip32_seed: None,
        dev_channel_secrets: None,
        dev_channel_secrets_shaseed: None,
        hsm_wire_min_version: msgs::MIN_PROTOCOL_VERSION,
        hsm_wire_max_version: msgs::DEFAULT_MAX_PROTOCOL_VERSION,
    })
}

fn new_case_on(fx: &Fixture, st: &Start, salt0: u32, via_handler: bool) -> Case {
    // tip = pool[window + BASE] (or a re-mined variant with other bits), remembered = the `window`
    // blocks below it; the harness knows BASE more blocks below the window, so that it can ask
    // for removals deeper than the tracker remembers
    const BASE: usize = 3;
    let nwin = st.window;
    let w = st.window + BASE;
    let mut chain: Vec<(Block, FilterHeader)> = fx.pool[0..=w].to_vec();
    if let Some(k) = st.prev_bits_kind {
        // the parent of the tip gets a target far below the chain maximum (a restored tracker is
        // not re-validated), so that a retarget has room to ease by more than a factor 4
        let (pp, pp_fh) = chain[w - 2].clone();
        let txs = vec![coinbase(800_000 + salt0)];
        let header = mine(pp.block_hash(), merkle_root(&txs), shifted_bits(pp.header.bits, k), pp.header.time + 1, true);
        let block = Block { header, txdata: txs };
        let fh = filter_header_of(&block, &pp_fh);
        chain[w - 1] = (block, fh);
    }
    if st.prev_fh_zero {
        chain[w - 1].1 = FilterHeader::all_zeros();
    }
    if st.tip_bits_kind.is_some() || st.prev_bits_kind.is_some() {
        if w > 0 {
            let (prev, prev_fh) = chain[w - 1].clone();
            let txs = vec![coinbase(900_000 + salt0)];
            let bits = match st.tip_bits_kind {
                Some(k) => shifted_bits(prev.header.bits, k),
                None => prev.header.bits,
            };
            let header = mine(prev.block_hash(), merkle_root(&txs), bits, prev.header.time + 1, true);
            let block = Block { header, txdata: txs };
            let fh = filter_header_of(&block, &prev_fh);
            chain[w] = (block, fh);
        }
    }
    if st.tip_fh_zero {
        chain[w].1 = FilterHeader::all_zeros();
    }
    let tip = Headers(chain[w].0.header, chain[w].1);
    let headers: std::collections::VecDeque<Headers> = (w - nwin..w).rev().map(|i| Headers(chain[i].0.header, chain[i].1)).collect();
    let trusted: Vec<PublicKey> = st.trusted.iter().map(|i| fx.oracles[*i].pubkey).collect();
    let (own, hctx) = if via_handler {
        // a signer behind the wire protocol, its tracker put into the start state and persisted
        let mut policy = World::default_policy();
        policy.filter = policy_filter(st.filter).0;
        let mut seed = [0xc1u8; 32];
        seed[1..5].copy_from_slice(&salt0.to_le_bytes());
        let world = World::new_on(st.network, policy, seed, KeyDerivationStyle::Native);
        let (node, handler) = HandlerCtx::boot(&world, st.network, &trusted);
        let trusted_keys = trusted.clone();
        {
            let mut t = node.get_tracker();
            t.headers = headers;
            t.tip = tip;
            t.height = st.height;
            t.network = st.network;
            t.trusted_oracle_pubkeys = trusted;
            t.set_allow_deep_reorgs(st.allow_deep);
        }
        for (i, reg) in st.listeners.iter().enumerate() {
            if *reg {
                let mut setup: ChannelSetup = make_test_channel_setup();
                setup.funding_outpoint = fx.chans[i].funding_outpoint;
                let (id, _) = node.new_channel(1 + i as u64, &[2u8; 33], &node).expect("new_channel");
                node.setup_channel(id, None, setup, &DerivationPath::master()).expect("setup_channel");
            }
        }
        world.persister.update_tracker(&node.get_id(), &node.get_tracker()).expect("persist start state");
        (None, Some(HandlerCtx { world, node, handler, network: st.network, trusted: trusted_keys }))
    } else {
        let mut tracker: Tracker = ChainTracker::restore(
            headers,
            tip,
            st.height,
            st.network,
            Default::default(),
            fx.node_id,
            validator_factory(st.filter),
            trusted,
        );
        tracker.set_allow_deep_reorgs(st.allow_deep);
        for (i, reg) in st.listeners.iter().enumerate() {
            if *reg {
                let ch = &fx.chans[i];
                let base = ChainMonitorBase::new(ch.funding_outpoint, st.height, &ch.id);
                base.add_funding_outpoint(&ch.funding_outpoint);
                let mut tw = lightning_signer::OrderedSet::new();
                tw.insert(ch.funding_outpoint.txid);
                tracker.add_listener(base.as_monitor(Box::new(ch.provider.clone())), tw);
            }
        }
        (Some(tracker), None)
    };
    Case {
        own,
        hctx,
        chain,
        registered: st.listeners.clone(),
        stage: vec![Stage::Unfunded; fx.chans.len()],
        undo: vec![],
        network: st.network,
        trusted: st.trusted.clone(),
        warn: st.warn,
        allow_deep: st.allow_deep,
        salt: salt0 * 1000,
        intern: Intern::default(),
        stream: None,
        last_view: String::new(),
        last_store: None,
        last_dump: vec![],
        ghost_height: st.height,
    }
}

fn gen_start(rng: &mut Rng, max_window: usize) -> Start {
    let window = match rng.below(12) {
        0 => 0,
        1 => 1,
        2 | 3 => 2,
        4 | 5 => 3,
        6 => 5,
        7 => max_window.min(98),
        8 => max_window.min(99),
        9 => max_window.min(100),
        _ => 1 + rng.below(4) as usize,
    };
    let height = match rng.below(12) {
        0 => window as u32,
        1 => 2013,
        2 => 2014,
        3 => 2015,
        4 => 2016,
        5 => 4031,
        6 => u32::MAX - 1,
        7 => u32::MAX,
        8 => 0,
        9 => 2014,
        _ => window as u32 + rng.below(50) as u32,
    };
    // a share of the cases sits right at a retarget with targets far below the chain maximum: the
    // tip (or, for removals of a first-of-period block, its parent) is 2^5..2^10 below it, and the
    // tip of a height-k*2016 start is eased / tightened against its parent by up to 16 / 8
    let mut tip_bits_kind = if rng.chance(1, 3) { Some(*rng.pick(&[0u8, 1, 1, 2])) } else { None };
    let mut prev_bits_kind = None;
    let mut height = height;
    if rng.chance(1, 5) {
        let k = 1 + rng.below(3) as u32;
        if rng.chance(2, 3) {
            height = k * 2016 - 1; // the next block is the first of a period
            tip_bits_kind = Some(*rng.pick(&[12u8, 13, 14, 15]));
        } else {
            height = k * 2016; // the tip is the first of a period
            prev_bits_kind = Some(*rng.pick(&[12u8, 13, 14, 15]));
            tip_bits_kind = Some(*rng.pick(&[4u8, 4, 5, 9, 1, 2, 10, 11, 3, 0]));
        }
    }
    // default filter, plain warn rule, and filters where an earlier rule shadows a later one
    let filter = *rng.pick(&[0u8, 0, 0, 0, 0, 1, 1, 2, 2, 2, 3, 3, 3, 4, 4, 5]);
    let ntrusted = *rng.pick(&[0usize, 1, 1, 2, 2, 3, 3, 3, 4, 4, 5, 5]);
    let mut trusted: Vec<usize> = (0..5).collect();
    while trusted.len() > ntrusted {
        let i = rng.below(trusted.len() as u64) as usize;
        trusted.remove(i);
    }
    if ntrusted == 2 && rng.chance(1, 6) {
        trusted[1] = trusted[0]; // a duplicated trusted key
    }
    let mut listeners = vec![rng.chance(2, 3), rng.chance(1, 3)];
    if height >= u32::MAX - 16 {
        // the channel monitors have their own height arithmetic (C14's subject): the u32 edge
        // is exercised on the tracker alone
        listeners = vec![false, false];
    }
    Start {
        network: if rng.chance(1, 6) { Network::Testnet } else { Network::Regtest },
        trusted,
        warn: policy_filter(filter).1,
        filter,
        allow_deep: rng.chance(1, 4),
        window,
        height,
        tip_bits_kind,
        prev_bits_kind,
        tip_fh_zero: rng.chance(1, 7),
        prev_fh_zero: rng.chance(1, 8),
        listeners,
    }
}

// ------------------------------------------------------------------ sub-domain `seq`

fn flavour_name(f: Flavour) -> String {
    format!("{:?}", f)
}

fn split_points(rng: &mut Rng, len: usize) -> Vec<usize> {
    let mut cuts = vec![len];
    // the first chunk always carries header + transaction count (85 bytes: the push decoder
    // announces the block start once it has them); the model's first Chunk is "the listeners see
    // the block start"
    if len > 95 {
        for _ in 0..rng.below(3) {
            cuts.push(86 + rng.below(len as u64 - 87) as usize);
        }
    }
    cuts.sort();
    cuts.dedup();
    cuts
}

/// run one generated history; returns the emitted case and the counters
fn run_case(fx: &Fixture, rng: &mut Rng, id: usize, stats: &mut BTreeMap<String, u64>, max_window: usize, via_handler: bool) -> Value {
    let mut st = gen_start(rng, max_window);
    if via_handler {
        // a whole signer (HandlerBuilder -> Node) over a KVV store, on Regtest or on Testnet (which
        // has compiled-in checkpoints); deep reorgs as NodeConfig::new / restore_node set them
        st.window = st.window.min(5);
        st.network = if rng.chance(1, 2) { Network::Testnet } else { Network::Regtest };
        st.allow_deep = st.network == Network::Testnet;
    }
    let mut case = new_case_on(fx, &st, id as u32 + 1, via_handler);
    case.last_store = case.stored_entry();
    case.last_dump = case.hctx.as_ref().map(|h| store_dump(&h.world.persister)).unwrap_or_default();
    let coq_cfg = case.coq_cfg(fx);
    let coq_init = case.coq_state();
    let len = 3 + rng.below(10) as usize;
    let mut reqs = vec![];
    let mut obs = vec![];
    let mut jops = vec![];
    let mut atomic = vec![];
    let mut invalid = vec![];
    let mut later = vec![];
    let mut store: Vec<Value> = vec![];
    let mut force_valid = false;
    let mut kinds = (false, false, false); // saw ok, err, after-err-ok
    let at_boundary = |c: &Case| c.tr().height.wrapping_add(1) % 2016 == 0;
    let mut n = 0;
    let mut after_restart = false;
    let mut restart_hits: Vec<Value> = vec![];
    while n < len {
        n += 1;
        let removal = case.chain.len() >= 2 && rng.chance(if force_valid { 1 } else { 3 }, 8);
        let mut outs: Vec<StepOut> = vec![];
        let was_forced = force_valid;
        let was_after_restart = after_restart;
        if via_handler && !force_valid && rng.chance(1, 5) {
            // the signer restarts from its store; the next request is a correct one
            outs.push(case.do_restart());
        } else if removal {
            let fl = if force_valid || (via_handler && rng.chance(3, 4)) {
                Flavour::Valid
            } else {
                match rng.below(20) {
                    0 | 1 => Flavour::WrongSuppliedHeader,
                    2 => Flavour::WrongSuppliedFilter,
                    3 | 4 => Flavour::ProofOtherBlock,
                    5 => Flavour::ProofMissingSpend,
                    13 | 14 => Flavour::RepeatedAttestation,
                    6 => Flavour::AttestWrongPrevFilter,
                    7 => Flavour::AttestWrongHeight,
                    8 => Flavour::BadSignature,
                    9 => Flavour::NoAttestation,
                    10 => Flavour::FullBlockProof,
                    11 => Flavour::StreamedRemoval,
                    12 => Flavour::ExternalWithoutStream,
                    _ => Flavour::Valid,
                }
            };
            // a proof without attestations does not survive the wire decoder
            let fl = if via_handler && fl == Flavour::NoAttestation { Flavour::BadSignature } else { fl };
            let (prev, proof, tip_block) = case.build_remove(fx, rng, fl).unwrap();
            if fl == Flavour::StreamedRemoval {
                let bytes = serialize(&tip_block);
                let hash = tip_block.block_hash();
                let o = case.do_chunk(fx, &tip_block, hash, 0, &bytes, true, true, true, "chunk(removed block, whole)".into());
                let aborted = o.code == ABORT;
                outs.push(o);
                if aborted {
                    // nothing more can be said about this tracker
                } else {
                    outs.push(case.do_remove(fx, &prev, &proof, &tip_block, format!("remove[{}]", flavour_name(fl))));
                }
            } else {
                outs.push(case.do_remove(fx, &prev, &proof, &tip_block, format!("remove[{}]", flavour_name(fl))));
            }
        } else {
            let fl = if !force_valid && at_boundary(&case) && rng.chance(1, 2) {
                // the first block of a period: every side of the factor-4 window and of the chain maximum
                Flavour::OtherBits(*rng.pick(&[0u8, 1, 1, 2, 2, 3, 4, 4, 5, 5, 6, 7, 9, 9, 10, 10, 11]))
            } else if force_valid || (via_handler && rng.chance(3, 4)) {
                if rng.chance(1, 3) {
                    Flavour::ValidStreamed
                } else if via_handler && rng.chance(1, 4) {
                    if rng.chance(1, 2) { Flavour::StreamedWrongPrev } else { Flavour::WrongPrev }
                } else {
                    Flavour::Valid
                }
            } else {
                match rng.below(40) {
                    0 => Flavour::WrongPrev,
                    1 => Flavour::StreamedWrongPrev,
                    2 | 3 => Flavour::BadPow,
                    4 | 5 | 6 => Flavour::OtherBits(rng.below(12) as u8),
                    7 | 8 => Flavour::ProofOtherBlock,
                    9 | 10 => Flavour::ProofMissingSpend,
                    26 | 27 | 28 => Flavour::RepeatedAttestation,
                    11 => Flavour::AttestWrongPrevFilter,
                    12 => Flavour::AttestWrongHeight,
                    13 => Flavour::BadSignature,
                    14 => Flavour::NoAttestation,
                    15 => Flavour::MixedFilterHeaders,
                    16 => Flavour::FullBlockProof,
                    17 => Flavour::ExternalWithoutStream,
                    18 => Flavour::StreamIncomplete,
                    19 => Flavour::StreamOtherBlock,
                    20..=25 => Flavour::ValidStreamed,
                    _ => {
                        if at_boundary(&case) && rng.chance(1, 2) {
                            Flavour::OtherBits(*rng.pick(&[0u8, 1, 2, 3, 4, 4, 5, 5, 6, 7, 8, 9, 9, 10, 11]))
                        } else {
                            Flavour::Valid
                        }
                    }
                }
            };
            let fl = if via_handler && fl == Flavour::NoAttestation { Flavour::BadSignature } else { fl };
            let (b, changes) = case.build_add(fx, rng, fl);
            let streamed = matches!(fl, Flavour::ValidStreamed | Flavour::StreamedWrongPrev | Flavour::StreamIncomplete | Flavour::StreamOtherBlock);
            let mut aborted = false;
            if streamed {
                let (sblock, declared) = if fl == Flavour::StreamOtherBlock {
                    // a different block is streamed under its own hash; the AddBlock names `b`
                    let txs = vec![coinbase(case.next_salt())];
                    let tip0 = case.chain.last().unwrap().0.header;
                    let oh = mine(tip0.block_hash(), merkle_root(&txs), tip0.bits, 1, true);
                    let ob = Block { header: oh, txdata: txs };
                    let h = ob.block_hash();
                    (ob, h)
                } else {
                    (b.block.clone(), b.block.block_hash())
                };
                let bytes = serialize(&sblock);
                let total = if fl == Flavour::StreamIncomplete { bytes.len() - 1 - rng.below(3) as usize } else { bytes.len() };
                let cuts = split_points(rng, total);
                let mut off = 0usize;
                for (k, end) in cuts.iter().enumerate() {
                    let complete = *end == bytes.len();
                    let o = case.do_chunk(fx, &sblock, declared, off as u32, &bytes[off..*end], k == 0, true, complete, format!("chunk({}..{} of {})", off, end, bytes.len()));
                    off = *end;
                    aborted = o.code == ABORT;
                    outs.push(o);
                    if aborted {
                        break;
                    }
                }
            }
            if !aborted {
                outs.push(case.do_add(fx, &b, changes, format!("add[{}]", flavour_name(fl))));
            }
        }
        let mut stop = false;
        for o in outs {
            *stats.entry(format!("result:{}", code_name(o.code))).or_insert(0) += 1;
            *stats.entry(format!("op:{}", o.what.split(|c| c == '(' || c == ']').next().unwrap_or("").to_string() + if o.what.contains('[') { "]" } else { "" })).or_insert(0) += 1;
            for t in &o.tags {
                *stats.entry(format!("at:{}", t)).or_insert(0) += 1;
            }
            jops.push(json!([o.what, code_name(o.code)]));
            reqs.push(o.coq_req);
            obs.push(o.coq_obs);
            if let Some(v) = o.atomic_violation {
                atomic.push(v);
            }
            if let Some(v) = o.invalid_accepted {
                invalid.push(v);
            }
            if let Some(v) = o.store_violation {
                store.push(v);
            }
            if let Some(v) = o.restart_violation {
                restart_hits.push(v);
            }
            if o.what == "restart" {
                if o.code == 0 {
                    let h1 = case.tr().height.wrapping_add(1);
                    let moved = o.tags.iter().any(|t| t.contains("fast-forwards"));
                    if moved {
                        stop = true; // the harness's chain is not the tracker's any more
                    } else {
                        after_restart = true;
                        force_valid = case.tr().height < u32::MAX - 1 && !(case.network == Network::Testnet && h1 % 2016 == 0);
                    }
                }
                if o.code == ABORT {
                    stop = true;
                }
                continue;
            }
            let is_block_req = o.what.starts_with("add") || o.what.starts_with("remove");
            if o.code == ABORT {
                stop = true;
            } else if (1..=6).contains(&o.code) {
                kinds.1 = true;
                // the later correct request must succeed (where a correct one exists)
                let h1 = case.tr().height.wrapping_add(1);
                force_valid = case.tr().height < u32::MAX - 1 && !(case.network == Network::Testnet && h1 % 2016 == 0);
            } else if is_block_req {
                kinds.0 = true;
                if was_forced {
                    kinds.2 = true;
                }
                force_valid = false;
            }
            if was_forced && is_block_req && o.expected_ok && o.code != 0 {
                if was_after_restart {
                    restart_hits.push(json!({"after_a_restart_the_correct_request": o.what, "result": code_name(o.code)}));
                } else {
                    later.push(json!({"after_a_refused_request_the_correct_request": o.what, "result": code_name(o.code)}));
                }
            }
            if is_block_req {
                after_restart = false;
            }
            if was_forced && is_block_req && o.expected_ok {
                *stats.entry("later:correct_requests_after_a_refusal".into()).or_insert(0) += 1;
            }
            if was_forced && o.what.starts_with("chunk") && o.code == ABORT {
                // the stream of a correct block dies in the listeners
                later.push(json!({"after_a_refused_request_the_correct_request": format!("streamed block: {}", o.what), "result": code_name(o.code),
                                  "class": "streamed-reject-stale-decode"}));
            }
        }
        if stop {
            break;
        }
    }
    if !atomic.is_empty() {
        *stats.entry("monitor:atomicity".into()).or_insert(0) += 1;
    }
    if !later.is_empty() {
        *stats.entry("monitor:later_request".into()).or_insert(0) += 1;
    }
    if !invalid.is_empty() {
        *stats.entry("monitor:invalid_accepted".into()).or_insert(0) += 1;
    }
    let coq = format!("({}, {}, {}, {})", coq_cfg, coq_init, coq_list(&reqs), coq_list(&obs));
    json!({
        "id": id, "kind": if via_handler { "handler" } else { "seq" },
        "start": {"network": format!("{:?}", st.network), "trusted": st.trusted, "warn": st.warn, "policy_filter": policy_filter(st.filter).2, "allow_deep": st.allow_deep,
                  "window": st.window, "height": st.height, "tip_bits_kind": st.tip_bits_kind, "prev_bits_kind": st.prev_bits_kind, "tip_filter_header_zero": st.tip_fh_zero, "prev_filter_header_zero": st.prev_fh_zero,
                  "listeners": st.listeners},
        "ops": jops,
        "nontrivial": kinds.0 && kinds.1 && kinds.2,
        "atomicity_violations": atomic, "later_request_violations": later, "invalid_accepted": invalid,
        "store_violations": store,
        "restart_violations": restart_hits,
        "coq": coq
    })
}

fn seq(args: &Args) {
    if std::env::var("VERIF_PANICS").is_err() { quiet_panics(); }
    let thorough = args.tier == "thorough";
    let _ = thorough;
    let fx = fixture(108);
    // vharness::Rng streams of neighbouring seeds are shifts of each other: scramble first
    let mut rng = Rng(Rng::new(args.seed ^ 0xc13).next());
    let mut stats = BTreeMap::new();
    for id in 0..args.n {
        let v = run_case(&fx, &mut rng, id, &mut stats, 100, false);
        emit("CASE", v);
    }
    emit("STATS", json!({"kind": "seq", "counts": stats}));
}

/// the same requests as wire messages through RootHandler (AddBlock / RemoveBlock / BlockChunk):
/// there a tracker Err other than OrphanBlock is a panic, so a history ends at the first one
fn handler(args: &Args) {
    if std::env::var("VERIF_PANICS").is_err() { quiet_panics(); }
    let fx = fixture(12);
    let mut rng = Rng(Rng::new(args.seed ^ 0x4a11d).next());
    let mut stats = BTreeMap::new();
    for id in 0..args.n {
        let v = run_case(&fx, &mut rng, id, &mut stats, 5, true);
        emit("CASE", v);
    }
    emit("STATS", json!({"kind": "handler", "counts": stats}));
}

// ------------------------------------------------------------------ sub-domain `scripted`

/// The two replays the property text is about, as fixed histories (also evaluated by the model).
fn scripted(_args: &Args) {
    if std::env::var("VERIF_PANICS").is_err() { quiet_panics(); }
    let fx = fixture(12);
    let mut rng = Rng::new(1);
    // (1) refused removal, then the correct removal
    {
        let st = Start { network: Network::Regtest, trusted: vec![0], warn: false, filter: 0, allow_deep: false, window: 4, height: 4,
                         tip_bits_kind: None, prev_bits_kind: None, tip_fh_zero: false, prev_fh_zero: false, listeners: vec![true, false] };
        let mut case = new_case(&fx, &st, 7001);
        let coq_cfg = case.coq_cfg(&fx);
        let coq_init = case.coq_state();
        let (prev, bad, tip_block) = case.build_remove(&fx, &mut rng, Flavour::ProofOtherBlock).unwrap();
        let o1 = case.do_remove(&fx, &prev, &bad, &tip_block, "remove[proof for another block]".into());
        let (prev2, good, tip_block2) = case.build_remove(&fx, &mut rng, Flavour::Valid).unwrap();
        let o2 = case.do_remove(&fx, &prev2, &good, &tip_block2, "remove[Valid]".into());
        let coq = format!("({}, {}, {}, {})", coq_cfg, coq_init, coq_list(&[o1.coq_req.clone(), o2.coq_req.clone()]), coq_list(&[o1.coq_obs.clone(), o2.coq_obs.clone()]));
        emit("CASE", json!({"id": "refused-removal-then-correct-removal", "kind": "scripted",
            "ops": [[o1.what, code_name(o1.code)], [o2.what, code_name(o2.code)]],
            "atomicity_violations": o1.atomic_violation.iter().cloned().collect::<Vec<_>>(),
            "later_request_violations": if o2.code != 0 { vec![json!({"after_a_refused_request_the_correct_request": o2.what, "result": code_name(o2.code)})] } else { vec![] },
            "invalid_accepted": [], "coq": coq}));
    }
    // (2) refused streamed block, then a correct streamed block
    {
        let st = Start { network: Network::Regtest, trusted: vec![0], warn: false, filter: 0, allow_deep: false, window: 2, height: 2,
                         tip_bits_kind: None, prev_bits_kind: None, tip_fh_zero: false, prev_fh_zero: false, listeners: vec![true, false] };
        let mut case = new_case(&fx, &st, 7002);
        let coq_cfg = case.coq_cfg(&fx);
        let coq_init = case.coq_state();
        let mut outs = vec![];
        let (b, ch) = case.build_add(&fx, &mut rng, Flavour::ValidStreamed);
        // spoil the attestation: the stream is fine, the AddBlock is refused
        let mut bad = Built { header: b.header, block: b.block.clone(), proof: b.proof.clone(), fh: b.fh };
        bad.proof.attestations = vec![attest(&fx.oracles[5], &fx.oracles[5].pubkey, b.header.block_hash(), case.tr().height + 1, b.fh)];
        let bytes = serialize(&b.block);
        outs.push(case.do_chunk(&fx, &b.block, b.block.block_hash(), 0, &bytes, true, true, true, "chunk(block A, whole)".into()));
        outs.push(case.do_add(&fx, &bad, ch, "add[streamed, attested only by an untrusted oracle]".into()));
        let (b2, ch2) = case.build_add(&fx, &mut rng, Flavour::ValidStreamed);
        let bytes2 = serialize(&b2.block);
        let o3 = case.do_chunk(&fx, &b2.block, b2.block.block_hash(), 0, &bytes2, true, true, true, "chunk(block B, whole)".into());
        let chunk_aborted = o3.code == ABORT;
        outs.push(o3);
        if !chunk_aborted {
            outs.push(case.do_add(&fx, &b2, ch2, "add[ValidStreamed]".into()));
        }
        let last_ok = outs.last().map(|o| o.code == 0).unwrap_or(false);
        let coq = format!("({}, {}, {}, {})", coq_cfg, coq_init,
            coq_list(&outs.iter().map(|o| o.coq_req.clone()).collect::<Vec<_>>()),
            coq_list(&outs.iter().map(|o| o.coq_obs.clone()).collect::<Vec<_>>()));
        let mut atomic = vec![];
        for o in &outs {
            if let Some(v) = &o.atomic_violation {
                atomic.push(v.clone());
            }
        }
        emit("CASE", json!({"id": "refused-streamed-block-then-correct-streamed-block", "kind": "scripted",
            "ops": outs.iter().map(|o| json!([o.what, code_name(o.code)])).collect::<Vec<_>>(),
            "atomicity_violations": atomic,
            "later_request_violations": if !last_ok { vec![json!({"after_a_refused_streamed_block_the_next_streamed_block": outs.last().unwrap().what, "result": code_name(outs.last().unwrap().code)})] } else { vec![] },
            "class": "streamed-reject-stale-decode",
            "invalid_accepted": [], "coq": coq}));
    }
    // (2b) three trusted oracles, the attestation of ONE of them repeated two and three times:
    // as many attestations with a trusted key as the quorum asks for, but one oracle only
    {
        let st = Start { network: Network::Regtest, trusted: vec![0, 1, 2], warn: false, filter: 0, allow_deep: false, window: 2, height: 11,
                         tip_bits_kind: None, prev_bits_kind: None, tip_fh_zero: false, prev_fh_zero: false, listeners: vec![true, false] };
        let mut case = new_case(&fx, &st, 7005);
        let coq_cfg = case.coq_cfg(&fx);
        let coq_init = case.coq_state();
        let mut outs = vec![];
        for (reps, extra) in [(2usize, None), (3usize, Some(6usize))] {
            let (b, ch) = case.build_add(&fx, &mut rng, Flavour::Valid);
            let mut bad = Built { header: b.header, block: b.block.clone(), proof: b.proof.clone(), fh: b.fh };
            let one = attest(&fx.oracles[1], &fx.oracles[1].pubkey, b.header.block_hash(), case.tr().height + 1, b.fh);
            bad.proof.attestations = vec![one; reps];
            if let Some(u) = extra {
                bad.proof.attestations.push(attest(&fx.oracles[u], &fx.oracles[u].pubkey, b.header.block_hash(), case.tr().height + 1, b.fh));
            }
            outs.push(case.do_add(&fx, &bad, ch, format!("add[oracle 1 of 3 trusted attests {} times{}]", reps, if extra.is_some() { ", plus an untrusted oracle" } else { "" })));
        }
        let (b, ch) = case.build_add(&fx, &mut rng, Flavour::Valid);
        outs.push(case.do_add(&fx, &b, ch, "add[Valid]".into()));
        // and the same on the way down
        let (prev, good, tip_block) = case.build_remove(&fx, &mut rng, Flavour::Valid).unwrap();
        let mut badp = good.clone();
        let one = badp.attestations.iter().find(|(k, _)| case.tr().trusted_oracle_pubkeys.contains(k)).cloned().unwrap();
        badp.attestations = vec![one.clone(), one];
        outs.push(case.do_remove(&fx, &prev, &badp, &tip_block, "remove[one trusted oracle attests twice]".into()));
        outs.push(case.do_remove(&fx, &prev, &good, &tip_block, "remove[Valid]".into()));
        let coq = format!("({}, {}, {}, {})", coq_cfg, coq_init,
            coq_list(&outs.iter().map(|o| o.coq_req.clone()).collect::<Vec<_>>()),
            coq_list(&outs.iter().map(|o| o.coq_obs.clone()).collect::<Vec<_>>()));
        let expected = [6u64, 6, 0, 6, 0];
        let later: Vec<Value> = outs.iter().zip(expected.iter()).filter(|(o, e)| **e == 0 && o.code != 0)
            .map(|(o, _)| json!({"after_a_refused_request_the_correct_request": o.what, "result": code_name(o.code)})).collect();
        emit("CASE", json!({"id": "repeated-attestation-of-one-trusted-oracle", "kind": "scripted",
            "ops": outs.iter().map(|o| json!([o.what, code_name(o.code)])).collect::<Vec<_>>(),
            "atomicity_violations": outs.iter().filter_map(|o| o.atomic_violation.clone()).collect::<Vec<_>>(),
            "later_request_violations": later,
            "invalid_accepted": outs.iter().filter_map(|o| o.invalid_accepted.clone()).collect::<Vec<_>>(),
            "coq": coq}));
    }
    // (2d) a lenient operator filter that keeps chain validation enforced (an error rule ahead of
    // a warn-everything rule, as a prefix and as the exact tag): a block attested only by an
    // untrusted oracle is refused on the way up and on the way down, exactly as under the default
    // filter; with the warn rule FIRST the same block is accepted
    for (kind, name) in [(2u8, "shadowed-permissive-filter-prefix"), (3u8, "shadowed-permissive-filter-exact-tag"), (4u8, "warn-rule-ahead-of-error-rule")] {
        let st = Start { network: Network::Regtest, trusted: vec![0, 1], warn: policy_filter(kind).1, filter: kind, allow_deep: false, window: 2, height: 21,
                         tip_bits_kind: None, prev_bits_kind: None, tip_fh_zero: false, prev_fh_zero: false, listeners: vec![true, false] };
        let mut case = new_case(&fx, &st, 7010 + kind as u32);
        let coq_cfg = case.coq_cfg(&fx);
        let coq_init = case.coq_state();
        let mut outs = vec![];
        let (b, ch) = case.build_add(&fx, &mut rng, Flavour::Valid);
        let mut bad = Built { header: b.header, block: b.block.clone(), proof: b.proof.clone(), fh: b.fh };
        bad.proof.attestations = vec![attest(&fx.oracles[6], &fx.oracles[6].pubkey, b.header.block_hash(), case.ghost_height + 1, b.fh)];
        outs.push(case.do_add(&fx, &bad, ch.clone(), "add[attested only by an untrusted oracle]".into()));
        if outs[0].code != 0 {
            outs.push(case.do_add(&fx, &b, ch, "add[Valid]".into()));
        }
        let (prev, good, tip_block) = case.build_remove(&fx, &mut rng, Flavour::Valid).unwrap();
        let mut badp = good.clone();
        badp.attestations = vec![attest(&fx.oracles[6], &fx.oracles[6].pubkey, tip_block.block_hash(), case.ghost_height, filter_header_of(&tip_block, &prev.1))];
        outs.push(case.do_remove(&fx, &prev, &badp, &tip_block, "remove[attested only by an untrusted oracle]".into()));
        if outs.last().unwrap().code != 0 {
            outs.push(case.do_remove(&fx, &prev, &good, &tip_block, "remove[Valid]".into()));
        }
        let coq = format!("({}, {}, {}, {})", coq_cfg, coq_init,
            coq_list(&outs.iter().map(|o| o.coq_req.clone()).collect::<Vec<_>>()),
            coq_list(&outs.iter().map(|o| o.coq_obs.clone()).collect::<Vec<_>>()));
        emit("CASE", json!({"id": name, "kind": "scripted", "policy_filter": policy_filter(kind).2,
            "ops": outs.iter().map(|o| json!([o.what, code_name(o.code)])).collect::<Vec<_>>(),
            "atomicity_violations": outs.iter().filter_map(|o| o.atomic_violation.clone()).collect::<Vec<_>>(),
            "later_request_violations": [],
            "invalid_accepted": outs.iter().filter_map(|o| o.invalid_accepted.clone()).collect::<Vec<_>>(),
            "coq": coq}));
    }
    // (2e) the first block of a difficulty period on top of a tip whose target is 2^8 below the
    // chain maximum: x8, x4 + 1 ulp, /8, /4 - 1 ulp are refused (InvalidChain, nothing moves), x16
    // too, x4 is accepted; removing it again is accepted, /4 is accepted
    {
        let st = Start { network: Network::Regtest, trusted: vec![0], warn: false, filter: 0, allow_deep: false, window: 2, height: 2 * 2016 - 1,
                         tip_bits_kind: Some(14), prev_bits_kind: None, tip_fh_zero: false, prev_fh_zero: false, listeners: vec![true, false] };
        let mut case = new_case(&fx, &st, 7020);
        let coq_cfg = case.coq_cfg(&fx);
        let coq_init = case.coq_state();
        let mut outs = vec![];
        for (k, name) in [(5u8, "x8"), (9, "x4 + 1 ulp"), (11, "x16"), (2, "/8"), (10, "/4 - 1 ulp"), (4, "x4")] {
            let (b, ch) = case.build_add(&fx, &mut rng, Flavour::OtherBits(k));
            outs.push(case.do_add(&fx, &b, ch, format!("add[first block of a period, target {} of the previous one]", name)));
        }
        let (prev, good, tip_block) = case.build_remove(&fx, &mut rng, Flavour::Valid).unwrap();
        outs.push(case.do_remove(&fx, &prev, &good, &tip_block, "remove[Valid] (the x4 block)".into()));
        let (b, ch) = case.build_add(&fx, &mut rng, Flavour::OtherBits(1));
        outs.push(case.do_add(&fx, &b, ch, "add[first block of a period, target /4 of the previous one]".into()));
        let expected = [1u64, 1, 1, 1, 1, 0, 0, 0];
        let later: Vec<Value> = outs.iter().zip(expected.iter()).filter(|(o, e)| **e == 0 && o.code != 0)
            .map(|(o, _)| json!({"after_a_refused_request_the_correct_request": o.what, "result": code_name(o.code)})).collect();
        let coq = format!("({}, {}, {}, {})", coq_cfg, coq_init,
            coq_list(&outs.iter().map(|o| o.coq_req.clone()).collect::<Vec<_>>()),
            coq_list(&outs.iter().map(|o| o.coq_obs.clone()).collect::<Vec<_>>()));
        emit("CASE", json!({"id": "retarget-window-far-below-the-chain-maximum", "kind": "scripted",
            "ops": outs.iter().map(|o| json!([o.what, code_name(o.code)])).collect::<Vec<_>>(),
            "atomicity_violations": outs.iter().filter_map(|o| o.atomic_violation.clone()).collect::<Vec<_>>(),
            "later_request_violations": later,
            "invalid_accepted": outs.iter().filter_map(|o| o.invalid_accepted.clone()).collect::<Vec<_>>(),
            "coq": coq}));
    }
    // (2f) a restored tracker whose tip is the first block of a period and eases x8 against its
    // parent (2^8 below the chain maximum): the removal re-validates the tip and is refused
    {
        let st = Start { network: Network::Regtest, trusted: vec![0], warn: false, filter: 0, allow_deep: false, window: 2, height: 2016,
                         tip_bits_kind: Some(5), prev_bits_kind: Some(14), tip_fh_zero: false, prev_fh_zero: false, listeners: vec![false, false] };
        let mut case = new_case(&fx, &st, 7021);
        let coq_cfg = case.coq_cfg(&fx);
        let coq_init = case.coq_state();
        let (prev, good, tip_block) = case.build_remove(&fx, &mut rng, Flavour::Valid).unwrap();
        let outs = [case.do_remove(&fx, &prev, &good, &tip_block, "remove[first block of a period with target x8 of its parent]".into())];
        let coq = format!("({}, {}, {}, {})", coq_cfg, coq_init,
            coq_list(&outs.iter().map(|o| o.coq_req.clone()).collect::<Vec<_>>()),
            coq_list(&outs.iter().map(|o| o.coq_obs.clone()).collect::<Vec<_>>()));
        emit("CASE", json!({"id": "removal-of-a-block-that-eased-by-8", "kind": "scripted",
            "ops": outs.iter().map(|o| json!([o.what, code_name(o.code)])).collect::<Vec<_>>(),
            "atomicity_violations": outs.iter().filter_map(|o| o.atomic_violation.clone()).collect::<Vec<_>>(),
            "later_request_violations": [],
            "invalid_accepted": outs.iter().filter_map(|o| o.invalid_accepted.clone()).collect::<Vec<_>>(),
            "coq": coq}));
    }
    // (2c) a signer on Testnet (compiled-in checkpoints) whose tracker followed blocks up to a
    // height below the latest checkpoint restarts from its store: nothing moves, the next
    // correct block is accepted
    {
        let st = Start { network: Network::Testnet, trusted: vec![0], warn: false, filter: 0, allow_deep: true, window: 2, height: 5,
                         tip_bits_kind: None, prev_bits_kind: None, tip_fh_zero: false, prev_fh_zero: false, listeners: vec![true, false] };
        let mut case = new_case_on(&fx, &st, 7006, true);
        case.last_store = case.stored_entry();
    case.last_dump = case.hctx.as_ref().map(|h| store_dump(&h.world.persister)).unwrap_or_default();
        let coq_cfg = case.coq_cfg(&fx);
        let coq_init = case.coq_state();
        let mut outs = vec![];
        let (b, ch) = case.build_add(&fx, &mut rng, Flavour::Valid);
        outs.push(case.do_add(&fx, &b, ch, "add[Valid]".into()));
        outs.push(case.do_restart());
        let (b, ch) = case.build_add(&fx, &mut rng, Flavour::Valid);
        outs.push(case.do_add(&fx, &b, ch, "add[Valid]".into()));
        let mut hits: Vec<Value> = outs.iter().filter_map(|o| o.restart_violation.clone()).collect();
        if outs[2].code != 0 {
            hits.push(json!({"after_a_restart_the_correct_request": outs[2].what, "result": code_name(outs[2].code)}));
        }
        let coq = format!("({}, {}, {}, {})", coq_cfg, coq_init,
            coq_list(&outs.iter().map(|o| o.coq_req.clone()).collect::<Vec<_>>()),
            coq_list(&outs.iter().map(|o| o.coq_obs.clone()).collect::<Vec<_>>()));
        emit("CASE", json!({"id": "restart-on-testnet-below-the-checkpoint", "kind": "handler",
            "ops": outs.iter().map(|o| json!([o.what, code_name(o.code)])).collect::<Vec<_>>(),
            "atomicity_violations": [], "later_request_violations": [], "invalid_accepted": [],
            "store_violations": outs.iter().filter_map(|o| o.store_violation.clone()).collect::<Vec<_>>(),
            "restart_violations": hits, "coq": coq}));
    }
    // (2g) behind the handler, a fresh channel (its monitor has not seen a block yet): a block is
    // streamed, then AddBlock names it with a header that does not link -> refused as an orphan
    // (an Ok reply carrying a SignerError); the store - every key, version and value - is as
    // before, also for a compact orphan; then the correct block is accepted
    {
        let st = Start { network: Network::Regtest, trusted: vec![0], warn: false, filter: 0, allow_deep: false, window: 2, height: 8,
                         tip_bits_kind: None, prev_bits_kind: None, tip_fh_zero: false, prev_fh_zero: false, listeners: vec![true, false] };
        let mut case = new_case_on(&fx, &st, 7030, true);
        case.last_store = case.stored_entry();
        case.last_dump = case.hctx.as_ref().map(|h| store_dump(&h.world.persister)).unwrap_or_default();
        let coq_cfg = case.coq_cfg(&fx);
        let coq_init = case.coq_state();
        let mut outs = vec![];
        let (b, ch) = case.build_add(&fx, &mut rng, Flavour::StreamedWrongPrev);
        let bytes = serialize(&b.block);
        outs.push(case.do_chunk(&fx, &b.block, b.block.block_hash(), 0, &bytes, true, true, true, "chunk(block whose header does not link, whole)".into()));
        outs.push(case.do_add(&fx, &b, ch, "add[streamed, wrong prev]".into()));
        let (b, ch) = case.build_add(&fx, &mut rng, Flavour::WrongPrev);
        outs.push(case.do_add(&fx, &b, ch, "add[WrongPrev]".into()));
        let (b, ch) = case.build_add(&fx, &mut rng, Flavour::Valid);
        outs.push(case.do_add(&fx, &b, ch, "add[Valid]".into()));
        let coq = format!("({}, {}, {}, {})", coq_cfg, coq_init,
            coq_list(&outs.iter().map(|o| o.coq_req.clone()).collect::<Vec<_>>()),
            coq_list(&outs.iter().map(|o| o.coq_obs.clone()).collect::<Vec<_>>()));
        emit("CASE", json!({"id": "orphan-answers-leave-the-store-alone", "kind": "handler",
            "ops": outs.iter().map(|o| json!([o.what, code_name(o.code)])).collect::<Vec<_>>(),
            "atomicity_violations": outs.iter().filter_map(|o| o.atomic_violation.clone()).collect::<Vec<_>>(),
            "later_request_violations": if outs[3].code != 0 { vec![json!({"after_a_refused_request_the_correct_request": outs[3].what, "result": code_name(outs[3].code)})] } else { vec![] },
            "invalid_accepted": [],
            "store_violations": outs.iter().filter_map(|o| o.store_violation.clone()).collect::<Vec<_>>(),
            "restart_violations": [], "coq": coq}));
    }
    // (3) observation, not a C13 violation: a correct streamed removal is refused, because
    // remove_block compares the streamed block's hash with the hash of the PREVIOUS header
    {
        let st = Start { network: Network::Regtest, trusted: vec![0], warn: false, filter: 0, allow_deep: false, window: 3, height: 7,
                         tip_bits_kind: None, prev_bits_kind: None, tip_fh_zero: false, prev_fh_zero: false, listeners: vec![true, false] };
        let mut case = new_case(&fx, &st, 7003);
        let coq_cfg = case.coq_cfg(&fx);
        let coq_init = case.coq_state();
        let (prev, proof, tip_block) = case.build_remove(&fx, &mut rng, Flavour::StreamedRemoval).unwrap();
        let bytes = serialize(&tip_block);
        let o1 = case.do_chunk(&fx, &tip_block, tip_block.block_hash(), 0, &bytes, true, true, true, "chunk(the block to be removed, whole)".into());
        let o2 = case.do_remove(&fx, &prev, &proof, &tip_block, "remove[correct, streamed]".into());
        let (prev3, proof3, tip_block3) = case.build_remove(&fx, &mut rng, Flavour::Valid).unwrap();
        let o3 = case.do_remove(&fx, &prev3, &proof3, &tip_block3, "remove[Valid] (compact)".into());
        let outs = [o1, o2, o3];
        let coq = format!("({}, {}, {}, {})", coq_cfg, coq_init,
            coq_list(&outs.iter().map(|o| o.coq_req.clone()).collect::<Vec<_>>()),
            coq_list(&outs.iter().map(|o| o.coq_obs.clone()).collect::<Vec<_>>()));
        emit("CASE", json!({"id": "observation-streamed-removal-is-always-refused", "kind": "scripted",
            "ops": outs.iter().map(|o| json!([o.what, code_name(o.code)])).collect::<Vec<_>>(),
            "atomicity_violations": outs.iter().filter_map(|o| o.atomic_violation.clone()).collect::<Vec<_>>(),
            "later_request_violations": if outs[2].code != 0 { vec![json!({"after_a_refused_request_the_correct_request": outs[2].what, "result": code_name(outs[2].code)})] } else { vec![] },
            "invalid_accepted": [], "coq": coq}));
    }
    // (4) observation: a stream that stops short followed by AddBlock is a panic inside
    // BlockDecoder::finish (merkle root assertion), not Err(BlockDecodeError)
    {
        let st = Start { network: Network::Regtest, trusted: vec![0], warn: false, filter: 0, allow_deep: false, window: 2, height: 9,
                         tip_bits_kind: None, prev_bits_kind: None, tip_fh_zero: false, prev_fh_zero: false, listeners: vec![false, false] };
        let mut case = new_case(&fx, &st, 7004);
        let coq_cfg = case.coq_cfg(&fx);
        let coq_init = case.coq_state();
        let (b, ch) = case.build_add(&fx, &mut rng, Flavour::ValidStreamed);
        let bytes = serialize(&b.block);
        let cut = bytes.len() - 2;
        let o1 = case.do_chunk(&fx, &b.block, b.block.block_hash(), 0, &bytes[..cut], true, true, false, format!("chunk(0..{} of {})", cut, bytes.len()));
        let o2 = case.do_add(&fx, &b, ch, "add[streamed, two bytes of the block never sent]".into());
        let outs = [o1, o2];
        let coq = format!("({}, {}, {}, {})", coq_cfg, coq_init,
            coq_list(&outs.iter().map(|o| o.coq_req.clone()).collect::<Vec<_>>()),
            coq_list(&outs.iter().map(|o| o.coq_obs.clone()).collect::<Vec<_>>()));
        emit("CASE", json!({"id": "observation-incomplete-stream-panics", "kind": "scripted",
            "ops": outs.iter().map(|o| json!([o.what, code_name(o.code)])).collect::<Vec<_>>(),
            "atomicity_violations": [], "later_request_violations": [], "invalid_accepted": [], "coq": coq}));
    }
    emit("STATS", json!({"kind": "scripted"}));
}

fn main() {
    let argv: Vec<String> = std::env::args().collect();
    let args = parse_args(&argv[2..]);
    match argv[1].as_str() {
        "seq" => seq(&args),
        "scripted" => scripted(&args),
        "handler" => handler(&args),
        other => panic!("unknown sub-domain {}", other),
    }
}
