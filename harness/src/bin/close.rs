//! Domain `close` (C07): real nodes with one real channel each, brought to a state by commitment
//! updates (holder commitments validated against counterparty signatures and revoked, counterparty
//! commitments signed and revoked), then asked to sign cooperative closes through both entry points
//! (`Channel::sign_mutual_close_tx`, `Channel::sign_mutual_close_tx_phase2`) and, for the error tag,
//! through the `Validator` trait.  Every request is emitted as a Coq case of
//! Model/MutualCloseCheck.v; every returned signature is verified with libsecp256k1 against the
//! BIP-143 digest of a closing transaction the harness assembles itself; an independent u128
//! monitor evaluates the property's conjunction on every signature.
use std::collections::{BTreeMap, BTreeSet};
use std::panic::{catch_unwind, AssertUnwindSafe};
use std::sync::atomic::{AtomicBool, Ordering};
use std::sync::Arc;

use lightning_signer::bitcoin;
use lightning_signer::bitcoin::absolute::LockTime;
use lightning_signer::bitcoin::bip32::{ChildNumber, DerivationPath, Xpriv, Xpub};
use lightning_signer::bitcoin::hashes::Hash;
use lightning_signer::bitcoin::opcodes;
use lightning_signer::bitcoin::script::Builder;
use lightning_signer::bitcoin::secp256k1::ecdsa::Signature;
use lightning_signer::bitcoin::secp256k1::{All, Message, PublicKey, Secp256k1, SecretKey};
use lightning_signer::bitcoin::sighash::{EcdsaSighashType, SighashCache};
use lightning_signer::bitcoin::transaction::Version;
use lightning_signer::bitcoin::{
    Address, Amount, OutPoint, ScriptBuf, Sequence, Transaction, TxIn, TxOut, Txid, Witness,
};
use lightning_signer::chain::tracker::ChainTracker;
use lightning_signer::channel::{Channel, ChannelBase, ChannelId, ChannelSetup, ChannelSlot, ChannelStub};
use lightning_signer::lightning::ln::chan_utils::{build_commitment_secret, ClosingTransaction};
use lightning_signer::lightning::sign::ChannelSigner;
use lightning_signer::lightning::types::payment::PaymentHash;
use lightning_signer::monitor::ChainMonitor;
use lightning_signer::node::{Node, NodeConfig, NodeServices, NodeState};
use lightning_signer::persist::model::{ChannelEntry, NodeEntry};
use lightning_signer::persist::{ChainTrackerListenerEntry, Error as PersistError, Mutations, Persist};
use lightning_signer::policy::error::{ValidationError, ValidationErrorKind};
use lightning_signer::policy::filter::{FilterResult, FilterRule, PolicyFilter};
use lightning_signer::policy::simple_validator::{SimplePolicy, SimpleValidatorFactory};
use lightning_signer::policy::validator::{EnforcementState, ValidatorFactory};
use lightning_signer::signer::derive::KeyDerivationStyle;
use lightning_signer::signer::StartingTimeFactory;
use lightning_signer::tx::tx::{CommitmentInfo2, HTLCInfo2};
use lightning_signer::util::clock::Clock;
use lightning_signer::util::status::{Code, Status};
use lightning_signer::util::test_utils::key::{make_test_bitcoin_pubkey, make_test_pubkey};
use lightning_signer::util::test_utils::{
    channel_commitment, counterparty_sign_holder_commitment, make_genesis_starting_time_factory,
    make_test_channel_setup, make_test_counterparty_keys, TestChannelContext, TestNodeContext,
};
use lightning_signer::wallet::Wallet;
use lightning_signer::SendSync;
use lightning_signer::bitcoin::bip32::Fingerprint;
use lightning_signer::bitcoin::psbt::Psbt;
use lightning_signer::bitcoin::secp256k1::XOnlyPublicKey;
use lightning_signer::channel::CommitmentType;
use serde_json::{json, Value};
use vharness::*;
use vls_protocol::model::{Basepoints, PubKey};
use vls_protocol::msgs::{self, Message as WireMessage, SerBolt};
use vls_protocol::psbt::PsbtWrapper;
use vls_protocol::serde_bolt::{ArrayBE, Octets, WithSize};
use vls_protocol_signer::approver::PositiveApprover;
use vls_protocol_signer::handler::{ChannelHandler, Error as HandlerError, Handler, HandlerBuilder, RootHandler};
use vls_protocol_signer::util::commitment_type_to_channel_type;

const CP_SEED: [u8; 32] = [3u8; 32]; // commitment seed of make_test_counterparty_keys
const INITIAL: u64 = (1 << 48) - 1;
const WITNESS_WEIGHT: u128 = 222;

// ------------------------------------------------------------------ a store that can refuse a channel write

struct Flaky {
    inner: Arc<MemPersister>,
    fail_update_channel: AtomicBool,
}
impl SendSync for Flaky {}
impl Persist for Flaky {
    fn enter(&self) -> Result<(), PersistError> {
        self.inner.enter()
    }
    fn prepare(&self) -> Mutations {
        self.inner.prepare()
    }
    fn commit(&self) -> Result<(), PersistError> {
        self.inner.commit()
    }
    fn put_batch_unlogged(&self, m: Mutations) -> Result<(), PersistError> {
        self.inner.put_batch_unlogged(m)
    }
    fn new_node(&self, node_id: &PublicKey, config: &NodeConfig, state: &NodeState) -> Result<(), PersistError> {
        self.inner.new_node(node_id, config, state)
    }
    fn update_node(&self, node_id: &PublicKey, state: &NodeState) -> Result<(), PersistError> {
        self.inner.update_node(node_id, state)
    }
    fn delete_node(&self, node_id: &PublicKey) -> Result<(), PersistError> {
        self.inner.delete_node(node_id)
    }
    fn new_channel(&self, node_id: &PublicKey, stub: &ChannelStub) -> Result<(), PersistError> {
        self.inner.new_channel(node_id, stub)
    }
    fn delete_channel(&self, node_id: &PublicKey, channel: &ChannelId) -> Result<(), PersistError> {
        self.inner.delete_channel(node_id, channel)
    }
    fn new_tracker(&self, node_id: &PublicKey, tracker: &ChainTracker<ChainMonitor>) -> Result<(), PersistError> {
        self.inner.new_tracker(node_id, tracker)
    }
    fn update_tracker(&self, node_id: &PublicKey, tracker: &ChainTracker<ChainMonitor>) -> Result<(), PersistError> {
        self.inner.update_tracker(node_id, tracker)
    }
    fn get_tracker(
        &self,
        node_id: PublicKey,
        validator_factory: Arc<dyn ValidatorFactory>,
    ) -> Result<(ChainTracker<ChainMonitor>, Vec<ChainTrackerListenerEntry>), PersistError> {
        self.inner.get_tracker(node_id, validator_factory)
    }
    fn update_channel(&self, node_id: &PublicKey, channel: &Channel) -> Result<(), PersistError> {
        if self.fail_update_channel.load(Ordering::SeqCst) {
            return Err(PersistError::Internal("store refuses the write".to_string()));
        }
        self.inner.update_channel(node_id, channel)
    }
    fn get_channel(&self, node_id: &PublicKey, channel_id: &ChannelId) -> Result<ChannelEntry, PersistError> {
        self.inner.get_channel(node_id, channel_id)
    }
    fn get_node_channels(&self, node_id: &PublicKey) -> Result<Vec<(ChannelId, ChannelEntry)>, PersistError> {
        self.inner.get_node_channels(node_id)
    }
    fn update_node_allowlist(&self, node_id: &PublicKey, allowlist: Vec<String>) -> Result<(), PersistError> {
        self.inner.update_node_allowlist(node_id, allowlist)
    }
    fn get_node_allowlist(&self, node_id: &PublicKey) -> Result<Vec<String>, PersistError> {
        self.inner.get_node_allowlist(node_id)
    }
    fn get_nodes(&self) -> Result<Vec<(PublicKey, NodeEntry)>, PersistError> {
        self.inner.get_nodes()
    }
    fn clear_database(&self) -> Result<(), PersistError> {
        self.inner.clear_database()
    }
    fn signer_id(&self) -> [u8; 16] {
        self.inner.signer_id()
    }
}

// ------------------------------------------------------------------ policy

#[derive(Clone, Debug)]
struct Pol {
    min_feerate: u32,
    max_feerate: u32,
    epsilon: u64,
    rules: Vec<(String, bool, bool)>, // (tag, is_prefix, warn)
}

fn real_policy(p: &Pol) -> SimplePolicy {
    let mut policy = World::default_policy();
    policy.min_feerate_per_kw = p.min_feerate;
    policy.max_feerate_per_kw = p.max_feerate;
    policy.epsilon_sat = p.epsilon;
    policy.max_channel_size_sat = 1 << 42;
    policy.filter = PolicyFilter {
        rules: p
            .rules
            .iter()
            .map(|(t, pre, w)| FilterRule {
                tag: t.clone(),
                is_prefix: *pre,
                action: if *w { FilterResult::Warn } else { FilterResult::Error },
            })
            .collect(),
    };
    policy
}

/// the filter, evaluated by the harness itself (first matching rule decides)
fn ref_warned(rules: &[(String, bool, bool)], tag: &str) -> bool {
    for (t, pre, w) in rules {
        let m = if *pre { tag.starts_with(t.as_str()) } else { tag == t };
        if m {
            return *w;
        }
    }
    false
}

const TAGS: [&str; 7] = [
    "policy-mutual-other",
    "policy-mutual-destination-allowlisted",
    "policy-mutual-no-pending-htlcs",
    "policy-mutual-fee-range",
    "policy-mutual-value-matches-commitment",
    "policy-mutual-scripts",
    "policy-onchain-format-standard",
];

/// 0 accepted, 1 panic, 100 + tag of the model, 198 transaction format, 199 anything else
fn err_code(ve: &ValidationError) -> u64 {
    match ve.kind {
        ValidationErrorKind::TransactionFormat(_) => return 107,
        ValidationErrorKind::Policy(_) => {}
        _ => return 199,
    }
    match TAGS.iter().position(|t| *t == ve.tag.as_str()) {
        Some(k) => 100 + k as u64,
        None => 199,
    }
}

fn status_code(s: &Status) -> u64 {
    match s.code() {
        Code::FailedPrecondition => 2,
        Code::InvalidArgument => 3,
        Code::Internal => 4,
        _ => 9,
    }
}

// ------------------------------------------------------------------ Coq terms

fn coq_bytes(b: &[u8]) -> String {
    coq_list(&b.iter().map(|x| x.to_string()).collect::<Vec<_>>())
}
fn coq_script(s: &ScriptBuf) -> String {
    coq_bytes(s.as_bytes())
}
fn coq_opt_script(s: &Option<ScriptBuf>) -> String {
    match s {
        None => "None".into(),
        Some(s) => format!("(Some {})", coq_script(s)),
    }
}
fn coq_path(p: &[u32]) -> String {
    coq_list(&p.iter().map(|x| x.to_string()).collect::<Vec<_>>())
}
fn coq_rules(rules: &[(String, bool, bool)]) -> String {
    coq_list(
        &rules
            .iter()
            .map(|(t, p, w)| format!("mkRule \"{}\"%string {} {}", t, coq_bool(*p), coq_bool(*w)))
            .collect::<Vec<_>>(),
    )
}
fn coq_outpoint(o: &OutPoint) -> String {
    format!("(mkOP 0x{} {})", hex::encode(o.txid.to_byte_array()), o.vout)
}
fn coq_tx(t: &Transaction) -> String {
    let ins: Vec<String> = t
        .input
        .iter()
        .map(|i| {
            let wit: Vec<String> = i.witness.iter().map(|w| coq_bytes(w)).collect();
            format!(
                "mkIn {} {} {} {}",
                coq_outpoint(&i.previous_output),
                coq_bytes(i.script_sig.as_bytes()),
                i.sequence.0,
                coq_list(&wit)
            )
        })
        .collect();
    let outs: Vec<String> =
        t.output.iter().map(|o| format!("mkOut {} {}", o.value.to_sat(), coq_script(&o.script_pubkey))).collect();
    format!(
        "(mkTx {} {} {} {})",
        t.version.0 as u32,
        t.lock_time.to_consensus_u32(),
        coq_list(&ins),
        coq_list(&outs)
    )
}
fn coq_opt_tx(t: &Option<Transaction>) -> String {
    match t {
        None => "None".into(),
        Some(t) => format!("(Some {})", coq_tx(t)),
    }
}

/// the model's projection of a CommitmentInfo2
#[derive(Clone, Copy, Debug, PartialEq, Eq)]
struct Info {
    to_broadcaster: u64,
    to_countersigner: u64,
    n_offered: u64,
    n_received: u64,
}
#[derive(Clone, Copy, Debug, PartialEq, Eq)]
struct Est {
    holder: Option<Info>,
    cp: Option<Info>,
    closed: bool,
}
fn info_of(i: &CommitmentInfo2) -> Info {
    Info {
        to_broadcaster: i.to_broadcaster_value_sat,
        to_countersigner: i.to_countersigner_value_sat,
        n_offered: i.offered_htlcs.len() as u64,
        n_received: i.received_htlcs.len() as u64,
    }
}
fn est_of(e: &EnforcementState) -> Est {
    Est {
        holder: e.current_holder_commit_info.as_ref().map(info_of),
        cp: e.current_counterparty_commit_info.as_ref().map(info_of),
        closed: e.channel_closed,
    }
}
fn coq_info(i: &Option<Info>) -> String {
    match i {
        None => "None".into(),
        Some(i) => format!("(Some (mkInfo {} {} {} {}))", i.to_broadcaster, i.to_countersigner, i.n_offered, i.n_received),
    }
}
fn coq_est(e: &Est) -> String {
    format!("(mkEstate {} {} {})", coq_info(&e.holder), coq_info(&e.cp), coq_bool(e.closed))
}
fn json_est(e: &Est) -> Value {
    let j = |i: &Option<Info>| match i {
        None => Value::Null,
        Some(i) => json!({"to_broadcaster": i.to_broadcaster, "to_countersigner": i.to_countersigner,
                          "offered_htlcs": i.n_offered, "received_htlcs": i.n_received}),
    };
    json!({"current_holder_commit_info": j(&e.holder), "current_counterparty_commit_info": j(&e.cp), "channel_closed": e.closed})
}

fn dpath(p: &[u32]) -> DerivationPath {
    p.iter().map(|x| ChildNumber::from(*x)).collect::<Vec<_>>().into()
}

// ------------------------------------------------------------------ the harness's own closing transaction

/// BOLT-2/3 closing transaction assembled without LDK: outputs with a positive value
/// (counterparty, holder), ordered by (value, script bytes); one input spending the funding
/// outpoint, sequence 0xffffffff, empty script_sig and witness; version 2, lock time 0
fn my_close(vh: u64, vc: u64, sh: &ScriptBuf, sc: &ScriptBuf, funding: OutPoint) -> Transaction {
    let mut outs: Vec<TxOut> = vec![];
    if vc > 0 {
        outs.push(TxOut { value: Amount::from_sat(vc), script_pubkey: sc.clone() });
    }
    if vh > 0 {
        outs.push(TxOut { value: Amount::from_sat(vh), script_pubkey: sh.clone() });
    }
    if outs.len() == 2 {
        let k0 = (outs[0].value.to_sat(), outs[0].script_pubkey.as_bytes().to_vec());
        let k1 = (outs[1].value.to_sat(), outs[1].script_pubkey.as_bytes().to_vec());
        if k0 > k1 {
            outs.swap(0, 1);
        }
    }
    Transaction {
        version: Version(2),
        lock_time: LockTime::from_consensus(0),
        input: vec![TxIn {
            previous_output: funding,
            script_sig: ScriptBuf::new(),
            sequence: Sequence(0xffff_ffff),
            witness: Witness::new(),
        }],
        output: outs,
    }
}

fn varint(n: usize) -> u128 {
    if n < 253 {
        1
    } else if n <= 0xffff {
        3
    } else {
        5
    }
}
/// weight of the signed closing transaction as the signer estimates it (own arithmetic)
fn my_weight(t: &Transaction) -> u128 {
    let outs: u128 = t.output.iter().map(|o| 8 + varint(o.script_pubkey.len()) + o.script_pubkey.len() as u128).sum();
    4 * (4 + 1 + 41 + varint(t.output.len()) + outs + 4) + WITNESS_WEIGHT
}

/// 2-of-2 funding script, keys in lexicographic order
fn funding_redeemscript(a: &PublicKey, b: &PublicKey) -> ScriptBuf {
    let (x, y) = if a.serialize()[..] < b.serialize()[..] { (a, b) } else { (b, a) };
    Builder::new()
        .push_opcode(opcodes::all::OP_PUSHNUM_2)
        .push_slice(x.serialize())
        .push_slice(y.serialize())
        .push_opcode(opcodes::all::OP_PUSHNUM_2)
        .push_opcode(opcodes::all::OP_CHECKMULTISIG)
        .into_script()
}

fn verifies(secp: &Secp256k1<All>, t: &Transaction, redeem: &ScriptBuf, value: u64, key: &PublicKey, sig: &Signature) -> bool {
    if t.input.is_empty() {
        return false;
    }
    let h = match SighashCache::new(t).p2wsh_signature_hash(0, redeem, Amount::from_sat(value), EcdsaSighashType::All) {
        Ok(h) => h,
        Err(_) => return false,
    };
    let m = Message::from_digest(h.to_byte_array());
    secp.verify_ecdsa(&m, sig, key).is_ok()
}

// ------------------------------------------------------------------ scripts the requests are made of

#[derive(Clone, Debug, PartialEq)]
enum Kind {
    Wallet(u32, &'static str), // derived from the node's wallet at path [k]
    Xpub(u32),                 // derived from a foreign xpub at path [k]
    Foreign(usize),            // somebody else's; allowlisted or not
    Counterparty,
    Odd(&'static str),         // empty / long
}

#[derive(Clone)]
struct Scr {
    script: ScriptBuf,
    kind: Kind,
    addr: Option<String>,
}

struct Universe {
    scripts: Vec<Scr>,
    xpub_str: String,
    allow: BTreeSet<Vec<u8>>, // the harness's own record of allowlisted scripts
    xpub_allowed: bool,
}

impl Universe {
    fn new(node: &Node, secp: &Secp256k1<All>) -> Universe {
        let mut scripts = vec![];
        for k in [1u32, 7] {
            let p = dpath(&[k]);
            let a = node.get_native_address(&p).expect("native");
            scripts.push(Scr { script: a.script_pubkey(), kind: Kind::Wallet(k, "p2wpkh"), addr: Some(a.to_string()) });
            if k == 7 {
                let a = node.get_wrapped_address(&p).expect("wrapped");
                scripts.push(Scr { script: a.script_pubkey(), kind: Kind::Wallet(k, "p2sh-p2wpkh"), addr: Some(a.to_string()) });
                let a = node.get_taproot_address(&p).expect("taproot");
                scripts.push(Scr { script: a.script_pubkey(), kind: Kind::Wallet(k, "p2tr"), addr: Some(a.to_string()) });
            }
        }
        let xprv = Xpriv::new_master(NETWORK, &[0x51u8; 32]).expect("xprv");
        let xpub = Xpub::from_priv(secp, &xprv);
        for k in [3u32] {
            let pk = xpub.derive_pub(secp, &dpath(&[k])).expect("derive").public_key;
            let a = Address::p2wpkh(&bitcoin::CompressedPublicKey(pk), NETWORK);
            scripts.push(Scr { script: a.script_pubkey(), kind: Kind::Xpub(k), addr: Some(a.to_string()) });
        }
        for (j, key) in [42u8, 43].iter().enumerate() {
            let a = Address::p2wpkh(&make_test_bitcoin_pubkey(*key), NETWORK);
            scripts.push(Scr { script: a.script_pubkey(), kind: Kind::Foreign(j), addr: Some(a.to_string()) });
        }
        // a 34-byte p2wsh
        let a = Address::p2wsh(&ScriptBuf::from(vec![0x51u8]), NETWORK);
        scripts.push(Scr { script: a.script_pubkey(), kind: Kind::Foreign(2), addr: Some(a.to_string()) });
        // somebody else's taproot output
        let a = Address::p2tr(secp, make_test_pubkey(44).x_only_public_key().0, None, NETWORK);
        scripts.push(Scr { script: a.script_pubkey(), kind: Kind::Foreign(3), addr: Some(a.to_string()) });
        let a = Address::p2wpkh(&make_test_bitcoin_pubkey(50), NETWORK);
        scripts.push(Scr { script: a.script_pubkey(), kind: Kind::Counterparty, addr: Some(a.to_string()) });
        scripts.push(Scr { script: ScriptBuf::new(), kind: Kind::Odd("empty"), addr: None });
        let mut long = vec![0x6au8];
        long.extend(std::iter::repeat(0x01u8).take(259));
        scripts.push(Scr { script: ScriptBuf::from(long), kind: Kind::Odd("long-260"), addr: None });
        Universe { scripts, xpub_str: format!("xpub:{}", xpub), allow: BTreeSet::new(), xpub_allowed: false }
    }

    /// the scripts that do not depend on the node (other people's), and the foreign xpub as an allowlist entry
    fn foreign(secp: &Secp256k1<All>) -> (Vec<Scr>, String) {
        let mut v = vec![];
        for (j, key) in [42u8, 43].iter().enumerate() {
            let a = Address::p2wpkh(&make_test_bitcoin_pubkey(*key), NETWORK);
            v.push(Scr { script: a.script_pubkey(), kind: Kind::Foreign(j), addr: Some(a.to_string()) });
        }
        let a = Address::p2wsh(&ScriptBuf::from(vec![0x51u8]), NETWORK);
        v.push(Scr { script: a.script_pubkey(), kind: Kind::Foreign(2), addr: Some(a.to_string()) });
        let a = Address::p2tr(secp, make_test_pubkey(44).x_only_public_key().0, None, NETWORK);
        v.push(Scr { script: a.script_pubkey(), kind: Kind::Foreign(3), addr: Some(a.to_string()) });
        let xprv = Xpriv::new_master(NETWORK, &[0x51u8; 32]).expect("xprv");
        (v, format!("xpub:{}", Xpub::from_priv(secp, &xprv)))
    }

    /// "on the allowlist" according to the operator's record: initial list, plus what was added, minus what was
    /// removed, or exactly the last list that replaced it; restarts change nothing.  An allowlisted xpub covers the
    /// scripts derived from it under the given (non-empty) path.
    fn allowlisted(&self, script: &ScriptBuf, path: &[u32]) -> bool {
        if self.allow.contains(script.as_bytes()) {
            return true;
        }
        self.xpub_allowed
            && self.scripts.iter().any(|s| s.script == *script && matches!(s.kind, Kind::Xpub(k) if path == [k]))
    }

    fn by_kind(&self, f: impl Fn(&Kind) -> bool) -> Vec<&Scr> {
        self.scripts.iter().filter(|s| f(&s.kind)).collect()
    }

    /// ground truth of "wallet-derivable under this path, or allowlisted", from the harness's own
    /// records (which scripts it derived where, what it put on the allowlist)
    fn owned(&self, script: &ScriptBuf, path: &[u32]) -> bool {
        if self.allow.contains(script.as_bytes()) {
            return true;
        }
        for s in &self.scripts {
            if s.script == *script {
                match s.kind {
                    Kind::Wallet(k, _) if path == [k] => return true,
                    Kind::Xpub(k) if self.xpub_allowed && path == [k] => return true,
                    _ => {}
                }
            }
        }
        false
    }
}

// ------------------------------------------------------------------ one node, one channel

/// what the harness itself recorded of the last accepted commitments (to_holder, to_counterparty,
/// offered, received) - the monitor's view of "both latest commitments"
#[derive(Clone, Copy, Debug, PartialEq, Eq)]
struct Content {
    to_h: u64,
    to_c: u64,
    n_offered: u64,
    n_received: u64,
}

struct Sys {
    pol: Pol,
    seed: [u8; 32],
    config: NodeConfig,
    clock: Arc<lightning_signer::util::clock::ManualClock>,
    flaky: Arc<Flaky>,
    node: Arc<Node>,
    node_id: PublicKey,
    channel_id: ChannelId,
    setup: ChannelSetup,
    cctx: Option<TestChannelContext>,
    secp: Secp256k1<All>,
    uni: Universe,
    ledger_holder: Option<Content>,
    ledger_cp: Option<Content>,
    next_h: u64,
    next_c: u64,
    drive_log: Vec<Value>,
    /// the next holder update is followed, before its revocation, by a validation of the commitment after it
    lookahead_next: bool,
    hash_ctr: u8,
    dead: bool, // a commitment update panicked: the channel lock is poisoned
    proto: u32,
    peer: [u8; 33],
    handler: ChannelHandler,
    setup_route: &'static str,
    initial_allowlist: Vec<String>, // the daemon's configuration: the same on every start
    prefer: Option<usize>,          // a script the next requests should pay the holder to
}

/// start (or restart) the signer the way the daemon does: HandlerBuilder on the persister with the configured initial
/// allowlist, the HsmdInit handshake, then the root handler; a node found in the store is restored, else created
fn start_daemon(pol: &Pol, flaky: &Arc<Flaky>, clock: &Arc<lightning_signer::util::clock::ManualClock>, seed: [u8; 32],
                initial: &[String], proto: u32) -> RootHandler {
    let mut init = HandlerBuilder::new(NETWORK, 0, services(pol, flaky, clock), seed)
        .allowlist(initial.to_vec())
        .approver(Arc::new(PositiveApprover()))
        .max_protocol_version(proto)
        .build()
        .expect("HandlerBuilder::build");
    let m = msgs::HsmdInit {
        key_version: vls_protocol::model::Bip32KeyVersion { pubkey_version: 0, privkey_version: 0 },
        chain_params: lightning_signer::bitcoin::BlockHash::from_byte_array([0u8; 32]),
        encryption_key: None,
        dev_privkey: None,
        dev_bip32_seed: None,
        dev_channel_secrets: None,
        dev_channel_secrets_shaseed: None,
        hsm_wire_min_version: 2,
        hsm_wire_max_version: proto,
    };
    init.handle(WireMessage::HsmdInit(m)).expect("init");
    init.into()
}

fn channel_handler(node: &Arc<Node>, proto: u32, peer: [u8; 33], dbid: u64) -> ChannelHandler {
    make_root_handler(node, proto).for_new_client(1, PubKey(peer), dbid)
}

fn services(pol: &Pol, flaky: &Arc<Flaky>, clock: &Arc<lightning_signer::util::clock::ManualClock>) -> NodeServices {
    let validator_factory: Arc<dyn ValidatorFactory> = Arc::new(SimpleValidatorFactory::new_with_policy(real_policy(pol)));
    let starting_time_factory: Arc<dyn StartingTimeFactory> = make_genesis_starting_time_factory(NETWORK);
    let persister: Arc<dyn Persist> = flaky.clone();
    let clock: Arc<dyn Clock> = clock.clone();
    NodeServices { validator_factory, starting_time_factory, persister, clock, trusted_oracle_pubkeys: vec![] }
}

fn cp_secret(n: u64) -> [u8; 32] {
    build_commitment_secret(&CP_SEED, INITIAL - n)
}

impl Sys {
    fn new(case: usize, pol: Pol, proto: u32, initial: Vec<usize>, initial_xpub: bool) -> Sys {
        let mut seed = [0u8; 32];
        seed[0] = (case % 251) as u8;
        seed[1] = 0xc7;
        let world = World::new(real_policy(&pol), seed, KeyDerivationStyle::Native);
        let flaky = Arc::new(Flaky { inner: world.persister.clone(), fail_update_channel: AtomicBool::new(false) });
        let clock = world.clock.clone();
        let secp = Secp256k1::new();
        // the configured initial allowlist (addresses of other people's scripts, possibly an xpub)
        let probe = Universe::foreign(&secp);
        let mut initial_allowlist: Vec<String> = initial.iter().map(|j| probe.0[*j].addr.clone().unwrap()).collect();
        if initial_xpub {
            initial_allowlist.push(probe.1.clone());
        }
        let root = start_daemon(&pol, &flaky, &clock, seed, &initial_allowlist, proto);
        let node = root.node().clone();
        let config = NodeConfig::new(NETWORK);
        let node_id = node.get_id();
        let peer = [2u8; 33];
        let (channel_id, _) = node.new_channel(1, &peer, &node).expect("new_channel");
        let mut uni = Universe::new(&node, &secp);
        // the operator's allowlist starts as the configured one
        for j in &initial {
            uni.allow.insert(probe.0[*j].script.as_bytes().to_vec());
        }
        uni.xpub_allowed = initial_xpub;
        let handler = root.for_new_client(1, PubKey(peer), 1);
        Sys {
            initial_allowlist,
            prefer: None,
            proto,
            peer,
            handler,
            setup_route: "direct",
            pol,
            seed,
            config,
            clock,
            flaky,
            node,
            node_id,
            channel_id,
            setup: make_test_channel_setup(),
            cctx: None,
            secp,
            uni,
            ledger_holder: None,
            ledger_cp: None,
            next_h: 0,
            next_c: 0,
            drive_log: vec![],
            lookahead_next: false,
            hash_ctr: 0,
            dead: false,
        }
    }

    fn nctx(&self) -> TestNodeContext {
        TestNodeContext { node: self.node.clone(), secp_ctx: Secp256k1::signing_only() }
    }

    fn setup_channel(&mut self, setup: ChannelSetup, shutdown_path: &[u32]) -> bool {
        let r = catch_unwind(AssertUnwindSafe(|| {
            self.node.setup_channel(self.channel_id.clone(), None, setup.clone(), &dpath(shutdown_path))
        }));
        let ok = matches!(r, Ok(Ok(_)));
        if ok {
            let nctx = self.nctx();
            let keys = make_test_counterparty_keys(&nctx, &self.channel_id, setup.channel_value_sat);
            self.cctx = Some(TestChannelContext { channel_id: self.channel_id.clone(), setup: setup.clone(), counterparty_keys: keys });
            self.setup = setup;
        }
        ok
    }

    /// the same set-up as a SetupChannel message through the protocol handler.  `setup` is the independent
    /// statement of what the message must become: channel_value is satoshi, push_value is millisatoshi,
    /// (funding_txid, funding_txout) is the funding outpoint, to_self_delay is the delay the HOLDER selected (imposed on
    /// the counterparty's outputs), remote_to_self_delay the one the counterparty selected, an empty
    /// local_shutdown_script means "no upfront script", local_shutdown_wallet_index is the wallet path of that script,
    /// the remote basepoints / funding key are the counterparty's.
    fn setup_channel_wire(&mut self, setup: ChannelSetup, wallet_index: Option<u32>, rng: &mut Rng) -> (bool, Value) {
        let pts = &setup.counterparty_points;
        let remote_script: Vec<u8> =
            if rng.chance(1, 2) { vec![] } else { self.uni.by_kind(|k| *k == Kind::Counterparty)[0].script.to_bytes() };
        let m = msgs::SetupChannel {
            is_outbound: setup.is_outbound,
            channel_value: setup.channel_value_sat,
            push_value: setup.push_value_msat,
            funding_txid: setup.funding_outpoint.txid,
            funding_txout: setup.funding_outpoint.vout as u16,
            to_self_delay: setup.holder_selected_contest_delay,
            local_shutdown_script: Octets(setup.holder_shutdown_script.as_ref().map(|x| x.to_bytes()).unwrap_or_default()),
            local_shutdown_wallet_index: wallet_index,
            remote_basepoints: Basepoints {
                revocation: PubKey(pts.revocation_basepoint.0.serialize()),
                payment: PubKey(pts.payment_point.serialize()),
                htlc: PubKey(pts.htlc_basepoint.0.serialize()),
                delayed_payment: PubKey(pts.delayed_payment_basepoint.0.serialize()),
            },
            remote_funding_pubkey: PubKey(pts.funding_pubkey.serialize()),
            remote_to_self_delay: setup.counterparty_selected_contest_delay,
            remote_shutdown_script: Octets(remote_script.clone()),
            channel_type: Octets(commitment_type_to_channel_type(CommitmentType::StaticRemoteKey)),
        };
        let bytes = m.as_vec();
        let msg = msgs::from_vec(bytes).expect("SetupChannel survives the wire");
        let r = catch_unwind(AssertUnwindSafe(|| self.handler.handle(msg)));
        let ok = matches!(r, Ok(Ok(_)));
        let mut mapping: Vec<String> = vec![];
        let mut monitor: Vec<String> = vec![];
        if ok {
            // what the channel now holds against what the message said
            let actual = self.node.with_channel(&self.channel_id, |c| Ok(c.setup.clone())).expect("ready");
            if actual.is_outbound != setup.is_outbound {
                mapping.push("is_outbound".into());
            }
            if actual.channel_value_sat != setup.channel_value_sat {
                mapping.push(format!("channel_value: {} sat on the wire, {} in the channel", setup.channel_value_sat, actual.channel_value_sat));
            }
            if actual.push_value_msat != setup.push_value_msat {
                mapping.push(format!("push_value: {} msat on the wire, {} in the channel", setup.push_value_msat, actual.push_value_msat));
            }
            if actual.funding_outpoint != setup.funding_outpoint {
                mapping.push("funding outpoint".into());
            }
            if actual.holder_shutdown_script != setup.holder_shutdown_script {
                mapping.push("local_shutdown_script".into());
            }
            if actual.holder_selected_contest_delay != setup.holder_selected_contest_delay
                || actual.counterparty_selected_contest_delay != setup.counterparty_selected_contest_delay
            {
                mapping.push("contest delays".into());
            }
            if actual.counterparty_points.funding_pubkey != pts.funding_pubkey {
                mapping.push("remote_funding_pubkey".into());
            }
            let want_remote = if remote_script.is_empty() { None } else { Some(ScriptBuf::from(remote_script.clone())) };
            if actual.counterparty_shutdown_script != want_remote {
                mapping.push("remote_shutdown_script".into());
            }
            // the upfront clause: a fixed shutdown script is wallet-derivable under the given index or allowlisted
            if let Some(up) = &setup.holder_shutdown_script {
                let p: Vec<u32> = wallet_index.map(|i| vec![i]).unwrap_or_default();
                if !self.uni.owned(up, &p) && !ref_warned(&self.pol.rules, "policy-mutual-destination-allowlisted") {
                    monitor.push("SetupChannel fixed an upfront shutdown script that is neither wallet-derivable under local_shutdown_wallet_index nor allowlisted".into());
                }
            }
            let nctx = self.nctx();
            let keys = make_test_counterparty_keys(&nctx, &self.channel_id, setup.channel_value_sat);
            self.cctx = Some(TestChannelContext { channel_id: self.channel_id.clone(), setup: setup.clone(), counterparty_keys: keys });
            self.setup = setup.clone();
            self.setup_route = "wire";
        }
        let rec = json!({
            "kind": "setup-wire", "protocol": self.proto, "accepted": ok, "panic": r.is_err(),
            "message": {"is_outbound": setup.is_outbound, "channel_value": setup.channel_value_sat, "push_value": setup.push_value_msat,
                        "funding_txid": hex::encode(setup.funding_outpoint.txid.to_byte_array()), "funding_txout": setup.funding_outpoint.vout,
                        "to_self_delay": setup.holder_selected_contest_delay, "remote_to_self_delay": setup.counterparty_selected_contest_delay,
                        "local_shutdown_script": setup.holder_shutdown_script.as_ref().map(|x| hex::encode(x.as_bytes())),
                        "local_shutdown_wallet_index": wallet_index, "remote_shutdown_script": hex::encode(&remote_script)},
            "allowlisted_scripts": self.uni.allow.iter().map(hex::encode).collect::<Vec<_>>(),
            "filter_rules": self.pol.rules,
            "mapping_violation": mapping, "monitor_violation": monitor,
        });
        (ok, rec)
    }

    /// a signer restart: a second Node built from the store alone
    fn restart(&mut self, daemon_way: bool) {
        if daemon_way {
            // the same configuration on every start
            let root = start_daemon(&self.pol, &self.flaky, &self.clock, self.seed, &self.initial_allowlist, self.proto);
            self.node = root.node().clone();
            assert_eq!(self.node.get_id(), self.node_id);
            self.handler = root.for_new_client(1, PubKey(self.peer), 1);
            return;
        }
        let nodes = self.flaky.get_nodes().expect("get_nodes");
        for (id, entry) in nodes {
            if id == self.node_id {
                self.node = Node::restore_node(&id, entry, &self.seed, services(&self.pol, &self.flaky, &self.clock)).expect("restore");
                self.handler = channel_handler(&self.node, self.proto, self.peer, 1);
                return;
            }
        }
        panic!("node not in store");
    }

    fn mem(&self) -> Option<Est> {
        let slot = self.node.get_channel(&self.channel_id).ok()?;
        let g = slot.lock().ok()?;
        match &*g {
            ChannelSlot::Ready(c) => Some(est_of(&c.enforcement_state)),
            _ => None,
        }
    }
    fn disk(&self) -> Option<Est> {
        let chans = self.flaky.inner.get_node_channels(&self.node_id).ok()?;
        for (id, e) in chans {
            if id == self.channel_id {
                return e.channel_setup.as_ref().map(|_| est_of(&e.enforcement_state));
            }
        }
        None
    }

    fn htlcs(&mut self, vals: &[u64]) -> Vec<HTLCInfo2> {
        vals.iter()
            .map(|v| {
                self.hash_ctr = self.hash_ctr.wrapping_add(1);
                let mut h = [0u8; 32];
                h[0] = 0x77;
                h[1] = self.hash_ctr;
                HTLCInfo2 { value_sat: *v, payment_hash: PaymentHash(h), cltv_expiry: 1000 + self.hash_ctr as u32 }
            })
            .collect()
    }

    /// next holder commitment: counterparty signs it, the signer validates it, the previous one is revoked
    /// (`revoke` false leaves it validated but not yet current)
    fn drive_holder(&mut self, to_h: u64, to_c: u64, offered: &[u64], received: &[u64], revoke: bool) -> bool {
        let total = to_h as u128 + to_c as u128 + offered.iter().chain(received.iter()).map(|x| *x as u128).sum::<u128>();
        if self.dead || total > self.setup.channel_value_sat as u128 {
            return false; // the signer's balance bookkeeping asserts on an overspending commitment
        }
        let n = self.next_h;
        let lookahead = self.lookahead_next && revoke && n >= 1 && offered.is_empty() && received.is_empty() && to_h > 200_000;
        self.lookahead_next = false;
        let off = self.htlcs(offered);
        let rec = self.htlcs(received);
        let node = self.node.clone();
        let cid = self.channel_id.clone();
        let nctx = self.nctx();
        let cctx = self.cctx.as_ref().expect("cctx");
        let r = catch_unwind(AssertUnwindSafe(|| -> Result<bool, Status> {
            let mut ctx = channel_commitment(&nctx, cctx, n, 1000, to_h, to_c, off.clone(), rec.clone());
            let (sig, hsigs) = counterparty_sign_holder_commitment(&nctx, cctx, &mut ctx);
            for h in &off {
                let _ = node.add_keysend(make_test_pubkey(1), h.payment_hash, h.value_sat * 1000);
            }
            node.with_channel(&cid, |c| {
                c.validate_holder_commitment_tx_phase2(n, 1000, to_h, to_c, off.clone(), rec.clone(), &sig, &hsigs)
            })?;
            if !revoke {
                return Ok(false);
            }
            if lookahead {
                // the counterparty sends (validly signed) the commitment AFTER this one before this one is
                // revoked: whatever the signer answers, the commitment that becomes current below is n
                let (lh, lc) = (to_h - 100_000, to_c + 100_000);
                let mut ctx2 = channel_commitment(&nctx, cctx, n + 1, 1000, lh, lc, vec![], vec![]);
                let (sig2, hsigs2) = counterparty_sign_holder_commitment(&nctx, cctx, &mut ctx2);
                let _ = node.with_channel(&cid, |c| {
                    c.validate_holder_commitment_tx_phase2(n + 1, 1000, lh, lc, vec![], vec![], &sig2, &hsigs2)
                });
            }
            node.with_channel(&cid, |c| {
                if n == 0 {
                    c.activate_initial_commitment().map(|_| ())
                } else {
                    c.revoke_previous_holder_commitment(n).map(|_| ())
                }
            })?;
            Ok(true)
        }));
        if r.is_err() {
            self.dead = true;
        }
        let st = match &r {
            Ok(Ok(true)) => "current",
            Ok(Ok(false)) => "validated-not-revoked",
            Ok(Err(_)) => "refused",
            Err(_) => "panic",
        };
        self.drive_log.push(json!({"holder_commitment": n, "to_holder": to_h, "to_counterparty": to_c,
            "offered_htlcs": offered, "received_htlcs": received, "result": st,
            "then_validated_the_commitment_after_it_before_revoking": lookahead}));
        if let Ok(Ok(true)) = r {
            self.ledger_holder = Some(Content { to_h, to_c, n_offered: offered.len() as u64, n_received: received.len() as u64 });
            self.next_h = n + 1;
            true
        } else {
            false
        }
    }

    /// next counterparty commitment: signed by the signer; the previous one revoked by the counterparty
    fn drive_cp(&mut self, to_h: u64, to_c: u64, offered: &[u64], received: &[u64], revoke_prev: bool) -> bool {
        let total = to_h as u128 + to_c as u128 + offered.iter().chain(received.iter()).map(|x| *x as u128).sum::<u128>();
        if self.dead || total > self.setup.channel_value_sat as u128 {
            return false;
        }
        let n = self.next_c;
        let off = self.htlcs(offered);
        let rec = self.htlcs(received);
        let node = self.node.clone();
        let cid = self.channel_id.clone();
        let pt = PublicKey::from_secret_key(&self.secp, &SecretKey::from_slice(&cp_secret(n)).unwrap());
        let r = catch_unwind(AssertUnwindSafe(|| -> Result<(), Status> {
            for h in &rec {
                let _ = node.add_keysend(make_test_pubkey(1), h.payment_hash, h.value_sat * 1000);
            }
            node.with_channel(&cid, |c| {
                c.sign_counterparty_commitment_tx_phase2(&pt, n, 1000, to_h, to_c, off.clone(), rec.clone()).map(|_| ())
            })
        }));
        let ok = matches!(r, Ok(Ok(())));
        if r.is_err() {
            self.dead = true;
        }
        let mut revoked = false;
        if ok && n > 0 && revoke_prev {
            let sk = SecretKey::from_slice(&cp_secret(n - 1)).unwrap();
            let rr = catch_unwind(AssertUnwindSafe(|| node.with_channel(&cid, |c| c.validate_counterparty_revocation(n - 1, &sk))));
            revoked = matches!(rr, Ok(Ok(())));
        }
        self.drive_log.push(json!({"counterparty_commitment": n, "to_holder": to_h, "to_counterparty": to_c,
            "offered_htlcs": offered, "received_htlcs": received,
            "result": if ok { "signed" } else if r.is_err() { "panic" } else { "refused" }, "previous_revoked": revoked}));
        if ok {
            self.ledger_cp = Some(Content { to_h, to_c, n_offered: offered.len() as u64, n_received: received.len() as u64 });
            // without the revocation of n-1 the signer refuses to sign n+1: the walk stops here
            if n == 0 || revoked {
                self.next_c = n + 1;
            } else {
                self.next_c = u64::MAX;
            }
        }
        ok
    }

    fn allow_edit(&mut self, add: bool, idx: usize) -> Value {
        let s = self.uni.scripts[idx].clone();
        let a = s.addr.clone().expect("addr");
        let r = if add { self.node.add_allowlist(&vec![a.clone()]) } else { self.node.remove_allowlist(&vec![a.clone()]) };
        if r.is_ok() {
            if add {
                self.uni.allow.insert(s.script.as_bytes().to_vec());
            } else {
                self.uni.allow.remove(s.script.as_bytes());
            }
        }
        json!({"allowlist": if add { "add" } else { "remove" }, "address": a, "ok": r.is_ok()})
    }
    /// set_allowlist: afterwards the allowlist is exactly this list
    fn allow_set(&mut self, idxs: &[usize], xpub: bool) -> Value {
        let mut list: Vec<String> = idxs.iter().map(|i| self.uni.scripts[*i].addr.clone().expect("addr")).collect();
        if xpub {
            list.push(self.uni.xpub_str.clone());
        }
        let r = self.node.set_allowlist(&list);
        if r.is_ok() {
            self.uni.allow = idxs.iter().map(|i| self.uni.scripts[*i].script.as_bytes().to_vec()).collect();
            self.uni.xpub_allowed = xpub;
        }
        json!({"allowlist": "set", "list": list, "ok": r.is_ok()})
    }
    fn allow_xpub(&mut self, add: bool) -> Value {
        let x = self.uni.xpub_str.clone();
        let r = if add { self.node.add_allowlist(&vec![x.clone()]) } else { self.node.remove_allowlist(&vec![x.clone()]) };
        if r.is_ok() {
            self.uni.xpub_allowed = add;
        }
        json!({"allowlist": if add { "add" } else { "remove" }, "xpub": true, "ok": r.is_ok()})
    }
}

// ------------------------------------------------------------------ close requests

#[derive(Clone)]
enum Req {
    P2 { vh: u64, vc: u64, sh: Option<ScriptBuf>, sc: Option<ScriptBuf>, path: Vec<u32> },
    P1 { tx: Transaction, paths: Vec<Vec<u32>> },
}

fn clamp64(x: i128) -> u64 {
    if x < 0 {
        0
    } else if x > u64::MAX as i128 {
        u64::MAX
    } else {
        x as u64
    }
}

/// [lo, hi): the fees the policy admits for a transaction of weight w
fn fee_window(pol: &Pol, w: u128) -> (u128, u128) {
    (pol.min_feerate as u128 * w / 1000, (pol.max_feerate as u128 + 1) * w / 1000)
}

struct Plan {
    req: Req,
    label: String,
    // what the generator meant (for the JSON description only)
    intent: Value,
}

fn pick_holder_script(sys: &Sys, rng: &mut Rng, shutdown_path: &[u32]) -> (ScriptBuf, Vec<u32>, &'static str) {
    if let Some(up) = &sys.setup.holder_shutdown_script {
        if rng.chance(3, 5) {
            let p = if rng.chance(4, 5) { shutdown_path.to_vec() } else { vec![] };
            return (up.clone(), p, "upfront");
        }
    }
    if let Some(i) = sys.prefer {
        if rng.chance(3, 5) {
            return (sys.uni.scripts[i].script.clone(), if rng.chance(4, 5) { vec![] } else { vec![1] }, "taken-off-the-allowlist");
        }
    }
    let wallet = sys.uni.by_kind(|k| matches!(k, Kind::Wallet(_, _)));
    let w = *rng.pick(&wallet);
    let wk = match w.kind {
        Kind::Wallet(k, _) => k,
        _ => 0,
    };
    let xs = sys.uni.by_kind(|k| matches!(k, Kind::Xpub(_)));
    let foreign = sys.uni.by_kind(|k| matches!(k, Kind::Foreign(_)));
    match rng.below(100) {
        0..=39 => (w.script.clone(), vec![wk], "wallet"),
        40..=45 => (w.script.clone(), vec![if wk == 1 { 7 } else { 1 }], "wallet-wrong-path"),
        46..=50 => (w.script.clone(), vec![], "wallet-no-path"),
        51..=54 => (w.script.clone(), vec![wk, 0], "wallet-path-len-2"),
        55..=62 => (xs[0].script.clone(), vec![3], "xpub"),
        63..=65 => (xs[0].script.clone(), vec![*rng.pick(&[1u32, 4])], "xpub-wrong-path"),
        66..=80 => {
            let f = *rng.pick(&foreign);
            (f.script.clone(), if rng.chance(1, 2) { vec![] } else { vec![1] }, "foreign")
        }
        81..=88 => (foreign[0].script.clone(), vec![], "foreign0"),
        89..=92 => (sys.uni.by_kind(|k| *k == Kind::Counterparty)[0].script.clone(), vec![], "counterparty-script"),
        93..=95 => (sys.uni.by_kind(|k| *k == Kind::Odd("long-260"))[0].script.clone(), vec![1], "long"),
        96..=97 => (ScriptBuf::new(), vec![], "empty"),
        _ => (w.script.clone(), vec![0x7fff_ffff], "wallet-other-index"),
    }
}

fn pick_cp_script(sys: &Sys, rng: &mut Rng, holder: &ScriptBuf) -> ScriptBuf {
    let cp = sys.uni.by_kind(|k| *k == Kind::Counterparty)[0].script.clone();
    match rng.below(100) {
        0..=79 => cp,
        80..=85 => sys.uni.by_kind(|k| matches!(k, Kind::Foreign(_)))[1].script.clone(),
        86..=91 => sys.uni.by_kind(|k| matches!(k, Kind::Wallet(_, _)))[0].script.clone(),
        92..=94 => holder.clone(),
        95..=97 => sys.uni.by_kind(|k| *k == Kind::Odd("long-260"))[0].script.clone(),
        _ => ScriptBuf::new(),
    }
}

fn gen_request(sys: &Sys, rng: &mut Rng, shutdown_path: &[u32], allow_panic: bool) -> Plan {
    let mem = sys.mem();
    let cv = sys.setup.channel_value_sat;
    let outbound = sys.setup.is_outbound;
    let eps = sys.pol.epsilon as i128;
    let funding = sys.setup.funding_outpoint;
    let (hi, ci) = match mem {
        Some(m) => (m.holder, m.cp),
        None => (None, None),
    };
    // the values the side that does not pay the fee is compared with
    let mut targets: Vec<u64> = vec![];
    if outbound {
        if let Some(c) = ci {
            targets.push(c.to_broadcaster);
        }
        if let Some(h) = hi {
            targets.push(h.to_countersigner);
        }
    } else {
        if let Some(h) = hi {
            targets.push(h.to_broadcaster);
        }
        if let Some(c) = ci {
            targets.push(c.to_countersigner);
        }
    }
    if targets.is_empty() {
        targets.push(cv / 3);
    }
    let commit_fee: u128 = match hi {
        Some(h) => (cv as u128).saturating_sub(h.to_broadcaster as u128 + h.to_countersigner as u128),
        None => 1000,
    };
    let b = *rng.pick(&targets) as i128;
    let lo_t = *targets.iter().min().unwrap() as i128;
    let hi_t = *targets.iter().max().unwrap() as i128;
    let (nfp, nfp_label): (u64, String) = match rng.below(20) {
        0..=5 => (clamp64(b), "at-commitment".into()),
        6 => (clamp64(hi_t - eps), "max-minus-eps".into()),
        7 => (clamp64(hi_t - eps - 1), "max-minus-eps-1".into()),
        8 => (clamp64(lo_t + eps), "min-plus-eps".into()),
        9 => (clamp64(lo_t + eps + 1), "min-plus-eps+1".into()),
        10 => (clamp64(b + eps), "plus-eps".into()),
        11 => (clamp64(b + eps + 1), "plus-eps+1".into()),
        12 => (clamp64(b - eps), "minus-eps".into()),
        13 => (clamp64(b - eps - 1), "minus-eps-1".into()),
        14 => (clamp64(b + *rng.pick(&[1i128, -1, 2, -2])), "off-by-small".into()),
        15 => (clamp64((lo_t + hi_t) / 2), "between".into()),
        16 => (clamp64(b + 2 * eps + 7), "far-above".into()),
        17 => (clamp64(b - eps / 2), "inside-below".into()),
        18 => (0, "zero".into()),
        _ => (clamp64(b + eps - 1), "plus-eps-1".into()),
    };
    let (hscript, hpath, hlabel) = pick_holder_script(sys, rng, shutdown_path);
    let cscript = pick_cp_script(sys, rng, &hscript);
    // plan the outputs: the payer's is assumed present
    let payer_zero = rng.chance(1, 9);
    let (nscript, pscript) = if outbound { (&cscript, &hscript) } else { (&hscript, &cscript) };
    let probe = {
        let (vh, vc) = if outbound { (if payer_zero { 0 } else { 1 }, nfp) } else { (nfp, if payer_zero { 0 } else { 1 }) };
        my_close(vh, vc, &hscript, &cscript, funding)
    };
    let _ = (nscript, pscript);
    let w = my_weight(&probe);
    let (flo, fhi) = fee_window(&sys.pol, w);
    let fee: u128 = match rng.below(16) {
        0 | 1 => flo,
        2 | 3 => fhi.saturating_sub(1),
        4 => flo.saturating_sub(1),
        5 => fhi,
        6 => flo + 1,
        7 => fhi.saturating_sub(2),
        8 => 0,
        9 => commit_fee,
        10 => fhi + 1,
        _ => {
            let top = fhi.min(flo + 40_000).max(flo + 1);
            flo + (rng.next() as u128) % (top - flo)
        }
    };
    let (mut vh, mut vc, fee_label): (u64, u64, String);
    if payer_zero {
        // the side that pays the fee gets nothing: the other one takes the channel less the fee
        let n = clamp64(cv as i128 - fee as i128);
        if outbound {
            vh = 0;
            vc = n;
        } else {
            vh = n;
            vc = 0;
        }
        fee_label = "payer-zero".into();
    } else {
        let payer = clamp64(cv as i128 - nfp as i128 - fee as i128);
        if outbound {
            vh = payer;
            vc = nfp;
        } else {
            vh = nfp;
            vc = payer;
        }
        fee_label = format!("fee={} window=[{},{})", fee, flo, fhi);
    }
    // u64 overflow candidates
    let mut overflow = "";
    if rng.chance(1, 30) {
        let (a, b2) = *rng.pick(&[(u64::MAX, 1u64), (1 << 63, 1 << 63), (u64::MAX, 0), (cv.wrapping_add(1), 0), (u64::MAX - cv, cv.wrapping_add(1))]);
        if rng.chance(1, 2) {
            vh = a;
            vc = b2;
        } else {
            vh = b2;
            vc = a;
        }
        overflow = "overflow-candidate";
    }
    let intent = json!({"non_fee_payer": nfp_label, "fee": fee_label, "holder_script": hlabel, "holder_path": hpath,
                        "weight_planned": w.to_string(), "overflow": overflow});
    // a transaction without outputs makes phase 1 panic (index out of bounds): the signer is gone
    // afterwards, so that request is only made as the last one of a channel
    let no_outputs = vh == 0 && vc == 0;
    if rng.chance(1, 2) || (no_outputs && !allow_panic) {
        // ---- phase 2
        let mut sh = if vh == 0 && rng.chance(3, 5) { None } else { Some(hscript.clone()) };
        let mut sc = if vc == 0 && rng.chance(3, 5) { None } else { Some(cscript.clone()) };
        let mut label = String::from("phase2");
        match rng.below(40) {
            0 => {
                sh = None;
                label.push_str(":no-holder-script");
            }
            1 => {
                sc = None;
                label.push_str(":no-counterparty-script");
            }
            _ => {}
        }
        Plan { req: Req::P2 { vh, vc, sh, sc, path: hpath }, label, intent }
    } else {
        // ---- phase 1: the canonical transaction of the intent, then possibly a deviation
        let mut tx = my_close(vh, vc, &hscript, &cscript, funding);
        let mut paths: Vec<Vec<u32>> = vec![];
        let mut holder_seen = false;
        for o in &tx.output {
            if !holder_seen && vh > 0 && o.value.to_sat() == vh && o.script_pubkey == hscript {
                paths.push(hpath.clone());
                holder_seen = true;
            } else if rng.chance(1, 12) {
                paths.push(vec![1]);
            } else {
                paths.push(vec![]);
            }
        }
        let mut label = String::from("phase1");
        let m = rng.below(64);
        match m {
            0 | 1 if tx.output.len() == 2 => {
                tx.output.swap(0, 1);
                paths.swap(0, 1);
                label.push_str(":outputs-swapped");
            }
            2 | 3 | 20..=27 if tx.output.len() == 2 => {
                paths.swap(0, 1);
                label.push_str(":paths-swapped");
            }
            4 => {
                paths.pop();
                label.push_str(":one-path-less");
            }
            5 => {
                paths.push(vec![1]);
                label.push_str(":one-path-more");
            }
            6 | 7 => {
                tx.output.push(TxOut { value: Amount::from_sat(1000), script_pubkey: hscript.clone() });
                paths.push(hpath.clone());
                label.push_str(":extra-output");
            }
            8 => {
                tx.version = Version(*rng.pick(&[1i32, 3, -1]));
                label.push_str(":version");
            }
            9 => {
                tx.lock_time = LockTime::from_consensus(*rng.pick(&[1u32, 499_999_999, 500_000_000, u32::MAX]));
                label.push_str(":locktime");
            }
            10 => {
                tx.input[0].sequence = Sequence(*rng.pick(&[0u32, 0xffff_fffe, 0xffff_fffd]));
                label.push_str(":sequence");
            }
            11 => {
                tx.input[0].previous_output.vout ^= 1;
                label.push_str(":funding-vout");
            }
            12 => {
                tx.input[0].previous_output.txid = Txid::from_slice(&[3u8; 32]).unwrap();
                label.push_str(":funding-txid");
            }
            13 => {
                let extra = TxIn {
                    previous_output: OutPoint { txid: Txid::from_slice(&[4u8; 32]).unwrap(), vout: 0 },
                    script_sig: ScriptBuf::new(),
                    sequence: Sequence(0xffff_ffff),
                    witness: Witness::new(),
                };
                tx.input.push(extra);
                label.push_str(":extra-input");
            }
            14 => {
                tx.input[0].script_sig = ScriptBuf::from(vec![0x51u8]);
                label.push_str(":script-sig");
            }
            15 => {
                tx.input[0].witness.push(vec![1u8, 2, 3]);
                label.push_str(":witness");
            }
            16 => {
                tx.output.insert(0, TxOut { value: Amount::from_sat(0), script_pubkey: cscript.clone() });
                paths.insert(0, vec![]);
                label.push_str(":zero-value-output");
            }
            17 if tx.output.len() >= 1 => {
                let o = tx.output[0].clone();
                tx.output.push(o);
                paths.push(paths[0].clone());
                label.push_str(":duplicated-output");
            }
            18 if allow_panic => {
                tx.output.clear();
                paths.clear();
                label.push_str(":no-outputs");
            }
            19 => {
                tx.input.clear();
                label.push_str(":no-inputs");
            }
            _ => {}
        }
        Plan { req: Req::P1 { tx, paths }, label, intent }
    }
}

// ------------------------------------------------------------------ the property, evaluated independently (u128)

struct Facts<'a> {
    pol: &'a Pol,
    outbound: bool,
    cv: u64,
    upfront: &'a Option<ScriptBuf>,
    funding: OutPoint,
    holder: Option<Content>,
    cp: Option<Content>,
}

/// violated conjuncts of the property for one assignment, each with the tag whose downgrade excuses it
fn conjunction(f: &Facts, uni: &Universe, vh: u64, vc: u64, sh: &Option<ScriptBuf>, sc: &Option<ScriptBuf>, path: &[u32])
    -> Vec<(&'static str, String)> {
    let mut v: Vec<(&'static str, String)> = vec![];
    let (h, c) = match (f.holder, f.cp) {
        (Some(h), Some(c)) => (h, c),
        _ => {
            v.push(("", "a current commitment is missing".into()));
            return v;
        }
    };
    if h.n_offered + h.n_received + c.n_offered + c.n_received > 0 {
        v.push(("policy-mutual-no-pending-htlcs", "an HTLC is pending in a current commitment".into()));
    }
    let sum = vh as u128 + vc as u128;
    let empty = ScriptBuf::new();
    let t = my_close(vh, vc, sh.as_ref().unwrap_or(&empty), sc.as_ref().unwrap_or(&empty), f.funding);
    let w = my_weight(&t);
    if sum > f.cv as u128 {
        v.push(("", format!("outputs {} exceed the channel value {}", sum, f.cv)));
    } else {
        let fee = f.cv as u128 - sum;
        if (f.pol.min_feerate as u128) * w > fee * 1000 + 999 {
            v.push(("policy-mutual-fee-range", format!("fee {} below the minimum rate for weight {}", fee, w)));
        }
        if f.pol.max_feerate < u32::MAX && fee * 1000 + 999 >= (f.pol.max_feerate as u128 + 1) * w {
            v.push(("policy-mutual-fee-range", format!("fee {} above the maximum rate for weight {}", fee, w)));
        }
    }
    let eps = f.pol.epsilon as u128;
    let near = |a: u64, b: u64| (a as u128) <= b as u128 + eps && (b as u128) <= a as u128 + eps;
    if f.outbound {
        if !near(vc, c.to_c) || !near(vc, h.to_c) {
            v.push(("policy-mutual-value-matches-commitment",
                    format!("counterparty gets {} but has {} / {} in the commitments", vc, h.to_c, c.to_c)));
        }
    } else if !near(vh, h.to_h) || !near(vh, c.to_h) {
        v.push(("policy-mutual-value-matches-commitment",
                format!("holder gets {} but has {} / {} in the commitments", vh, h.to_h, c.to_h)));
    }
    if vh > 0 {
        match sh {
            None => v.push(("policy-mutual-destination-allowlisted", "holder value without a script".into())),
            Some(s) => {
                if !uni.owned(s, path) {
                    v.push(("policy-mutual-destination-allowlisted", "holder output neither wallet-derivable under its path nor allowlisted".into()));
                }
                if let Some(u) = f.upfront {
                    if u != s {
                        v.push(("policy-mutual-destination-allowlisted", "holder output is not the upfront shutdown script".into()));
                    }
                }
            }
        }
    }
    if vc > 0 && sc.is_none() {
        v.push(("policy-mutual-destination-allowlisted", "counterparty value without a script".into()));
    }
    v
}

fn unexcused(rules: &[(String, bool, bool)], v: Vec<(&'static str, String)>) -> Vec<String> {
    v.into_iter().filter(|(tag, _)| tag.is_empty() || !ref_warned(rules, tag)).map(|(_, m)| m).collect()
}

// ------------------------------------------------------------------ running one request

struct Outcome {
    case: Value,
    aborted: bool,
    signed: bool,
}

fn json_tx(t: &Transaction) -> Value {
    json!({"version": t.version.0, "lock_time": t.lock_time.to_consensus_u32(),
           "inputs": t.input.iter().map(|i| json!({"outpoint": format!("{}:{}", hex::encode(i.previous_output.txid.to_byte_array()), i.previous_output.vout),
                "sequence": i.sequence.0, "script_sig": hex::encode(i.script_sig.as_bytes()), "witness_items": i.witness.len()})).collect::<Vec<_>>(),
           "outputs": t.output.iter().map(|o| json!({"value_sat": o.value.to_sat(), "script": hex::encode(o.script_pubkey.as_bytes())})).collect::<Vec<_>>()})
}

/// One close request as a protocol message.  The second component is the independent statement of what the
/// message must become at the core call:
///   SignMutualCloseTx2: to_local_value_sat / to_remote_value_sat are the holder's / the counterparty's value in
///     satoshi; local_script / remote_script the holder's / the counterparty's script, empty = none;
///     local_wallet_path_hint the wallet path of the holder's script, index by index;
///   SignMutualCloseTx: `tx` is the transaction to validate and sign (not the PSBT's own unsigned transaction); the
///     wallet path of output i is the path of the single bip32_derivation entry of PSBT output i, else of its single
///     tap_key_origins entry, else empty; remote_funding_key, redeem / witness scripts and everything else in the
///     PSBT have no influence.
/// None: the request cannot be expressed on the wire (a transaction without inputs does not survive the encoding).
fn to_wire(sys: &Sys, req: &Req, rng: &mut Rng) -> Option<(Vec<u8>, Req, Value)> {
    match req {
        Req::P2 { vh, vc, sh, sc, path } => {
            let m = msgs::SignMutualCloseTx2 {
                to_local_value_sat: *vh,
                to_remote_value_sat: *vc,
                local_script: Octets(sh.as_ref().map(|x| x.to_bytes()).unwrap_or_default()),
                remote_script: Octets(sc.as_ref().map(|x| x.to_bytes()).unwrap_or_default()),
                local_wallet_path_hint: ArrayBE(path.clone()),
            };
            let ne = |o: &Option<ScriptBuf>| o.clone().filter(|x| !x.is_empty());
            let eff = Req::P2 { vh: *vh, vc: *vc, sh: ne(sh), sc: ne(sc), path: path.clone() };
            let j = json!({"message": "SignMutualCloseTx2", "to_local_value_sat": vh, "to_remote_value_sat": vc,
                           "local_script": sh.as_ref().map(|x| hex::encode(x.as_bytes())).unwrap_or_default(),
                           "remote_script": sc.as_ref().map(|x| hex::encode(x.as_bytes())).unwrap_or_default(),
                           "local_wallet_path_hint": path});
            Some((m.as_vec(), eff, j))
        }
        Req::P1 { tx, paths } => {
            if tx.input.is_empty() {
                return None;
            }
            // the PSBT's own transaction: unsigned, one output per path (so it need not be the transaction to sign)
            let mut base = tx.clone();
            for i in base.input.iter_mut() {
                i.script_sig = ScriptBuf::new();
                i.witness = Witness::new();
            }
            let filler = TxOut { value: Amount::from_sat(rng.below(5000)), script_pubkey: ScriptBuf::from(vec![0x51u8]) };
            base.output.resize(paths.len(), filler);
            if rng.chance(1, 6) {
                // values the handler must not read
                for o in base.output.iter_mut() {
                    o.value = Amount::from_sat(o.value.to_sat() ^ 0x55);
                }
                base.lock_time = LockTime::from_consensus(7);
            }
            let mut psbt = Psbt::from_unsigned_tx(base).ok()?;
            let mut styles: Vec<&str> = vec![];
            for (i, p) in paths.iter().enumerate() {
                let fp = Fingerprint::from([rng.below(256) as u8, 1, 2, 3]);
                let key = make_test_pubkey(60 + (rng.below(8) as u8));
                let style = if p.is_empty() && rng.chance(1, 2) {
                    "none"
                } else if rng.chance(1, 5) {
                    "tap_key_origins"
                } else {
                    "bip32_derivation"
                };
                match style {
                    "tap_key_origins" => {
                        let x: XOnlyPublicKey = key.x_only_public_key().0;
                        psbt.outputs[i].tap_key_origins.insert(x, (vec![], (fp, dpath(p))));
                    }
                    "bip32_derivation" => {
                        psbt.outputs[i].bip32_derivation.insert(key, (fp, dpath(p)));
                        if rng.chance(1, 8) {
                            // a taproot origin with another path next to it: the bip32 entry wins
                            let x: XOnlyPublicKey = make_test_pubkey(59).x_only_public_key().0;
                            psbt.outputs[i].tap_key_origins.insert(x, (vec![], (fp, dpath(&[9, 9]))));
                        }
                    }
                    _ => {}
                }
                if rng.chance(1, 6) {
                    psbt.outputs[i].witness_script = Some(ScriptBuf::from(vec![0x52u8, 0x53]));
                    psbt.outputs[i].redeem_script = Some(ScriptBuf::from(vec![0x54u8]));
                }
                styles.push(style);
            }
            let real = sys.setup.counterparty_points.funding_pubkey;
            let rfk = if rng.chance(1, 2) { real } else { make_test_pubkey(77) };
            let m = msgs::SignMutualCloseTx {
                tx: WithSize(tx.clone()),
                psbt: WithSize(PsbtWrapper { inner: psbt }),
                remote_funding_key: PubKey(rfk.serialize()),
            };
            let bytes = m.as_vec();
            // only requests that survive the encoding are sent
            match msgs::from_vec(bytes.clone()) {
                Ok(WireMessage::SignMutualCloseTx(d)) if d.tx.0 == *tx && d.psbt.0.inner.outputs.len() == paths.len() => {}
                _ => return None,
            }
            let j = json!({"message": "SignMutualCloseTx", "tx": json_tx(tx), "psbt_output_origin": styles, "psbt_output_paths": paths,
                           "remote_funding_key_is_the_channels": rfk == real});
            Some((bytes, Req::P1 { tx: tx.clone(), paths: paths.clone() }, j))
        }
    }
}

fn exec(sys: &mut Sys, plan: &Plan, fail_store: bool, id: &str, wire: Option<(Vec<u8>, Req, Value)>) -> Outcome {
    let node = sys.node.clone();
    let cid = sys.channel_id.clone();
    // the request as the core must see it: the plan's, or what the wire message stands for
    let req: Req = match &wire {
        Some((_, eff, _)) => eff.clone(),
        None => plan.req.clone(),
    };
    let before_mem = sys.mem();
    let before_disk = sys.disk();
    let (mem0, disk0) = match (before_mem, before_disk) {
        (Some(m), Some(d)) => (m, d),
        _ => panic!("channel not ready"),
    };
    // the harness's ledger must describe the same commitments as the signer's state
    let ledger_ok = mem0.holder == sys.ledger_holder.map(|c| Info { to_broadcaster: c.to_h, to_countersigner: c.to_c, n_offered: c.n_offered, n_received: c.n_received })
        && mem0.cp == sys.ledger_cp.map(|c| Info { to_broadcaster: c.to_c, to_countersigner: c.to_h, n_offered: c.n_offered, n_received: c.n_received });
    // oracle answers of the real wallet for the (path, script) pairs of the request
    let mut pairs: Vec<(Vec<u32>, ScriptBuf)> = vec![];
    match &req {
        Req::P2 { sh, path, .. } => {
            if let Some(s) = sh {
                pairs.push((path.clone(), s.clone()));
            }
        }
        Req::P1 { tx, paths } => {
            for (o, p) in tx.output.iter().zip(paths.iter()) {
                pairs.push((p.clone(), o.script_pubkey.clone()));
            }
        }
    }
    let mut cs_tab: Vec<String> = vec![];
    let mut al_tab: Vec<String> = vec![];
    let mut oracle_json: Vec<Value> = vec![];
    let mut allow_diverges: Vec<String> = vec![];
    for (p, s) in &pairs {
        let wallet: &dyn Wallet = &*node;
        let a = match catch_unwind(AssertUnwindSafe(|| wallet.can_spend(&dpath(p), s))) {
            Ok(Ok(false)) => 0,
            Ok(Ok(true)) => 1,
            _ => 2,
        };
        // "allowlisted" is the operator's record, never the node's answer; the node's is kept for comparison
        let b_node = catch_unwind(AssertUnwindSafe(|| wallet.allowlist_contains(s, &dpath(p)))).unwrap_or(false);
        let b = sys.uni.allowlisted(s, p);
        if b != b_node {
            allow_diverges.push(format!("script {} path {:?}: operator's record says {}, the signer says {}", hex::encode(s.as_bytes()), p, b, b_node));
        }
        cs_tab.push(format!("({}, {}, {})", coq_path(p), coq_script(s), a));
        al_tab.push(format!("({}, {}, {})", coq_script(s), coq_path(p), coq_bool(b)));
        oracle_json.push(json!({"path": p, "script": hex::encode(s.as_bytes()), "can_spend": (["false", "true", "error"][a]), "allowlisted": b}));
    }
    // validator level (error tag), on copies of the channel's setup and state, outside every lock
    let (setup_c, estate_c, validator) = node
        .with_channel(&cid, |c| Ok((c.setup.clone(), c.enforcement_state.clone(), c.validator())))
        .expect("channel");
    let wallet: &dyn Wallet = &*node;
    let (vcode, chosen): (u64, Option<(u64, u64, ScriptBuf, ScriptBuf)>) = match &req {
        Req::P2 { vh, vc, sh, sc, path } => {
            let r = catch_unwind(AssertUnwindSafe(|| {
                validator.validate_mutual_close_tx(wallet, &setup_c, &estate_c, *vh, *vc, sh, sc, &dpath(path))
            }));
            (match r {
                Err(_) => 1,
                Ok(Ok(())) => 0,
                Ok(Err(ve)) => err_code(&ve),
            }, None)
        }
        Req::P1 { tx, paths } => {
            let dp: Vec<DerivationPath> = paths.iter().map(|p| dpath(p)).collect();
            let r = catch_unwind(AssertUnwindSafe(|| {
                validator.decode_and_validate_mutual_close_tx(wallet, &setup_c, &estate_c, tx, &dp)
            }));
            match r {
                Err(_) => (1, None),
                Ok(Ok(ct)) => (0, Some((ct.to_holder_value_sat(), ct.to_counterparty_value_sat(),
                                        ct.to_holder_script().to_owned(), ct.to_counterparty_script().to_owned()))),
                Ok(Err(ve)) => (err_code(&ve), None),
            }
        }
    };
    // channel level
    sys.flaky.fail_update_channel.store(fail_store, Ordering::SeqCst);
    let mut wire_notes: Vec<String> = vec![];
    let (ccode, sig, status): (u64, Option<Signature>, String) = match &wire {
        None => {
            let r: std::thread::Result<Result<Signature, Status>> = catch_unwind(AssertUnwindSafe(|| {
                node.with_channel(&cid, |c| match &req {
                    Req::P2 { vh, vc, sh, sc, path } => c.sign_mutual_close_tx_phase2(*vh, *vc, sh, sc, &dpath(path)),
                    Req::P1 { tx, paths } => {
                        let dp: Vec<DerivationPath> = paths.iter().map(|p| dpath(p)).collect();
                        c.sign_mutual_close_tx(tx, &dp)
                    }
                })
            }));
            match &r {
                Err(_) => (1, None, "panic".into()),
                Ok(Ok(s)) => (0, Some(*s), String::new()),
                Ok(Err(e)) => (status_code(e), None, format!("{:?}", e.code())),
            }
        }
        Some((bytes, _, _)) => {
            // encoded with as_vec, decoded with from_vec, handled by the channel's protocol handler
            let msg = msgs::from_vec(bytes.clone()).expect("request survives the wire");
            let handler = &sys.handler;
            let r = catch_unwind(AssertUnwindSafe(|| handler.handle(msg)));
            match r {
                Err(_) => (1, None, "panic".into()),
                Ok(Ok(reply)) => match msgs::from_vec(reply.as_vec()) {
                    Ok(WireMessage::SignTxReply(rep)) => {
                        if rep.signature.sighash != EcdsaSighashType::All as u8 {
                            wire_notes.push(format!("reply carries sighash type {}", rep.signature.sighash));
                        }
                        match Signature::from_compact(&rep.signature.signature.0) {
                            Ok(sg) => (0, Some(sg), String::new()),
                            Err(_) => {
                                wire_notes.push("reply does not carry a valid compact signature".into());
                                (9, None, "bad signature encoding".into())
                            }
                        }
                    }
                    _ => {
                        wire_notes.push("reply is not a SignTxReply".into());
                        (9, None, "unexpected reply".into())
                    }
                },
                Ok(Err(HandlerError::Signing(st))) => (status_code(&st), None, format!("{:?}", st.code())),
                Ok(Err(HandlerError::Temporary(st))) => (9, None, format!("temporary {:?}", st.code())),
                Ok(Err(HandlerError::Protocol(e))) => (8, None, format!("protocol {:?}", e)),
            }
        }
    };
    sys.flaky.fail_update_channel.store(false, Ordering::SeqCst);
    let aborted = ccode == 1;
    let (mem1, disk1) = if aborted { (mem0, sys.disk().unwrap_or(disk0)) } else { (sys.mem().unwrap_or(mem0), sys.disk().unwrap_or(disk0)) };

    // ---- the signature, against the digest of a transaction the harness assembles itself
    let rules = sys.pol.rules.clone();
    let facts = Facts {
        pol: &sys.pol,
        outbound: sys.setup.is_outbound,
        cv: sys.setup.channel_value_sat,
        upfront: &sys.setup.holder_shutdown_script,
        funding: sys.setup.funding_outpoint,
        holder: sys.ledger_holder,
        cp: sys.ledger_cp,
    };
    let mut viol: Vec<String> = vec![];
    let mut signed_tx: Option<Transaction> = None;
    if let Some(sig) = &sig {
        let (hk, ck) = node
            .with_channel(&cid, |c| Ok((c.keys.pubkeys().funding_pubkey, c.setup.counterparty_points.funding_pubkey)))
            .expect("keys");
        let redeem = funding_redeemscript(&hk, &ck);
        let cv = sys.setup.channel_value_sat;
        let empty = ScriptBuf::new();
        match &req {
            Req::P2 { vh, vc, sh, sc, path } => {
                let t = my_close(*vh, *vc, sh.as_ref().unwrap_or(&empty), sc.as_ref().unwrap_or(&empty), facts.funding);
                if verifies(&sys.secp, &t, &redeem, cv, &hk, sig) {
                    signed_tx = Some(t);
                } else {
                    viol.push("the signature does not verify against the canonical closing transaction of the request".into());
                }
                viol.extend(unexcused(&rules, conjunction(&facts, &sys.uni, *vh, *vc, sh, sc, path)));
            }
            Req::P1 { tx, paths } => {
                // candidate assignments: output i is the holder's (with path i), the rest the counterparty's
                let mut cands: Vec<(u64, u64, Option<ScriptBuf>, Option<ScriptBuf>, Vec<u32>)> = vec![];
                if tx.output.len() == 1 && paths.len() == 1 {
                    let o = &tx.output[0];
                    cands.push((o.value.to_sat(), 0, Some(o.script_pubkey.clone()), None, paths[0].clone()));
                    cands.push((0, o.value.to_sat(), None, Some(o.script_pubkey.clone()), vec![]));
                } else if tx.output.len() == 2 && paths.len() == 2 {
                    for i in 0..2 {
                        let (h, c) = (&tx.output[i], &tx.output[1 - i]);
                        cands.push((h.value.to_sat(), c.value.to_sat(), Some(h.script_pubkey.clone()), Some(c.script_pubkey.clone()), paths[i].clone()));
                    }
                }
                let format_warned = ref_warned(&rules, "policy-onchain-format-standard");
                // with the recomposition tag downgraded the signer signs what it recomposed, which may differ
                // from the request in parts the digest does not cover (script_sig, witness): look for a
                // canonical transaction first in that case
                if format_warned {
                    for (vh, vc, sh, sc, _) in &cands {
                        let t = my_close(*vh, *vc, sh.as_ref().unwrap_or(&empty), sc.as_ref().unwrap_or(&empty), facts.funding);
                        if verifies(&sys.secp, &t, &redeem, cv, &hk, sig) {
                            signed_tx = Some(t);
                            break;
                        }
                    }
                }
                if signed_tx.is_none() && verifies(&sys.secp, tx, &redeem, cv, &hk, sig) {
                    signed_tx = Some(tx.clone());
                }
                if signed_tx.is_none() {
                    viol.push("the signature does not verify against the request's transaction".into());
                }
                let mut best: Option<Vec<String>> = None;
                for (vh, vc, sh, sc, p) in &cands {
                    let mut v = unexcused(&rules, conjunction(&facts, &sys.uni, *vh, *vc, sh, sc, p));
                    let t = my_close(*vh, *vc, sh.as_ref().unwrap_or(&empty), sc.as_ref().unwrap_or(&empty), facts.funding);
                    if t != *tx && !format_warned {
                        v.push("the request is not the canonical closing transaction of this assignment".into());
                    }
                    if best.as_ref().map(|b| v.len() < b.len()).unwrap_or(true) {
                        best = Some(v);
                    }
                }
                match best {
                    None => viol.push("signed a transaction that has no holder/counterparty assignment".into()),
                    Some(v) => viol.extend(v.into_iter().map(|m| format!("no assignment of the outputs satisfies the property; closest: {}", m))),
                }
            }
        }
        if !mem1.closed {
            viol.push("signature returned but the channel is not marked closed in memory".into());
        }
        if !disk1.closed {
            viol.push("signature returned but the channel is not marked closed in the store".into());
        }
        if fail_store {
            viol.push("signature returned although the store refused the write".into());
        }
    }
    viol.extend(wire_notes.into_iter());

    // ---- Coq case
    let env = format!(
        "({}, mkPol {} {} {}, {}, {})",
        coq_rules(&rules),
        sys.pol.min_feerate,
        sys.pol.max_feerate,
        sys.pol.epsilon,
        coq_list(&cs_tab),
        coq_list(&al_tab)
    );
    let state = format!(
        "({}, mkSetup {} {} {} {}, {}, {})",
        coq_bool(!fail_store),
        coq_bool(sys.setup.is_outbound),
        sys.setup.channel_value_sat,
        coq_opt_script(&sys.setup.holder_shutdown_script),
        coq_outpoint(&sys.setup.funding_outpoint),
        coq_est(&mem0),
        coq_est(&disk0)
    );
    let (phase, coq, req_json) = match &req {
        Req::P2 { vh, vc, sh, sc, path } => {
            let args = format!("(mkArgs {} {} {} {} {})", vh, vc, coq_opt_script(sh), coq_opt_script(sc), coq_path(path));
            let obs = format!("({}, {}, {}, {}, {})", vcode, ccode, coq_opt_tx(&signed_tx), coq_est(&mem1), coq_est(&disk1));
            (2, format!("({}, {}, {}, {})", env, state, args, obs),
             json!({"to_holder_value_sat": vh, "to_counterparty_value_sat": vc,
                    "holder_script": sh.as_ref().map(|s| hex::encode(s.as_bytes())),
                    "counterparty_script": sc.as_ref().map(|s| hex::encode(s.as_bytes())), "holder_wallet_path_hint": path}))
        }
        Req::P1 { tx, paths } => {
            let ch = match &chosen {
                None => "None".to_string(),
                Some((a, b, s, t)) => format!("(Some ({}, {}, {}, {}))", a, b, coq_script(s), coq_script(t)),
            };
            let obs = format!("({}, {}, {}, {}, {}, {})", vcode, ch, ccode, coq_opt_tx(&signed_tx), coq_est(&mem1), coq_est(&disk1));
            let ps = coq_list(&paths.iter().map(|p| coq_path(p)).collect::<Vec<_>>());
            (1, format!("({}, {}, ({}, {}), {})", env, state, coq_tx(tx), ps, obs),
             json!({"tx": json_tx(tx), "opaths": paths}))
        }
    };
    let case = json!({
        "id": id, "phase": phase, "kind": plan.label, "intent": plan.intent,
        "route": match &wire { None => "direct".to_string(), Some(_) => format!("wire-v{}", sys.proto) },
        "wire": wire.as_ref().map(|w| w.2.clone()),
        "channel_set_up_by": sys.setup_route,
        "policy": {"min_feerate_per_kw": sys.pol.min_feerate, "max_feerate_per_kw": sys.pol.max_feerate,
                   "epsilon_sat": sys.pol.epsilon, "filter_rules": sys.pol.rules},
        "setup": {"is_outbound": sys.setup.is_outbound, "channel_value_sat": sys.setup.channel_value_sat,
                  "holder_shutdown_script": sys.setup.holder_shutdown_script.as_ref().map(|s| hex::encode(s.as_bytes()))},
        "state_before": json_est(&mem0), "store_refuses_write": fail_store,
        "wallet_answers": oracle_json, "request": req_json,
        "validator_code": vcode, "channel_code": ccode, "status": status,
        "signature_verified_against": signed_tx.as_ref().map(json_tx),
        "closed_after": {"memory": mem1.closed, "store": disk1.closed},
        "ledger_matches_state": ledger_ok,
        "allowlist_diverges": allow_diverges,
        "operator_allowlist": {"scripts": sys.uni.allow.iter().map(hex::encode).collect::<Vec<_>>(), "xpub": sys.uni.xpub_allowed,
                               "configured_initial": sys.initial_allowlist},
        "monitor_violation": viol, "coq": coq,
    });
    Outcome { case, aborted, signed: sig.is_some() }
}

// ------------------------------------------------------------------ the run

fn commit_fee_window(pol: &Pol, n_htlcs: u64) -> (u64, u64) {
    let w = 724 + 172 * n_htlcs as u128;
    let lo = (pol.min_feerate as u128 * w + 999) / 1000;
    let hi = (pol.max_feerate as u128 + 1) * w / 1000;
    (lo.min(u64::MAX as u128) as u64, hi.min(u64::MAX as u128 / 4) as u64)
}

fn pick_policy(rng: &mut Rng) -> Pol {
    let min_feerate = *rng.pick(&[253u32, 253, 253, 1000, 100_000]);
    let max_feerate = *rng.pick(&[25_000u32, 333_333, 333_333, 1_000_000, 4_000_000, u32::MAX]).max(&(min_feerate + 1000));
    let epsilon = *rng.pick(&[0u64, 1, 500, 10_000, 10_000, 10_000, 1_600_000]);
    let rules: Vec<(String, bool, bool)> = match rng.below(24) {
        0 => vec![("policy-mutual-destination-allowlisted".into(), false, true)],
        1 => vec![("policy-mutual-no-pending-htlcs".into(), false, true)],
        2 => vec![("policy-mutual-fee-range".into(), false, true)],
        3 => vec![("policy-mutual-value-matches-commitment".into(), false, true)],
        4 => vec![("policy-mutual-other".into(), false, true)],
        5 => vec![("policy-onchain-format-standard".into(), false, true)],
        6 => vec![("policy-mutual-".into(), true, true)],
        7 => vec![("policy-mutual-fee-range".into(), false, false), ("policy-mutual-".into(), true, true)],
        8 => vec![("policy-mutual".into(), false, true)], // exact match of a non-tag: downgrades nothing
        _ => vec![],
    };
    Pol { min_feerate, max_feerate, epsilon, rules }
}

fn run(args: &Args) {
    let mut rng = Rng::new(args.seed ^ 0xc107);
    let thorough = args.tier == "thorough";
    let mut codes: BTreeMap<String, u64> = Default::default();
    let mut kinds: BTreeMap<String, (u64, u64)> = Default::default();
    let (mut n_req, mut n_signed, mut n_viol, mut n_ledger_bad, mut n_abort) = (0u64, 0u64, 0u64, 0u64, 0u64);
    let mut drive_stats: BTreeMap<String, u64> = Default::default();
    for case in 0..args.n {
        let pol = pick_policy(&mut rng);
        let proto = *rng.pick(&[4u32, 5, 6]);
        // the daemon's configured initial allowlist: mostly not empty
        let (initial, initial_xpub): (Vec<usize>, bool) = match rng.below(10) {
            0 | 1 => (vec![], false),
            2..=6 => (vec![0], false),
            7 => (vec![0, 2], false),
            8 => (vec![0], true),
            _ => (vec![2], false),
        };
        let mut sys = Sys::new(case, pol.clone(), proto, initial.clone(), initial_xpub);
        // ---- allowlist before the channel exists (an upfront script may rely on it)
        let mut events: Vec<Value> = vec![];
        let foreign0 = sys.uni.scripts.iter().position(|s| s.kind == Kind::Foreign(0)).unwrap();
        let foreign2 = sys.uni.scripts.iter().position(|s| s.kind == Kind::Foreign(2)).unwrap();
        if rng.chance(1, 3) {
            events.push(sys.allow_edit(true, foreign0));
        }
        if rng.chance(1, 6) {
            events.push(sys.allow_xpub(true));
        }
        // ---- channel setup
        let mut setup = make_test_channel_setup();
        setup.is_outbound = rng.chance(1, 2);
        setup.channel_value_sat = *rng.pick(&[100_000u64, 3_000_000, 3_000_000, 16_777_215, 5_000_000_000]);
        let cv = setup.channel_value_sat;
        let (cf_lo, cf_hi) = commit_fee_window(&pol, 0);
        // the commitments' own fee: inside their window, away from its edges when there is room
        let cfee = if cf_hi > cf_lo + 4 { cf_lo + (cf_hi - cf_lo) / *rng.pick(&[3u64, 5, 50]) } else { cf_lo };
        let cfee = cfee.min(cv / 4).max(cf_lo.min(cv / 4));
        let push_sat = if setup.is_outbound { *rng.pick(&[0u64, 0, cv / 3, cv / 2, 1000]) } else { 0 };
        setup.push_value_msat = push_sat * 1000;
        let mut shutdown_path: Vec<u32> = vec![];
        // the funding outpoint differs from channel to channel (it is what the signature commits to)
        let mut ft = [2u8; 32];
        ft[0] = rng.below(256) as u8;
        ft[31] = rng.below(256) as u8;
        setup.funding_outpoint = OutPoint { txid: Txid::from_slice(&ft).unwrap(), vout: *rng.pick(&[0u32, 0, 1, 2, 65535]) };
        // the upfront shutdown script, in every form a SetupChannel message can carry: none, wallet p2wpkh / p2sh-p2wpkh /
        // p2tr, somebody else's p2wpkh / p2wsh / p2tr - allowlisted first (the handler knows no wallet path for it, so
        // over the wire only an allowlisted script is accepted) or not
        let upfront_form: &'static str;
        {
            let pos = |k: Kind| sys.uni.scripts.iter().position(|s| s.kind == k).unwrap();
            let (idx, form, wallet): (Option<usize>, &'static str, bool) = match rng.below(20) {
                0 | 1 => (Some(pos(Kind::Wallet(7, "p2wpkh"))), "wallet-p2wpkh", true),
                2 | 3 | 4 => (Some(pos(Kind::Wallet(7, "p2tr"))), "wallet-p2tr", true),
                5 => (Some(pos(Kind::Wallet(7, "p2sh-p2wpkh"))), "wallet-p2sh-p2wpkh", true),
                6 | 7 => (Some(foreign0), "foreign-p2wpkh", false),
                8 => (Some(foreign2), "foreign-p2wsh", false),
                9 | 10 | 11 => (Some(pos(Kind::Foreign(3))), "foreign-p2tr", false),
                _ => (None, "none", false),
            };
            upfront_form = form;
            if let Some(i) = idx {
                // wallet scripts: allowlisted as well in 2 of 3 channels; other people's: in 5 of 6
                let allow_it = if wallet { rng.chance(2, 3) } else { rng.chance(5, 6) };
                if allow_it && !sys.uni.allow.contains(sys.uni.scripts[i].script.as_bytes()) {
                    events.push(sys.allow_edit(true, i));
                }
                setup.holder_shutdown_script = Some(sys.uni.scripts[i].script.clone());
                if wallet {
                    shutdown_path = vec![7];
                }
            }
        }
        // half of the channels are set up by a SetupChannel message through the protocol handler
        let mut setup_ok = false;
        if rng.chance(1, 2) {
            let idx = match (shutdown_path.first(), rng.below(6)) {
                (Some(k), 0) => Some(*k ^ 6), // another index
                (Some(k), _) => Some(*k),
                (None, 0) => Some(1),
                (None, _) => None,
            };
            let (ok, mut rec) = sys.setup_channel_wire(setup.clone(), idx, &mut rng);
            rec["upfront_form"] = json!(upfront_form);
            *drive_stats.entry(format!("SetupChannel-message:{}:{}", upfront_form, if ok { "accepted" } else { "refused" })).or_insert(0) += 1;
            emit("SETUP", rec);
            setup_ok = ok;
        }
        if !setup_ok && !sys.setup_channel(setup.clone(), &shutdown_path) {
            *drive_stats.entry("setup_channel-refused".into()).or_insert(0) += 1;
            continue;
        }
        // ---- commitments
        let style = rng.below(20);
        // balances after the commitments' fee
        let spendable = cv.saturating_sub(cfee);
        let h0 = if setup.is_outbound { spendable - push_sat.min(spendable) } else { *rng.pick(&[0u64, 0, spendable / 3, spendable]) };
        let c0 = spendable - h0;
        let dust = |x: u64| if x > 0 && x < 354 { 354 } else { x };
        let (h0, c0) = (dust(h0), dust(c0));
        let eps = pol.epsilon;
        if style != 0 {
            sys.drive_holder(h0, c0, &[], &[], true);
        }
        if style != 1 {
            // the counterparty's version of the same balances, skewed by something around epsilon
            let skew = *rng.pick(&[0i128, 0, 0, 1, -1, eps as i128, -(eps as i128), eps as i128 + 1, -(eps as i128) - 1, (eps / 2) as i128]);
            let (hh, cc) = if setup.is_outbound {
                // initial commitment of a channel we fund: the fundee gets at most the pushed value
                (clamp64(h0 as i128 + skew.min(0)), c0)
            } else {
                (h0, clamp64(c0 as i128 + skew.min(0)))
            };
            sys.drive_cp(dust(hh), dust(cc), &[], &[], true);
        }
        let rounds = if style <= 1 { 0 } else { rng.below(4) };
        for round in 0..rounds {
            // a payment one way or the other, the two commitments agreeing up to a skew around epsilon
            let (ph, pc) = match sys.ledger_holder {
                Some(c) => (c.to_h, c.to_c),
                None => (h0, c0),
            };
            let amt = *rng.pick(&[0u64, 1, 354, 10_000, 100_000, ph / 2, pc / 2, ph, pc]);
            let (nh, nc) = if rng.chance(1, 2) { (ph.saturating_sub(amt), pc + amt.min(ph)) } else { (ph + amt.min(pc), pc.saturating_sub(amt)) };
            let (nh, nc) = (dust(nh), dust(nc));
            let with_htlc = rng.chance(1, 4) && round + 1 == rounds || rng.chance(1, 8);
            let hv = 20_000u64;
            let skew = *rng.pick(&[0i128, 0, 0, 1, -1, eps as i128, -(eps as i128), eps as i128 + 1, -(eps as i128) - 1, eps as i128 - 1, (eps / 2) as i128]);
            let holder_first = rng.chance(1, 2);
            let leave_pending = rng.chance(1, 10);
            let mirror = rng.chance(1, 9);
            let do_holder = |sys: &mut Sys, rng: &mut Rng| {
                if with_htlc && nc > hv + 1000 && rng.chance(2, 3) {
                    // an HTLC towards us, funded by the counterparty
                    sys.drive_holder(nh, nc - hv, &[], &[hv], !leave_pending)
                } else if with_htlc && nh > hv + 1000 {
                    sys.drive_holder(nh - hv, nc, &[hv], &[], !leave_pending)
                } else {
                    sys.drive_holder(nh, nc, &[], &[], !leave_pending)
                }
            };
            let do_cp = |sys: &mut Sys, rng: &mut Rng| {
                // skew the side that is compared at close time (the one that does not pay the fee), the fee absorbs it
                let (sh_, sc_) = if sys.setup.is_outbound { (nh, clamp64(nc as i128 + skew)) } else { (clamp64(nh as i128 + skew), nc) };
                // now and then the counterparty's commitment mirrors the holder's (each side holding what the other
                // holds there): every close is then refused unless a comparison reads the wrong side's field
                let (sh_, sc_) = if mirror { (nc, nh) } else { (sh_, sc_) };
                let (sh_, sc_) = (dust(sh_), dust(sc_));
                if with_htlc && sc_ > hv + 1000 && rng.chance(2, 3) {
                    sys.drive_cp(sh_, sc_ - hv, &[hv], &[], !leave_pending)
                } else if with_htlc && sh_ > hv + 1000 && rng.chance(1, 2) {
                    sys.drive_cp(sh_ - hv, sc_, &[], &[hv], !leave_pending)
                } else {
                    sys.drive_cp(sh_, sc_, &[], &[], !leave_pending)
                }
            };
            if sys.next_h == 0 || sys.next_c == 0 || sys.next_c == u64::MAX {
                break;
            }
            sys.lookahead_next = rng.chance(1, 4);
            if holder_first {
                do_holder(&mut sys, &mut rng);
                if rng.chance(7, 8) {
                    do_cp(&mut sys, &mut rng);
                }
            } else {
                do_cp(&mut sys, &mut rng);
                if rng.chance(7, 8) {
                    do_holder(&mut sys, &mut rng);
                }
            }
        }
        for d in &sys.drive_log {
            let k = format!(
                "{}:{}",
                if d.get("holder_commitment").is_some() { "holder" } else { "counterparty" },
                d["result"].as_str().unwrap_or("")
            );
            *drive_stats.entry(k).or_insert(0) += 1;
        }
        if sys.dead {
            *drive_stats.entry("channel-lost-to-a-panic".into()).or_insert(0) += 1;
            continue;
        }
        if rng.chance(1, 6) {
            let d = rng.chance(2, 3);
            sys.restart(d);
            events.push(json!(if d { "restart (HandlerBuilder)" } else { "restart (restore_node)" }));
        }
        // ---- close requests, the allowlist edited in between
        let k_req = if thorough { 10 + rng.below(10) } else { 8 + rng.below(6) } as usize;
        // in some channels an allowlisted destination is taken off the list at run time, the signer restarts with
        // its unchanged configuration, and closes paying the holder there are asked for: they must be refused
        let removal_at: Option<usize> = if !sys.uni.allow.is_empty() && rng.chance(2, 5) { Some(rng.below(k_req as u64 - 2) as usize) } else { None };
        for q in 0..k_req {
            if removal_at == Some(q) && !sys.uni.allow.is_empty() {
                let victim_bytes = sys.uni.allow.iter().next().cloned().unwrap();
                let victim = sys.uni.scripts.iter().position(|x| x.script.as_bytes() == &victim_bytes[..] && x.addr.is_some()).unwrap();
                if rng.chance(1, 2) {
                    events.push(sys.allow_edit(false, victim));
                } else {
                    // replace the list by the other entries
                    let rest: Vec<usize> = (0..sys.uni.scripts.len())
                        .filter(|i| *i != victim && sys.uni.allow.contains(sys.uni.scripts[*i].script.as_bytes()) && sys.uni.scripts[*i].addr.is_some()
                                && matches!(sys.uni.scripts[*i].kind, Kind::Foreign(_)))
                        .collect();
                    let x = sys.uni.xpub_allowed;
                    events.push(sys.allow_set(&rest, x));
                }
                if rng.chance(4, 5) {
                    sys.restart(true);
                    events.push(json!("restart (HandlerBuilder)"));
                }
                sys.prefer = Some(victim);
            }
            match rng.below(18) {
                0 => events.push(sys.allow_edit(true, foreign0)),
                1 => events.push(sys.allow_edit(false, foreign0)),
                2 => events.push(sys.allow_edit(true, foreign2)),
                3 => {
                    let on = sys.uni.xpub_allowed;
                    events.push(sys.allow_xpub(!on))
                }
                4 | 5 => {
                    let d = rng.chance(3, 4);
                    sys.restart(d);
                    events.push(json!(if d { "restart (HandlerBuilder)" } else { "restart (restore_node)" }));
                }
                6 => {
                    let list: Vec<usize> = [foreign0, foreign2].iter().cloned().filter(|_| rng.chance(1, 2)).collect();
                    let x = rng.chance(1, 4);
                    events.push(sys.allow_set(&list, x));
                }
                7 => events.push(sys.allow_edit(false, foreign2)),
                _ => {}
            }
            let last = q + 1 == k_req;
            let plan = gen_request(&sys, &mut rng, &shutdown_path, last);
            let fail_store = rng.chance(1, 14);
            let id = format!("{}.{}", case, q);
            let wire = if rng.chance(1, 2) { to_wire(&sys, &plan.req, &mut rng) } else { None };
            let mut out = exec(&mut sys, &plan, fail_store, &id, wire);
            n_req += 1;
            let c = &mut out.case;
            c["history"] = json!({"commitment_updates": sys.drive_log, "events_before": events});
            events.clear();
            *codes.entry(format!("v{}/c{}", c["validator_code"], c["channel_code"])).or_insert(0) += 1;
            let e = kinds.entry(plan.label.clone()).or_insert((0, 0));
            e.0 += 1;
            if out.signed {
                e.1 += 1;
                n_signed += 1;

            }
            if c["monitor_violation"].as_array().map(|a| !a.is_empty()).unwrap_or(false) {
                n_viol += 1;
            }
            if c["ledger_matches_state"] == json!(false) {
                n_ledger_bad += 1;
            }
            emit("CASE", out.case);
            if out.aborted {
                // a panic poisons the channel lock: the signer is gone, the history ends here
                n_abort += 1;
                break;
            }
        }
    }
    let kinds_json: serde_json::Map<String, Value> =
        kinds.into_iter().map(|(k, (a, b))| (k, json!({"requests": a, "signed": b}))).collect();
    emit(
        "STATS",
        json!({"kind": "close", "requests": n_req, "signed": n_signed, "aborted": n_abort, "monitor_violations": n_viol,
               "ledger_mismatches": n_ledger_bad, "codes(validator/channel)": codes, "request_kinds": kinds_json,
               "commitment_updates": drive_stats}),
    );
}

// ------------------------------------------------------------------ the builders alone

fn build(args: &Args) {
    let mut rng = Rng::new(args.seed ^ 0xb11d);
    let secp = Secp256k1::new();
    let world = World::new(World::default_policy(), [9u8; 32], KeyDerivationStyle::Native);
    let node = world.new_node();
    let uni = Universe::new(&node, &secp);
    let mut scripts: Vec<ScriptBuf> = uni.scripts.iter().map(|s| s.script.clone()).collect();
    for n in [1usize, 2, 252, 253, 254, 300] {
        scripts.push(ScriptBuf::from(vec![0x51u8; n]));
    }
    let mut mismatches = 0u64;
    for id in 0..args.n {
        let sh = rng.pick(&scripts).clone();
        let sc = if rng.chance(1, 8) { sh.clone() } else { rng.pick(&scripts).clone() };
        let base = *rng.pick(&[0u64, 1, 2, 1000, 1_000_000, u64::MAX - 1, u64::MAX]);
        let vh = *rng.pick(&[0u64, 1, base, base.wrapping_add(1), base.wrapping_sub(1)]);
        let vc = *rng.pick(&[0u64, 1, base, base, base.wrapping_add(1), vh]);
        let mut tb = [0u8; 32];
        tb[0] = rng.below(256) as u8;
        tb[31] = rng.below(256) as u8;
        let fo = OutPoint { txid: Txid::from_slice(&tb).unwrap(), vout: *rng.pick(&[0u32, 1, 65535, u32::MAX]) };
        let ldk = ClosingTransaction::new(vh, vc, sh.clone(), sc.clone(), fo);
        let t = ldk.trust().built_transaction().clone();
        // rust-bitcoin's weight of the unsigned transaction plus the expected witness
        let w = t.weight().to_wu() as u128 + WITNESS_WEIGHT;
        let mine = my_close(vh, vc, &sh, &sc, fo);
        let agree = mine == t && my_weight(&mine) == w;
        if !agree {
            mismatches += 1;
        }
        let coq = format!(
            "(({}, {}, {}, {}, {}), ({}, {}))",
            vh, vc, coq_script(&sh), coq_script(&sc), coq_outpoint(&fo), coq_tx(&t), w
        );
        emit(
            "CASE",
            json!({"id": id, "kind": "build", "to_holder_value_sat": vh, "to_counterparty_value_sat": vc,
                   "holder_script_len": sh.len(), "counterparty_script_len": sc.len(),
                   "ldk_tx": json_tx(&t), "weight": w.to_string(), "harness_builder_agrees": agree, "coq": coq}),
        );
    }
    emit("STATS", json!({"kind": "build", "harness_builder_mismatches": mismatches}));
}

fn main() {
    // panics inside the code under test are observations (code 1), not noise
    std::panic::set_hook(Box::new(|info| {
        if std::env::var("VERIF_PANICS").is_ok() {
            eprintln!("panic: {}", info);
        }
    }));
    let argv: Vec<String> = std::env::args().collect();
    let args = parse_args(&argv[2..]);
    match argv[1].as_str() {
        "run" => run(&args),
        "build" => build(&args),
        other => {
            eprintln!("unknown sub-domain {}", other);
            std::process::exit(2)
        }
    }
}
