//! Domain `commit` (C04): counterparty-commitment signing, raw entry point
//! (`Channel::sign_counterparty_commitment_tx`) and semantic entry point
//! (`Channel::sign_counterparty_commitment_tx_phase2`), against the Gallina model
//! Model/Commitment.v.
//!
//! Two stages, both deterministic functions of `--seed` and the case index:
//!
//! * `gen`: builds the node + channel of every case, derives the per-commitment keys and the
//!   commitment-number obscuring factor *independently of vls-core / LDK* (BOLT-3 formulas on
//!   rust-secp256k1 and SHA-256) and prints the Coq term `(setup, keys, content)`.  The driver
//!   evaluates the model's canonical transaction, witness scripts, funding redeemscript and HTLC
//!   transactions for it (vm_compute) and writes the bytes to a file.
//! * `run --model <file>`: rebuilds the same cases and
//!   (a) asks the implementation for the phase-2 signatures of the content,
//!   (b) feeds phase 1 the *model's* transaction bytes and witness scripts,
//!   (c) verifies every returned signature with libsecp256k1 against the BIP143 digest of the
//!       model's bytes (funding key; tweaked HTLC key for the HTLC transactions),
//!   (d) feeds phase 1 (and `decode_commitment_tx`) single-field mutations of the model's
//!       transaction and of each witness script, and records the answers as a Coq case for the
//!       model's `decode` / `sign_phase1`,
//!   with monitors for the property itself (signature verifies only on the transaction rebuilt
//!   from the validated content; entry points agree; no foreign transaction is signed).
use std::collections::{BTreeMap, BTreeSet};
use std::panic::{catch_unwind, AssertUnwindSafe};
use std::sync::Arc;

use lightning_signer::bitcoin::absolute::LockTime;
use lightning_signer::bitcoin::bip32::DerivationPath;
use lightning_signer::bitcoin::consensus::encode::{deserialize, serialize};
use lightning_signer::bitcoin::hashes::{sha256, Hash, HashEngine};
use lightning_signer::bitcoin::script::Instruction;
use lightning_signer::bitcoin::secp256k1::ecdsa::Signature;
use lightning_signer::bitcoin::secp256k1::{All, Message, PublicKey, Scalar, Secp256k1, SecretKey};
use lightning_signer::bitcoin::sighash::{EcdsaSighashType, SighashCache};
use lightning_signer::bitcoin::transaction::Version;
use lightning_signer::bitcoin::{Amount, OutPoint, Script, ScriptBuf, Sequence, Transaction, TxIn, TxOut, Txid, Witness};
use lightning_signer::channel::{ChannelBase, ChannelId, ChannelSetup, CommitmentType};
use lightning_signer::lightning::ln::chan_utils::ChannelPublicKeys;
use lightning_signer::lightning::ln::channel_keys::{
    DelayedPaymentBasepoint, HtlcBasepoint, RevocationBasepoint,
};
use lightning_signer::lightning::sign::ChannelSigner;
use lightning_signer::lightning::types::payment::PaymentHash;
use lightning_signer::node::Node;
use lightning_signer::policy::filter::{FilterRule, PolicyFilter};
use lightning_signer::signer::derive::KeyDerivationStyle;
use lightning_signer::tx::tx::{CommitmentInfo2, HTLCInfo2};
use lightning_signer::bitcoin::psbt::Psbt;
use lightning_signer::bitcoin::BlockHash;
use lightning_signer::lightning::chain::transaction::OutPoint as LdkOutPoint;
use lightning_signer::lightning::ln::chan_utils::{
    ChannelTransactionParameters, CommitmentTransaction, CounterpartyChannelTransactionParameters,
    HTLCOutputInCommitment, TxCreationKeys,
};
use lightning_signer::lightning::ln::channel_keys::{DelayedPaymentKey, HtlcKey, RevocationKey};
use lightning_signer::lightning::types::features::ChannelTypeFeatures;
use serde_json::json;
use vharness::*;
use vls_protocol::model::{self as wmodel, PubKey as WirePubKey};
use vls_protocol::msgs::{self, Message as WireMessage, SerBolt};
use vls_protocol::psbt::PsbtWrapper;
use vls_protocol::serde_bolt::{Array, WithSize};
use vls_protocol_signer::approver::PositiveApprover;
use vls_protocol_signer::handler::{ChannelHandler, Handler, InitHandler, RootHandler};

const INITIAL: u64 = (1 << 48) - 1;

fn hexs(b: &[u8]) -> String {
    hex::encode(b)
}
fn hx(b: &[u8]) -> String {
    format!("(hx \"{}\")", hex::encode(b))
}

// ------------------------------------------------------------------ cases

#[derive(Clone, Debug)]
struct H {
    value: u64,
    hash: [u8; 32],
    cltv: u32,
    /// the wire amount is value * 1000 + extra millisatoshi (extra < 1000)
    extra: u64,
}

#[derive(Clone, Debug)]
struct Case {
    idx: usize,
    kind: &'static str,
    ctype: u8, // 0 legacy, 1 static_remotekey, 2 anchors, 3 anchors zero-fee htlc
    outbound: bool,
    value: u64,
    push_msat: u64,
    txid: [u8; 32],
    vout: u32,
    hdelay: u16,
    cdelay: u16,
    cp_secrets: [[u8; 32]; 5],
    pcp_secret: [u8; 32],
    n: u64,
    feerate: u32,
    to_holder: u64,
    to_cp: u64,
    offered: Vec<H>,
    received: Vec<H>,
    full_mut: bool,
    node_seed: [u8; 32],
    warn: Vec<&'static str>,
    /// permanent channel id handed to setup_channel (None: the channel keeps its initial id only)
    perm_id: Option<[u8; 32]>,
    /// extra policy filter for the HTLC stage: 0 none, 1 warn on the tag policy-htlc-other,
    /// 2 warn on the prefix policy-htlc-, 3 the permissive filter
    filter_mode: u8,
}

fn ctype_of(c: u8) -> CommitmentType {
    match c {
        0 => CommitmentType::Legacy,
        1 => CommitmentType::StaticRemoteKey,
        2 => CommitmentType::Anchors,
        _ => CommitmentType::AnchorsZeroFeeHtlc,
    }
}
fn ctype_coq(c: u8) -> &'static str {
    match c {
        0 => "Legacy",
        1 => "StaticRemoteKey",
        2 => "Anchors",
        _ => "AnchorsZeroFeeHtlc",
    }
}

fn secret(rng: &mut Rng) -> [u8; 32] {
    loop {
        let b = rng.bytes32();
        if SecretKey::from_slice(&b).is_ok() {
            return b;
        }
    }
}

/// BOLT-3 trimming threshold of an HTLC on this - the counterparty's - commitment, computed here:
/// dust limit + feerate * weight / 1000 with the HTLC-timeout weight (663) for an HTLC the
/// broadcaster offers and the HTLC-success weight (703) for one it receives; on zero-fee-anchor
/// channels the second-stage transactions pay no fee.  The signer's dust limits: 330 sat, 354 on
/// zero-fee-anchor channels.
fn trim_threshold(ctype: u8, feerate: u32, offered: bool) -> u64 {
    if ctype == 3 {
        354
    } else {
        330 + feerate as u64 * (if offered { 663 } else { 703 }) / 1000
    }
}

/// weight used by validate_fee (vls-core expected_commitment_tx_weight)
fn expected_weight(ctype: u8, n_htlcs: usize) -> u64 {
    (if ctype >= 2 { 1124 } else { 724 }) + 172 * n_htlcs as u64
}

fn gen_case(seed: u64, idx: usize, tier: &str) -> Case {
    let mut rng = Rng::new(seed ^ (0xc04c04 + 7919 * idx as u64));
    // the four commitment types; the two deprecated ones need the setup policy downgraded
    let ctype = match idx % 8 {
        0 | 4 | 6 => 1u8,
        1 | 5 | 7 => 3,
        2 => 0,
        _ => 2,
    };
    let mut warn = vec![];
    if ctype == 0 || ctype == 2 {
        warn.push("policy-channel-safe-type");
    }
    // HTLCs without invoices: the routing-balance policies (C06) are orthogonal to this property;
    // every fifth case keeps them strict
    if idx % 5 != 4 {
        warn.push("policy-commitment-htlc-routing-balance");
        warn.push("policy-routing-balanced");
    }
    let outbound = rng.chance(1, 2);
    let value = *rng.pick(&[1_000_000u64, 3_000_000, 16_777_215, 100_000_000, 1_000_000_001]);
    let mut txid = rng.bytes32();
    if rng.chance(1, 8) {
        txid = [0u8; 32];
        txid[31] = 1;
    }
    let mut vout = *rng.pick(&[0u32, 0, 1, 2, 7, 255, 256, 65535]);
    // an output index that does not fit LDK's 16-bit channel parameter: the repaired
    // setup_channel refuses it; before the repair the index was truncated and the signatures
    // were for a transaction spending another outpoint (C04_old_vout_truncation_refuted)
    if idx % 16 == 5 {
        vout = *rng.pick(&[65536u32, 65537, 0x0001_0000 + 7, 0x8000_0001]);
    }
    let hdelay = *rng.pick(&[4u16, 5, 15, 16, 17, 127, 128, 129, 144, 255, 256, 1008, 2016]);
    let cdelay = *rng.pick(&[4u16, 6, 144, 2016]);
    let cp_secrets = [secret(&mut rng), secret(&mut rng), secret(&mut rng), secret(&mut rng), secret(&mut rng)];
    let pcp_secret = secret(&mut rng);
    let kind = match rng.below(12) {
        0 => "initial",
        1 => "refused",
        2 | 3 => "edges",
        _ => "valid",
    };
    let n: u64 = if kind == "initial" {
        0
    } else {
        *rng.pick(&[1u64, 1, 2, 3, 42, (1 << 24) - 1, 1 << 24, (1 << 32) + 5, (1 << 47) + 12345, INITIAL - 1, INITIAL])
    };
    let feerate = *rng.pick(&[253u32, 254, 1000, 2500, 5000, 15000]);
    let zf = ctype == 3;
    let lim_off = trim_threshold(ctype, feerate, true);
    let lim_rec = trim_threshold(ctype, feerate, false);
    // amounts at the trim boundaries of BOTH directions, on both sides: threshold - 1, threshold,
    // threshold + 1 (a received HTLC between the two thresholds is trimmed, an offered one is not)
    let boundary = [lim_off.saturating_sub(1), lim_off, lim_off + 1, lim_rec.saturating_sub(1), lim_rec, lim_rec + 1];
    let max_h = if tier == "quick" { 5 } else { 9 };
    let (mut n_off, mut n_rec) = if kind == "initial" {
        (0, 0)
    } else {
        (rng.below(max_h) as usize, rng.below(max_h) as usize)
    };
    if tier != "quick" && rng.chance(1, 40) {
        n_off += 20;
        n_rec += 25;
    }
    let cltvs = [0u32, 1, 16, 17, 127, 128, 255, 256, 32767, 32768, 65535, 65536, (1 << 23) - 1, 1 << 23, 499_999_999];
    let mut pool: Vec<[u8; 32]> = (0..4).map(|_| rng.bytes32()).collect();
    pool.push([0u8; 32]);
    pool.push([0xffu8; 32]);
    let mut mk = |rng: &mut Rng, lim: u64| -> H {
        let value = match rng.below(8) {
            0 => lim,
            1 => lim + 1,
            2 => 1000 + lim + rng.below(5000),
            3 => 100_000,
            4 => 65_536 + lim,
            _ => lim + rng.below(50_000),
        };
        let value = if rng.chance(1, 4) { *rng.pick(&boundary) } else { value };
        let hash = if rng.chance(1, 3) { *rng.pick(&pool) } else { rng.bytes32() };
        H { value, hash, cltv: *rng.pick(&cltvs), extra: *rng.pick(&[0u64, 0, 1, 500, 999]) }
    };
    let mut offered: Vec<H> = (0..n_off).map(|_| mk(&mut rng, lim_off)).collect();
    let mut received: Vec<H> = (0..n_rec).map(|_| mk(&mut rng, lim_rec)).collect();
    // duplicates: identical entries, same hash both ways, same output with another expiry
    if !offered.is_empty() && rng.chance(1, 2) {
        let h = offered[0].clone();
        offered.push(h.clone());
        if rng.chance(1, 2) {
            let mut g = h.clone();
            g.cltv = h.cltv.wrapping_add(1) % 500_000_000;
            offered.insert(0, g);
        }
    }
    if !received.is_empty() && rng.chance(1, 2) {
        let h = received[received.len() - 1].clone();
        received.insert(0, h);
    }
    if !offered.is_empty() && !received.is_empty() && rng.chance(1, 3) {
        received[0].hash = offered[0].hash;
        received[0].value = offered[0].value.max(lim_rec);
    }
    let nh = offered.len() + received.len();
    let hsum: u64 = offered.iter().chain(received.iter()).map(|h| h.value).sum();
    let w = expected_weight(ctype, nh);
    // fee the validator will see (anchor outputs count as fee there)
    let mut fee = feerate as u64 * w / 1000 + *rng.pick(&[0u64, 1, 50]);
    if fee * 1000 / w < 253 {
        fee = 253 * w / 1000 + 1;
    }
    let ldk_anchors = zf;
    let mut to_holder = match rng.below(6) {
        0 => 0,
        1 => 354,
        2 => 355,
        _ => value / 2 - rng.below(value / 4),
    };
    if kind == "initial" && !outbound {
        to_holder = *rng.pick(&[0u64, 354, 1000]);
    }
    let mut rest = value.saturating_sub(hsum).saturating_sub(fee).saturating_sub(to_holder);
    // with anchors the 2 x 330 sat of the anchors come out of the broadcaster's side; the
    // validator counts them as fee, keep that inside the fee window as well
    if ldk_anchors {
        rest = rest.saturating_sub(660);
    }
    let mut to_cp = rest;
    if kind == "initial" && outbound {
        // nothing may go to the fundee beyond push_value: all value (minus fee) stays with us
        to_holder = value.saturating_sub(fee).saturating_sub(if ldk_anchors { 660 } else { 0 });
        to_cp = 0;
    }
    if kind == "edges" {
        match rng.below(4) {
            0 => {
                // everything on the broadcaster's side
                to_cp += to_holder;
                to_holder = 0;
            }
            1 => {
                // everything on our side
                to_holder += to_cp;
                to_cp = 0;
            }
            2 => {
                let d = to_cp.saturating_sub(354);
                to_holder += d;
                to_cp -= d;
            }
            _ => {}
        }
    }
    let mut feerate = feerate;
    if kind == "refused" {
        match rng.below(6) {
            0 => to_cp = 353.min(to_cp.max(1)),
            1 => to_holder = 1,
            2 => {
                if let Some(h) = offered.first_mut() {
                    h.value = lim_off - 1
                } else {
                    to_holder += 100_000_000
                }
            }
            3 => {
                if let Some(h) = received.first_mut() {
                    h.cltv = 500_000_000
                } else {
                    to_cp /= 2
                }
            }
            4 => to_cp = to_cp / 2, // fee far too high
            _ => feerate = 0,       // irrelevant to the builder unless HTLC fees are charged
        }
    }
    let mut node_seed = [0u8; 32];
    node_seed[0] = (idx % 251) as u8;
    node_seed[1] = 0xc4;
    node_seed[2] = (seed % 251) as u8;
    let full_every = if tier == "quick" { 32 } else { 16 };
    // every third channel is readied under a permanent id different from its initial id; the keys
    // stay those of the initial id (read from the stub, before setup_channel)
    let perm_id = if idx % 3 == 1 { Some(rng.bytes32()) } else { None };
    Case {
        idx,
        kind,
        ctype,
        outbound,
        value,
        push_msat: 0,
        txid,
        vout,
        hdelay,
        cdelay,
        cp_secrets,
        pcp_secret,
        n,
        feerate,
        to_holder,
        to_cp,
        offered,
        received,
        full_mut: idx % full_every < 4 && kind != "refused",
        node_seed,
        warn,
        perm_id,
        filter_mode: 0,
    }
}

fn pk_of(secp: &Secp256k1<All>, s: &[u8; 32]) -> PublicKey {
    PublicKey::from_secret_key(secp, &SecretKey::from_slice(s).unwrap())
}

fn cp_points(secp: &Secp256k1<All>, c: &Case) -> ChannelPublicKeys {
    ChannelPublicKeys {
        funding_pubkey: pk_of(secp, &c.cp_secrets[0]),
        revocation_basepoint: RevocationBasepoint(pk_of(secp, &c.cp_secrets[1])),
        payment_point: pk_of(secp, &c.cp_secrets[2]),
        delayed_payment_basepoint: DelayedPaymentBasepoint(pk_of(secp, &c.cp_secrets[3])),
        htlc_basepoint: HtlcBasepoint(pk_of(secp, &c.cp_secrets[4])),
    }
}

fn real_setup(secp: &Secp256k1<All>, c: &Case) -> ChannelSetup {
    ChannelSetup {
        is_outbound: c.outbound,
        channel_value_sat: c.value,
        push_value_msat: c.push_msat,
        funding_outpoint: OutPoint { txid: Txid::from_byte_array(c.txid), vout: c.vout },
        holder_selected_contest_delay: c.hdelay,
        holder_shutdown_script: None,
        counterparty_points: cp_points(secp, c),
        counterparty_selected_contest_delay: c.cdelay,
        counterparty_shutdown_script: None,
        commitment_type: ctype_of(c.ctype),
    }
}

struct Live {
    world: World,
    node: Arc<Node>,
    /// the id the requests are made through (initial or permanent)
    channel_id: ChannelId,
    id0: ChannelId,
    perm: Option<ChannelId>,
    holder: ChannelPublicKeys,
}

impl Live {
    /// a signer restart: the node, its channel and the channel's signer are rebuilt from the store
    fn restart(&mut self) -> bool {
        let id = self.node.get_id();
        match catch_unwind(AssertUnwindSafe(|| self.world.restart(&id))) {
            Ok(n) => {
                self.node = n;
                // after the restart the requests go through the other id of the channel
                if let Some(p) = &self.perm {
                    self.channel_id = if self.channel_id == self.id0 { p.clone() } else { self.id0.clone() };
                }
                true
            }
            Err(_) => false,
        }
    }
}

/// a fresh node with the case's channel, ready to sign commitment `n`
fn make_live(secp: &Secp256k1<All>, c: &Case) -> Option<Live> {
    let mut policy = World::default_policy();
    policy.filter = PolicyFilter { rules: c.warn.iter().map(|t| FilterRule::new_warn(*t)).collect() };
    match c.filter_mode {
        1 => policy.filter.rules.push(FilterRule::new_warn("policy-htlc-other")),
        2 => policy.filter.rules.push(FilterRule {
            tag: "policy-htlc-".to_string(),
            is_prefix: true,
            action: lightning_signer::policy::filter::FilterResult::Warn,
        }),
        3 => policy.filter = PolicyFilter::new_permissive(),
        _ => {}
    }
    let world = World::new(policy, c.node_seed, KeyDerivationStyle::Native);
    let node = world.new_node();
    let peer = pk_of(secp, &[9u8; 32]).serialize();
    let (id0, _) = node.new_channel(1, &peer, &node).ok()?;
    // the channel's own basepoints, as derived for the initial id (the stub's keys)
    let holder = {
        let slot = node.get_channel(&id0).ok()?;
        let g = slot.lock().ok()?;
        match &*g {
            lightning_signer::channel::ChannelSlot::Stub(st) => st.keys.pubkeys().clone(),
            lightning_signer::channel::ChannelSlot::Ready(ch) => ch.keys.pubkeys().clone(),
        }
    };
    let perm = c.perm_id.map(|b| ChannelId::new(&b));
    let setup = real_setup(secp, c);
    let r = catch_unwind(AssertUnwindSafe(|| {
        node.setup_channel(id0.clone(), perm.clone(), setup, &DerivationPath::master())
    }));
    if !matches!(r, Ok(Ok(_))) {
        return None;
    }
    let prev_point = pk_of(secp, &[0x77u8; 32]);
    let n = c.n;
    // requests go through the permanent id in every second case that has one
    let channel_id = match &perm {
        Some(p) if c.idx % 2 == 0 => p.clone(),
        _ => id0.clone(),
    };
    node.with_channel(&channel_id, |chan| {
        if n > 0 {
            chan.enforcement_state.set_next_counterparty_commit_num_for_testing(n, prev_point);
            chan.enforcement_state.set_next_counterparty_revoke_num_for_testing(n - 1);
        }
        Ok(())
    })
    .ok()?;
    Some(Live { world, node, channel_id, id0, perm, holder })
}

// ------------------------------------------------------------------ independent key derivation (BOLT-3)

fn sha2(a: &[u8], b: &[u8]) -> [u8; 32] {
    let mut e = sha256::Hash::engine();
    e.input(a);
    e.input(b);
    sha256::Hash::from_engine(e).to_byte_array()
}

/// pubkey = basepoint + SHA256(per_commitment_point || basepoint) * G
fn derive_pub(secp: &Secp256k1<All>, pcp: &PublicKey, base: &PublicKey) -> PublicKey {
    let t = sha2(&pcp.serialize(), &base.serialize());
    base.add_exp_tweak(secp, &Scalar::from_be_bytes(t).unwrap()).unwrap()
}

/// revocationpubkey = revocation_basepoint * SHA256(revocation_basepoint || per_commitment_point)
///                  + per_commitment_point * SHA256(per_commitment_point || revocation_basepoint)
fn derive_revocation(secp: &Secp256k1<All>, pcp: &PublicKey, base: &PublicKey) -> PublicKey {
    let a = sha2(&base.serialize(), &pcp.serialize());
    let b = sha2(&pcp.serialize(), &base.serialize());
    let p1 = base.mul_tweak(secp, &Scalar::from_be_bytes(a).unwrap()).unwrap();
    let p2 = pcp.mul_tweak(secp, &Scalar::from_be_bytes(b).unwrap()).unwrap();
    p1.combine(&p2).unwrap()
}

struct Keys {
    revocation: PublicKey,
    delayed: PublicKey,
    b_htlc: PublicKey,
    c_htlc: PublicKey,
    obscure: u64,
    pcp: PublicKey,
}

fn derive_keys(secp: &Secp256k1<All>, c: &Case, holder: &ChannelPublicKeys) -> Keys {
    let cp = cp_points(secp, c);
    let pcp = pk_of(secp, &c.pcp_secret);
    // their commitment: they are the broadcaster, we can revoke
    let revocation = derive_revocation(secp, &pcp, &holder.revocation_basepoint.0);
    let delayed = derive_pub(secp, &pcp, &cp.delayed_payment_basepoint.0);
    let b_htlc = derive_pub(secp, &pcp, &cp.htlc_basepoint.0);
    let c_htlc = derive_pub(secp, &pcp, &holder.htlc_basepoint.0);
    // SHA256(payment_basepoint of the opener || payment_basepoint of the accepter), low 48 bits
    let (open, accept) =
        if c.outbound { (holder.payment_point, cp.payment_point) } else { (cp.payment_point, holder.payment_point) };
    let h = sha2(&open.serialize(), &accept.serialize());
    let mut obscure = 0u64;
    for i in 26..32 {
        obscure = (obscure << 8) | h[i] as u64;
    }
    Keys { revocation, delayed, b_htlc, c_htlc, obscure, pcp }
}

/// the content as the wire messages carry it: (side, amount_msat, payment_hash, cltv_expiry) with
/// side 1 = REMOTE (offered by the counterparty, whose commitment this is), 0 = LOCAL; the two
/// lists are interleaved, each keeping its order
fn wire_htlcs(c: &Case) -> Vec<(u8, u64, [u8; 32], u32)> {
    let mut out = vec![];
    let (mut i, mut j) = (0, 0);
    while i < c.offered.len() || j < c.received.len() {
        if i < c.offered.len() {
            let h = &c.offered[i];
            out.push((1u8, h.value * 1000 + h.extra, h.hash, h.cltv));
            i += 1;
        }
        if j < c.received.len() {
            let h = &c.received[j];
            out.push((0u8, h.value * 1000 + h.extra, h.hash, h.cltv));
            j += 1;
        }
    }
    out
}

fn gen_coq(secp: &Secp256k1<All>, c: &Case, holder: &ChannelPublicKeys, k: &Keys) -> (String, String, String) {
    let cp = cp_points(secp, c);
    let setup = format!(
        "(mkSetup {} {} {} {} {} {} {} {} {})",
        ctype_coq(c.ctype),
        coq_bool(c.outbound),
        c.value,
        hx(&c.txid),
        c.vout,
        c.hdelay,
        hx(&holder.funding_pubkey.serialize()),
        hx(&cp.funding_pubkey.serialize()),
        hx(&holder.payment_point.serialize())
    );
    let keys = format!(
        "(mkKeys {} {} {} {} {})",
        hx(&k.revocation.serialize()),
        hx(&k.delayed.serialize()),
        hx(&k.b_htlc.serialize()),
        hx(&k.c_htlc.serialize()),
        k.obscure
    );
    // the model gets the wire content and applies its own reading of it (Commitment.wire_content)
    let content = format!(
        "(wire_content {} {} {} {} {})",
        c.n,
        c.feerate,
        c.to_holder,
        c.to_cp,
        coq_list(
            &wire_htlcs(c)
                .iter()
                .map(|(side, msat, hash, cltv)| format!("(mkWHtlc {} {} {} {})", side, msat, hx(hash), cltv))
                .collect::<Vec<_>>()
        )
    );
    (setup, keys, content)
}

fn case_json(c: &Case) -> serde_json::Value {
    let hs = |v: &Vec<H>| v.iter().map(|h| json!([h.value, hexs(&h.hash), h.cltv, h.value * 1000 + h.extra])).collect::<Vec<_>>();
    json!({
        "idx": c.idx, "kind": c.kind, "ctype": ctype_coq(c.ctype), "outbound": c.outbound, "value": c.value,
        "funding": format!("{}:{}", hexs(&c.txid), c.vout), "holder_delay": c.hdelay, "n": c.n,
        "feerate": c.feerate, "to_holder": c.to_holder, "to_cp": c.to_cp,
        "offered": hs(&c.offered), "received": hs(&c.received), "full_mutation": c.full_mut,
        "permanent_id": c.perm_id.is_some(),
    })
}

fn gen(args: &Args) {
    let secp = Secp256k1::new();
    let mut refused_setup = 0;
    for idx in 0..args.n {
        let c = gen_case(args.seed, idx, &args.tier);
        match make_live(&secp, &c) {
            None => {
                refused_setup += 1;
                emit("GEN", json!({"idx": idx, "setup_refused": true, "case": case_json(&c)}));
            }
            Some(live) => {
                let k = derive_keys(&secp, &c, &live.holder);
                let (s, ks, ct) = gen_coq(&secp, &c, &live.holder, &k);
                emit("GEN", json!({"idx": idx, "coq": format!("({}, {}, {})", s, ks, ct), "case": case_json(&c)}));
            }
        }
    }
    emit("STATS", json!({"stage": "gen", "cases": args.n, "setup_refused": refused_setup}));
}

// ------------------------------------------------------------------ mutations

#[derive(Clone, Debug)]
enum Mut {
    Version(u32),
    Lock(u32),
    Seq(u32),
    Vout(u32),
    TxidByte(usize, u8),
    ScriptSig(Vec<u8>),
    Witness(Vec<Vec<u8>>),
    DupIn,
    DropIn,
    Value(usize, u64),
    Spk(usize, Vec<u8>),
    SpkByte(usize, usize, u8),
    Ws(usize, Vec<u8>),
    WsByte(usize, usize, u8),
    DropOut(usize),
    DupOut(usize),
    SwapOut(usize, usize),
    SwapWs(usize, usize),
    DropWs(usize),
    AddWs(Vec<u8>),
    AddOut(u64, Vec<u8>, Vec<u8>),
    /// script_pubkey of output k := p2wsh(current witness script k)
    SpkFix(usize),
    /// drop the last byte of witness script k
    WsTrunc(usize),
    /// append a byte to witness script k
    WsPush(usize, u8),
    /// insert a byte into witness script k at position j
    WsInsert(usize, usize, u8),
    // the semantic arguments of the raw entry point
    ArgNum(u64),
    ArgFeerate(u32),
    ArgDropHtlc(bool, usize),
    ArgDupHtlc(bool, usize),
    ArgSwapLists,
    ArgCltv(bool, usize, u32),
    ArgValue(bool, usize, u64),
}

impl Mut {
    fn class(&self) -> &'static str {
        match self {
            Mut::Version(_) => "version",
            Mut::Lock(_) => "locktime",
            Mut::Seq(_) => "sequence",
            Mut::Vout(_) | Mut::TxidByte(..) => "outpoint",
            Mut::ScriptSig(_) => "script_sig",
            Mut::Witness(_) => "witness",
            Mut::DupIn | Mut::DropIn => "input_count",
            Mut::Value(..) => "value",
            Mut::Spk(..) | Mut::SpkByte(..) => "script_pubkey",
            Mut::Ws(..) | Mut::WsByte(..) | Mut::WsTrunc(_) | Mut::WsPush(..) | Mut::WsInsert(..) => "witscript",
            Mut::SpkFix(_) => "script_pubkey",
            Mut::ArgNum(_) => "arg_commit_num",
            Mut::ArgFeerate(_) => "arg_feerate",
            Mut::ArgDropHtlc(..) | Mut::ArgDupHtlc(..) | Mut::ArgSwapLists | Mut::ArgCltv(..) | Mut::ArgValue(..) => "arg_htlcs",
            Mut::DropOut(_) | Mut::DupOut(_) | Mut::AddOut(..) => "output_count",
            Mut::SwapOut(..) => "output_order",
            Mut::SwapWs(..) => "witscript_order",
            Mut::DropWs(_) | Mut::AddWs(_) => "witscript_count",
        }
    }
    fn coq(&self) -> String {
        match self {
            Mut::Version(v) => format!("MVersion {}", v),
            Mut::Lock(v) => format!("MLock {}", v),
            Mut::Seq(v) => format!("MSeq {}", v),
            Mut::Vout(v) => format!("MVout {}", v),
            Mut::TxidByte(j, b) => format!("MTxidByte {} {}", j, b),
            Mut::ScriptSig(b) => format!("MScriptSig {}", hx(b)),
            Mut::Witness(w) => format!("MWitness {}", coq_list(&w.iter().map(|x| hx(x)).collect::<Vec<_>>())),
            Mut::DupIn => "MDupIn".into(),
            Mut::DropIn => "MDropIn".into(),
            Mut::Value(k, v) => format!("MValue {} {}", k, v),
            Mut::Spk(k, b) => format!("MSpk {} {}", k, hx(b)),
            Mut::SpkByte(k, j, b) => format!("MSpkByte {} {} {}", k, j, b),
            Mut::Ws(k, b) => format!("MWs {} {}", k, hx(b)),
            Mut::WsByte(k, j, b) => format!("MWsByte {} {} {}", k, j, b),
            Mut::DropOut(k) => format!("MDropOut {}", k),
            Mut::DupOut(k) => format!("MDupOut {}", k),
            Mut::SwapOut(i, j) => format!("MSwapOut {} {}", i, j),
            Mut::SwapWs(i, j) => format!("MSwapWs {} {}", i, j),
            Mut::DropWs(k) => format!("MDropWs {}", k),
            Mut::AddWs(b) => format!("MAddWs {}", hx(b)),
            Mut::AddOut(v, s, w) => format!("MAddOut {} {} {}", v, hx(s), hx(w)),
            Mut::SpkFix(k) => format!("MSpkFix {}", k),
            Mut::WsTrunc(k) => format!("MWsTrunc {}", k),
            Mut::WsPush(k, b) => format!("MWsPush {} {}", k, b),
            Mut::WsInsert(k, j, b) => format!("MWsInsert {} {} {}", k, j, b),
            Mut::ArgNum(n) => format!("ANum {}", n),
            Mut::ArgFeerate(f) => format!("AFeerate {}", f),
            Mut::ArgDropHtlc(o, k) => format!("ADropHtlc {} {}", coq_bool(*o), k),
            Mut::ArgDupHtlc(o, k) => format!("ADupHtlc {} {}", coq_bool(*o), k),
            Mut::ArgSwapLists => "ASwapLists".into(),
            Mut::ArgCltv(o, k, v) => format!("ACltv {} {} {}", coq_bool(*o), k, v),
            Mut::ArgValue(o, k, v) => format!("AValue {} {} {}", coq_bool(*o), k, v),
        }
    }
    /// the effect on the semantic arguments (commitment number, fee rate, HTLC lists)
    fn apply_args(&self, c: &mut Case) {
        match self {
            Mut::ArgNum(n) => c.n = *n,
            Mut::ArgFeerate(f) => c.feerate = *f,
            Mut::ArgDropHtlc(o, k) => {
                let l = if *o { &mut c.offered } else { &mut c.received };
                if *k < l.len() {
                    l.remove(*k);
                }
            }
            Mut::ArgDupHtlc(o, k) => {
                let l = if *o { &mut c.offered } else { &mut c.received };
                if *k < l.len() {
                    let h = l[*k].clone();
                    l.insert(*k, h);
                }
            }
            Mut::ArgSwapLists => std::mem::swap(&mut c.offered, &mut c.received),
            Mut::ArgCltv(o, k, v) => {
                let l = if *o { &mut c.offered } else { &mut c.received };
                if *k < l.len() {
                    l[*k].cltv = *v
                }
            }
            Mut::ArgValue(o, k, v) => {
                let l = if *o { &mut c.offered } else { &mut c.received };
                if *k < l.len() {
                    l[*k].value = *v
                }
            }
            _ => {}
        }
    }
    fn apply(&self, tx: &mut Transaction, ws: &mut Vec<Vec<u8>>) {
        let set_spk = |o: &mut TxOut, b: Vec<u8>| o.script_pubkey = ScriptBuf::from(b);
        match self {
            Mut::Version(v) => tx.version = Version(*v as i32),
            Mut::Lock(v) => tx.lock_time = LockTime::from_consensus(*v),
            Mut::Seq(v) => {
                if let Some(i) = tx.input.first_mut() {
                    i.sequence = Sequence(*v)
                }
            }
            Mut::Vout(v) => {
                if let Some(i) = tx.input.first_mut() {
                    i.previous_output.vout = *v
                }
            }
            Mut::TxidByte(j, b) => {
                if let Some(i) = tx.input.first_mut() {
                    let mut t = i.previous_output.txid.to_byte_array();
                    t[*j] = *b;
                    i.previous_output.txid = Txid::from_byte_array(t);
                }
            }
            Mut::ScriptSig(b) => {
                if let Some(i) = tx.input.first_mut() {
                    i.script_sig = ScriptBuf::from(b.clone())
                }
            }
            Mut::Witness(w) => {
                if let Some(i) = tx.input.first_mut() {
                    i.witness = Witness::from_slice(w)
                }
            }
            Mut::DupIn => {
                if let Some(i) = tx.input.first().cloned() {
                    tx.input.insert(0, i)
                }
            }
            Mut::DropIn => {
                if !tx.input.is_empty() {
                    tx.input.remove(0);
                }
            }
            Mut::Value(k, v) => {
                if let Some(o) = tx.output.get_mut(*k) {
                    o.value = Amount::from_sat(*v)
                }
            }
            Mut::Spk(k, b) => {
                if let Some(o) = tx.output.get_mut(*k) {
                    set_spk(o, b.clone())
                }
            }
            Mut::SpkByte(k, j, b) => {
                if let Some(o) = tx.output.get_mut(*k) {
                    let mut s = o.script_pubkey.to_bytes();
                    if *j < s.len() {
                        s[*j] = *b;
                    }
                    set_spk(o, s)
                }
            }
            Mut::Ws(k, b) => {
                if *k < ws.len() {
                    ws[*k] = b.clone()
                }
            }
            Mut::WsByte(k, j, b) => {
                if *k < ws.len() && *j < ws[*k].len() {
                    ws[*k][*j] = *b
                }
            }
            Mut::DropOut(k) => {
                if *k < tx.output.len() {
                    tx.output.remove(*k);
                }
                if *k < ws.len() {
                    ws.remove(*k);
                }
            }
            Mut::DupOut(k) => {
                if *k < tx.output.len() {
                    let o = tx.output[*k].clone();
                    tx.output.insert(*k, o);
                }
                if *k < ws.len() {
                    let w = ws[*k].clone();
                    ws.insert(*k, w);
                }
            }
            Mut::SwapOut(i, j) => {
                if *i < tx.output.len() && *j < tx.output.len() {
                    tx.output.swap(*i, *j)
                }
                if *i < ws.len() && *j < ws.len() {
                    ws.swap(*i, *j)
                }
            }
            Mut::SwapWs(i, j) => {
                if *i < ws.len() && *j < ws.len() {
                    ws.swap(*i, *j)
                }
            }
            Mut::DropWs(k) => {
                if *k < ws.len() {
                    ws.remove(*k);
                }
            }
            Mut::AddWs(b) => ws.push(b.clone()),
            Mut::AddOut(v, s, w) => {
                tx.output.push(TxOut { value: Amount::from_sat(*v), script_pubkey: ScriptBuf::from(s.clone()) });
                ws.push(w.clone());
            }
            Mut::SpkFix(k) => {
                if *k < ws.len() {
                    if let Some(o) = tx.output.get_mut(*k) {
                        o.script_pubkey = ScriptBuf::from(p2wsh_of(&ws[*k]))
                    }
                }
            }
            Mut::WsTrunc(k) => {
                if *k < ws.len() {
                    ws[*k].pop();
                }
            }
            Mut::WsPush(k, b) => {
                if *k < ws.len() {
                    ws[*k].push(*b)
                }
            }
            Mut::WsInsert(k, j, b) => {
                if *k < ws.len() && *j <= ws[*k].len() {
                    ws[*k].insert(*j, *b)
                }
            }
            _ => {}
        }
    }
}

fn p2wsh_of(ws: &[u8]) -> Vec<u8> {
    let mut v = vec![0u8, 0x20];
    v.extend_from_slice(&sha256::Hash::hash(ws).to_byte_array());
    v
}

/// a witness script changed consistently: the script_pubkey is recomputed, so the decoder's
/// `script_pubkey == p2wsh(witscript)` test passes and the template parsers see the change
fn consistent(k: usize, ws: Vec<u8>) -> Vec<Mut> {
    vec![Mut::Ws(k, ws), Mut::SpkFix(k)]
}

fn nonzero(rng: &mut Rng) -> u8 {
    1 + rng.below(255) as u8
}

/// all single-field mutations (`full`) or a sample of them
fn mutants(rng: &mut Rng, tx: &Transaction, ws: &[Vec<u8>], full: bool, quick: bool, secp: &Secp256k1<All>, c: &Case) -> Vec<Vec<Mut>> {
    let mut out: Vec<Vec<Mut>> = vec![];
    let lock = tx.lock_time.to_consensus_u32();
    let seq = tx.input[0].sequence.0;
    let vout = tx.input[0].previous_output.vout;
    for v in [1u32, 3, 0, 0x8000_0002, 0xffff_fffe] {
        out.push(vec![Mut::Version(v)]);
    }
    for b in [0u32, 7, 23, 24, 29, 31] {
        out.push(vec![Mut::Lock(lock ^ (1 << b))]);
    }
    out.push(vec![Mut::Lock(0)]);
    for b in [0u32, 8, 23, 24, 30, 31] {
        out.push(vec![Mut::Seq(seq ^ (1 << b))]);
    }
    out.push(vec![Mut::Seq(0xffff_ffff)]);
    for v in [vout.wrapping_add(1), vout ^ (1 << 16), vout ^ (1 << 31)] {
        out.push(vec![Mut::Vout(v)]);
    }
    let txid = tx.input[0].previous_output.txid.to_byte_array();
    for j in 0..32 {
        out.push(vec![Mut::TxidByte(j, txid[j] ^ nonzero(rng))]);
    }
    out.push(vec![Mut::ScriptSig(vec![0x00])]);
    out.push(vec![Mut::ScriptSig(vec![0x51])]);
    out.push(vec![Mut::Witness(vec![vec![]])]);
    out.push(vec![Mut::Witness(vec![vec![1, 2, 3]])]);
    out.push(vec![Mut::DupIn]);
    out.push(vec![Mut::DropIn]);
    let n = tx.output.len();
    for k in 0..n {
        let v = tx.output[k].value.to_sat();
        for nv in [v + 1, v.wrapping_sub(1), v ^ (1 << 32), 0, 330, v + 1000] {
            if nv != v {
                out.push(vec![Mut::Value(k, nv)]);
            }
        }
        let spk = tx.output[k].script_pubkey.to_bytes();
        for j in 0..spk.len() {
            out.push(vec![Mut::SpkByte(k, j, spk[j] ^ nonzero(rng))]);
        }
        out.push(vec![Mut::Spk(k, spk[..spk.len() - 1].to_vec())]);
        let mut longer = spk.clone();
        longer.push(0);
        out.push(vec![Mut::Spk(k, longer)]);
        out.push(vec![Mut::DropOut(k)]);
        out.push(vec![Mut::DupOut(k)]);
        out.push(vec![Mut::DropWs(k)]);
        if k + 1 < n {
            out.push(vec![Mut::SwapOut(k, k + 1)]);
            out.push(vec![Mut::SwapWs(k, k + 1)]);
        }
        let w = &ws[k];
        if w.is_empty() {
            // p2wpkh output: its witness script is never looked at
            out.push(vec![Mut::Ws(k, vec![0x51])]);
            continue;
        }
        for j in 0..w.len() {
            let b = w[j] ^ nonzero(rng);
            // a changed script under an unchanged script_pubkey always stops at the same test
            // (script_pubkey == p2wsh(witscript)); the quick tier takes every fourth position
            if !quick || j % 4 == k % 4 {
                out.push(vec![Mut::WsByte(k, j, b)]);
            }
            out.push(vec![Mut::WsByte(k, j, b), Mut::SpkFix(k)]);
        }
        out.push(vec![Mut::Ws(k, vec![])]);
        out.push(vec![Mut::WsTrunc(k)]);
        out.push(vec![Mut::WsTrunc(k), Mut::SpkFix(k)]);
        out.push(vec![Mut::WsPush(k, 0x61), Mut::SpkFix(k)]);
        // the same data pushed non-minimally (OP_PUSHDATA1) where the script starts with / contains a key push
        if let Some(p) = w.iter().position(|b| *b == 0x21) {
            if p + 34 <= w.len() {
                out.push(vec![Mut::WsInsert(k, p, 0x4c), Mut::SpkFix(k)]);
                // the key in uncompressed form, where it parses as a point
                if let Ok(pk) = PublicKey::from_slice(&w[p + 1..p + 34]) {
                    let mut w5 = w[..p].to_vec();
                    w5.push(0x41);
                    w5.extend_from_slice(&pk.serialize_uncompressed());
                    w5.extend_from_slice(&w[p + 34..]);
                    out.push(consistent(k, w5));
                    // another valid key in its place
                    let other = pk_of(secp, &[0x42u8; 32]).serialize();
                    let mut w6 = w.clone();
                    w6[p + 1..p + 34].copy_from_slice(&other);
                    out.push(consistent(k, w6));
                }
            }
        }
    }
    // malformed stream: witness scripts that are not scripts of any template (with the
    // script_pubkey recomputed so that the template parsers see them): truncated push headers,
    // a PUSHDATA4 announcing 2^32-1 bytes, random bytes
    if n > 0 {
        let k = rng.below(n as u64) as usize;
        let mut garbage: Vec<Vec<u8>> = vec![
            vec![0x4c],
            vec![0x4d, 0x01],
            vec![0x4e, 0xff, 0xff, 0xff, 0xff, 0x00],
            vec![0x4e, 0x02, 0x00, 0x00, 0x00, 0xaa, 0xbb],
            vec![0x21],
            vec![0x63, 0x21],
            vec![0x00],
        ];
        for _ in 0..3 {
            let len = 1 + rng.below(60) as usize;
            garbage.push((0..len).map(|_| rng.below(256) as u8).collect());
        }
        for g in garbage {
            out.push(vec![Mut::Ws(k, g), Mut::SpkFix(k)]);
        }
    }
    // the caller lies about the content while supplying the canonical transaction
    for d in [1u64, 2, 1 << 24, 1 << 47] {
        out.push(vec![Mut::ArgNum(c.n ^ d)]);
    }
    out.push(vec![Mut::ArgNum(c.n.wrapping_add(1))]);
    for f in [c.feerate + 1, c.feerate.saturating_sub(1), 253, 100_000] {
        if f != c.feerate {
            out.push(vec![Mut::ArgFeerate(f)]);
        }
    }
    for (o, l) in [(true, &c.offered), (false, &c.received)] {
        for k in 0..l.len() {
            out.push(vec![Mut::ArgDropHtlc(o, k)]);
            out.push(vec![Mut::ArgDupHtlc(o, k)]);
            out.push(vec![Mut::ArgCltv(o, k, l[k].cltv ^ 1)]);
            out.push(vec![Mut::ArgCltv(o, k, l[k].cltv.wrapping_add(256) % 500_000_000)]);
            out.push(vec![Mut::ArgValue(o, k, l[k].value + 1)]);
        }
    }
    if !c.offered.is_empty() || !c.received.is_empty() {
        out.push(vec![Mut::ArgSwapLists]);
    }
    out.push(vec![Mut::AddWs(vec![0x51])]);
    // foreign outputs: a p2wpkh, an anchor for a foreign key, an anchor for our own funding key
    let foreign = pk_of(secp, &[0x43u8; 32]).serialize();
    let mut wp = vec![0u8, 0x14];
    wp.extend_from_slice(&[0x11u8; 20]);
    out.push(vec![Mut::AddOut(1000, wp, vec![])]);
    for key in [foreign.to_vec(), pk_of(secp, &c.cp_secrets[0]).serialize().to_vec()] {
        let mut a = vec![0x21u8];
        a.extend_from_slice(&key);
        a.extend_from_slice(&[0xac, 0x73, 0x64, 0x60, 0xb2, 0x68]);
        out.push(vec![Mut::AddOut(330, p2wsh_of(&a), a)]);
    }
    out.push(vec![Mut::AddOut(5000, vec![0x6a], vec![])]);
    if !full {
        // a sample: one of every class, then random ones
        let mut by_class: BTreeMap<&'static str, Vec<Vec<Mut>>> = BTreeMap::new();
        for m in out {
            by_class.entry(m[0].class()).or_default().push(m);
        }
        let mut sample = vec![];
        for (_, ms) in by_class.iter() {
            for _ in 0..3 {
                sample.push(rng.pick(ms).clone());
            }
        }
        return sample;
    }
    out
}

// ------------------------------------------------------------------ running the implementation

fn htlc2(h: &H) -> HTLCInfo2 {
    HTLCInfo2 { value_sat: h.value, payment_hash: PaymentHash(h.hash), cltv_expiry: h.cltv }
}

fn err_kind(msg: &str) -> String {
    // "policy failure: validate_counterparty_commitment_tx: validate_commitment_tx: offered htlc.value_sat 1 less ..."
    // -> the function path plus the first words of the reason, numbers and hex removed
    if msg.contains("len(tx.output)") {
        return "witscript-count".into();
    }
    let segs: Vec<&str> = msg.split(": ").collect();
    let mut out: Vec<String> = vec![];
    for (i, s) in segs.iter().enumerate().take(5) {
        let last = i + 1 == segs.len().min(5);
        let words: Vec<String> = s
            .split_whitespace()
            .filter(|w| !w.chars().any(|ch| ch.is_ascii_digit()) && !w.starts_with('['))
            .take(if last { 5 } else { 3 })
            .map(|w| w.to_string())
            .collect();
        out.push(words.join(" "));
    }
    out.join(": ")
}

#[derive(Clone, Debug, PartialEq)]
struct InfoObs {
    has_cs: bool,
    cs_value: u64,
    cs_anchors: u64,
    has_b: bool,
    b_value: u64,
    b_delay: u64,
    b_anchors: u64,
    offered: Vec<(u64, Vec<u8>, u32)>,
    received: Vec<(u64, Vec<u8>, u32)>,
}
impl InfoObs {
    fn coq(&self) -> String {
        let hs = |v: &Vec<(u64, Vec<u8>, u32)>| {
            coq_list(&v.iter().map(|(a, b, c)| format!("({}, {}, {})", a, hx(b), c)).collect::<Vec<_>>())
        };
        format!(
            "(({}, {}, {}), ({}, {}, {}, {}), {}, {})",
            coq_bool(self.has_cs),
            self.cs_value,
            self.cs_anchors,
            coq_bool(self.has_b),
            self.b_value,
            self.b_delay,
            self.b_anchors,
            hs(&self.offered),
            hs(&self.received)
        )
    }
}

enum R<T> {
    Ok(T),
    Err(String),
    Panic,
}

fn guarded<T, F: FnOnce() -> Result<T, lightning_signer::util::status::Status>>(f: F) -> R<T> {
    match catch_unwind(AssertUnwindSafe(f)) {
        Ok(Ok(v)) => R::Ok(v),
        Ok(Err(e)) => R::Err(e.message().to_string()),
        Err(_) => R::Panic,
    }
}

/// decode_commitment_tx on (tx, ws) (what `CommitmentInfo` holds afterwards) and the validator's
/// verdict on the content read from it
fn decode_and_validate(live: &Live, c: &Case, pcp: &PublicKey, tx: &Transaction, ws: &[Vec<u8>]) -> (Option<InfoObs>, bool) {
    if tx.output.len() != ws.len() {
        return (None, false);
    }
    let r = catch_unwind(AssertUnwindSafe(|| {
        live.node.with_channel(&live.channel_id, |chan| {
            let v = chan.validator();
            let info = match v.decode_commitment_tx(&chan.keys, &chan.setup, true, tx, ws) {
                Ok(i) => i,
                Err(_) => return Ok((None, false)),
            };
            let obs = InfoObs {
                has_cs: info.to_countersigner_address.is_some() || info.to_countersigner_pubkey.is_some(),
                cs_value: info.to_countersigner_value_sat,
                cs_anchors: info.to_countersigner_anchor_count as u64,
                has_b: info.to_broadcaster_delayed_pubkey.is_some(),
                b_value: info.to_broadcaster_value_sat,
                b_delay: info.to_self_delay as u64,
                b_anchors: info.to_broadcaster_anchor_count as u64,
                offered: info.offered_htlcs.iter().map(|h| (h.value_sat, h.payment_hash_hash.to_vec(), h.cltv_expiry)).collect(),
                received: info.received_htlcs.iter().map(|h| (h.value_sat, h.payment_hash_hash.to_vec(), h.cltv_expiry)).collect(),
            };
            let info2 = CommitmentInfo2::new(
                true,
                info.to_countersigner_value_sat,
                info.to_broadcaster_value_sat,
                c.offered.iter().map(htlc2).collect(),
                c.received.iter().map(htlc2).collect(),
                c.feerate,
            );
            let acc = v
                .validate_counterparty_commitment_tx(
                    &chan.enforcement_state,
                    c.n,
                    pcp,
                    &chan.setup,
                    &chan.monitor.as_chain_state(),
                    &info2,
                )
                .is_ok();
            Ok((Some(obs), acc))
        })
    }));
    match r {
        Ok(Ok(x)) => x,
        _ => (None, false),
    }
}

/// the model's `accept` at the content read from a decoded transaction: does the semantic entry
/// point, on a fresh node in the same state, sign that content?
fn accepts(secp: &Secp256k1<All>, c: &Case, args: &Case, pcp: &PublicKey, obs: &InfoObs) -> bool {
    // the node is prepared as for the original case; the content is the (possibly changed)
    // arguments with the balances read from the transaction
    let mut c2 = args.clone();
    c2.to_holder = obs.cs_value;
    c2.to_cp = obs.b_value;
    match make_live(secp, c) {
        Some(live) => matches!(phase2(&live, &c2, pcp), R::Ok(_)),
        None => false,
    }
}

fn phase1(live: &Live, c: &Case, pcp: &PublicKey, tx: &Transaction, ws: &[Vec<u8>]) -> R<Signature> {
    let r = catch_unwind(AssertUnwindSafe(|| {
        live.node.with_channel(&live.channel_id, |chan| {
            let saved = chan.enforcement_state.clone();
            let r = catch_unwind(AssertUnwindSafe(|| {
                chan.sign_counterparty_commitment_tx(
                    tx,
                    ws,
                    pcp,
                    c.n,
                    c.feerate,
                    c.offered.iter().map(htlc2).collect(),
                    c.received.iter().map(htlc2).collect(),
                )
            }));
            // every call is judged in the same channel state
            chan.enforcement_state = saved;
            Ok(match r {
                Ok(Ok(sig)) => R::Ok(sig),
                Ok(Err(e)) => R::Err(e.message().to_string()),
                Err(_) => R::Panic,
            })
        })
    }));
    match r {
        Ok(Ok(x)) => x,
        Ok(Err(e)) => R::Err(e.message().to_string()),
        Err(_) => R::Panic,
    }
}

fn phase2(live: &Live, c: &Case, pcp: &PublicKey) -> R<(Signature, Vec<Signature>)> {
    guarded(|| {
        live.node.with_channel(&live.channel_id, |chan| {
            chan.sign_counterparty_commitment_tx_phase2(
                pcp,
                c.n,
                c.feerate,
                c.to_holder,
                c.to_cp,
                c.offered.iter().map(htlc2).collect(),
                c.received.iter().map(htlc2).collect(),
            )
        })
    })
}

// ------------------------------------------------------------------ handler level (wire messages)

fn make_handler(node: &Arc<Node>, proto: u32, peer_id: [u8; 33], dbid: u64) -> ChannelHandler {
    let mut init = InitHandler::new(0, node.clone(), Arc::new(PositiveApprover()), proto);
    let m = msgs::HsmdInit {
        key_version: wmodel::Bip32KeyVersion { pubkey_version: 0, privkey_version: 0 },
        chain_params: BlockHash::all_zeros(),
        encryption_key: None,
        dev_privkey: None,
        dev_bip32_seed: None,
        dev_channel_secrets: None,
        dev_channel_secrets_shaseed: None,
        hsm_wire_min_version: 2,
        hsm_wire_max_version: proto,
    };
    init.handle(WireMessage::HsmdInit(m)).expect("init");
    let root: RootHandler = init.into();
    root.for_new_client(1, WirePubKey(peer_id), dbid)
}

/// The BOLT-3 commitment transaction of the wire content, built with LDK directly from the
/// harness's own reading of the fields (no builder of the signer): an HTLC of `amount_msat` is an
/// output of amount_msat / 1000 satoshi (rounded down), or no output when that is below the
/// trimming threshold of its direction; side 1 (REMOTE) is offered by the
/// broadcaster of this - the counterparty's - commitment, side 0 (LOCAL) is received by it.
fn expected_bolt3_tx(c: &Case, holder: &ChannelPublicKeys, k: &Keys, secp: &Secp256k1<All>) -> Option<Vec<u8>> {
    let mut features = ChannelTypeFeatures::only_static_remote_key();
    match c.ctype {
        2 => features.set_anchors_nonzero_fee_htlc_tx_optional(),
        3 => features.set_anchors_zero_fee_htlc_tx_optional(),
        _ => {}
    }
    let cp = cp_points(secp, c);
    let params = ChannelTransactionParameters {
        holder_pubkeys: holder.clone(),
        holder_selected_contest_delay: c.hdelay,
        is_outbound_from_holder: c.outbound,
        counterparty_parameters: Some(CounterpartyChannelTransactionParameters {
            pubkeys: cp.clone(),
            selected_contest_delay: c.cdelay,
        }),
        funding_outpoint: Some(LdkOutPoint { txid: Txid::from_byte_array(c.txid), index: u16::try_from(c.vout).ok()? }),
        channel_type_features: features,
    };
    let keys = TxCreationKeys {
        per_commitment_point: k.pcp,
        revocation_key: RevocationKey(k.revocation),
        broadcaster_htlc_key: HtlcKey(k.b_htlc),
        countersignatory_htlc_key: HtlcKey(k.c_htlc),
        broadcaster_delayed_payment_key: DelayedPaymentKey(k.delayed),
    };
    let mut htlcs: Vec<(HTLCOutputInCommitment, ())> = wire_htlcs(c)
        .iter()
        // BOLT-3: no output for an HTLC below its trimming threshold
        .filter(|(side, msat, _, _)| *msat / 1000 >= trim_threshold(c.ctype, c.feerate, *side == 1))
        .map(|(side, msat, hash, cltv)| {
            (
                HTLCOutputInCommitment {
                    offered: *side == 1,
                    amount_msat: *msat,
                    cltv_expiry: *cltv,
                    payment_hash: PaymentHash(*hash),
                    transaction_output_index: None,
                },
                (),
            )
        })
        .collect();
    let r = catch_unwind(AssertUnwindSafe(|| {
        let directed = params.as_counterparty_broadcastable();
        let ct = CommitmentTransaction::new_with_auxiliary_htlc_data(
            INITIAL - c.n,
            c.to_cp,
            c.to_holder,
            cp.funding_pubkey,
            holder.funding_pubkey,
            keys,
            c.feerate,
            &mut htlcs,
            &directed,
        );
        serialize(&ct.trust().built_transaction().transaction)
    }));
    r.ok()
}

fn wire_htlc_array(c: &Case) -> Array<wmodel::Htlc> {
    Array(
        wire_htlcs(c)
            .iter()
            .map(|(side, msat, hash, cltv)| wmodel::Htlc {
                side: *side,
                amount: *msat,
                payment_hash: wmodel::Sha256(*hash),
                ctlv_expiry: *cltv,
            })
            .collect(),
    )
}

fn sig_of(b: &wmodel::BitcoinSignature) -> Option<Signature> {
    Signature::from_compact(&b.signature.0).ok()
}

/// SignRemoteCommitmentTx2 over the wire: encode, decode, handle, encode the reply, decode it
fn wire_phase2(h: &ChannelHandler, c: &Case, pcp: &PublicKey) -> R<(Signature, Vec<Signature>)> {
    let m = msgs::SignRemoteCommitmentTx2 {
        remote_per_commitment_point: WirePubKey(pcp.serialize()),
        commitment_number: c.n,
        feerate: c.feerate,
        to_local_value_sat: c.to_holder,
        to_remote_value_sat: c.to_cp,
        htlcs: wire_htlc_array(c),
    };
    let msg = match msgs::from_vec(m.as_vec()) {
        Ok(x) => x,
        Err(_) => return R::Err("request does not survive the wire".into()),
    };
    match catch_unwind(AssertUnwindSafe(|| h.handle(msg))) {
        Err(_) => R::Panic,
        Ok(Err(e)) => R::Err(format!("{:?}", e)),
        Ok(Ok(reply)) => match msgs::from_vec(reply.as_vec()) {
            Ok(WireMessage::SignCommitmentTxWithHtlcsReply(r)) => {
                let sig = sig_of(&r.signature);
                let hs: Option<Vec<Signature>> = r.htlc_signatures.iter().map(sig_of).collect();
                match (sig, hs) {
                    (Some(s), Some(hs)) => R::Ok((s, hs)),
                    _ => R::Err("reply carries a malformed signature".into()),
                }
            }
            _ => R::Err("unexpected reply".into()),
        },
    }
}

/// SignRemoteCommitmentTx (raw) over the wire, with the witness scripts in the PSBT outputs
fn wire_phase1(h: &ChannelHandler, c: &Case, pcp: &PublicKey, cp_funding: &PublicKey, tx: &Transaction, ws: &[Vec<u8>]) -> R<Signature> {
    let mut psbt = match Psbt::from_unsigned_tx(tx.clone()) {
        Ok(p) => p,
        Err(_) => return R::Err("no psbt".into()),
    };
    for (i, w) in ws.iter().enumerate() {
        if !w.is_empty() && i < psbt.outputs.len() {
            psbt.outputs[i].witness_script = Some(ScriptBuf::from(w.clone()));
        }
    }
    let m = msgs::SignRemoteCommitmentTx {
        tx: WithSize(tx.clone()),
        psbt: WithSize(PsbtWrapper { inner: psbt }),
        remote_funding_key: WirePubKey(cp_funding.serialize()),
        remote_per_commitment_point: WirePubKey(pcp.serialize()),
        option_static_remotekey: c.ctype != 0,
        commitment_number: c.n,
        htlcs: wire_htlc_array(c),
        feerate: c.feerate,
    };
    let msg = match msgs::from_vec(m.as_vec()) {
        Ok(x) => x,
        Err(_) => return R::Err("request does not survive the wire".into()),
    };
    match catch_unwind(AssertUnwindSafe(|| h.handle(msg))) {
        Err(_) => R::Panic,
        Ok(Err(e)) => R::Err(format!("{:?}", e)),
        Ok(Ok(reply)) => match msgs::from_vec(reply.as_vec()) {
            Ok(WireMessage::SignTxReply(r)) => match sig_of(&r.signature) {
                Some(s) => R::Ok(s),
                None => R::Err("reply carries a malformed signature".into()),
            },
            _ => R::Err("unexpected reply".into()),
        },
    }
}

// ------------------------------------------------------------------ raw HTLC-transaction entry point

fn tx_coq(t: &Transaction) -> String {
    let ins = t
        .input
        .iter()
        .map(|i| {
            format!(
                "(mkIn {} {} {} {} {})",
                hx(&i.previous_output.txid.to_byte_array()),
                i.previous_output.vout,
                hx(i.script_sig.as_bytes()),
                i.sequence.0,
                coq_list(&i.witness.iter().map(|w| hx(w)).collect::<Vec<_>>())
            )
        })
        .collect::<Vec<_>>();
    let outs = t
        .output
        .iter()
        .map(|o| format!("(mkOut {} {})", o.value.to_sat(), hx(o.script_pubkey.as_bytes())))
        .collect::<Vec<_>>();
    format!("(mkTx {} {} {} {})", t.version.0 as u32, coq_list(&ins), coq_list(&outs), t.lock_time.to_consensus_u32())
}

fn ldk_features(ctype: u8) -> ChannelTypeFeatures {
    let mut features = ChannelTypeFeatures::only_static_remote_key();
    match ctype {
        2 => features.set_anchors_nonzero_fee_htlc_tx_optional(),
        3 => features.set_anchors_zero_fee_htlc_tx_optional(),
        _ => {}
    }
    features
}

/// direction of an HTLC script as LDK builds it: after `... <33-byte key> OP_SWAP OP_SIZE 32 OP_EQUAL`
/// comes OP_NOTIF (offered) or OP_IF (received)
fn script_is_offered(redeem: &[u8]) -> Option<bool> {
    match redeem.get(66) {
        Some(0x64) => Some(true),
        Some(0x63) => Some(false),
        _ => None,
    }
}

/// The BOLT-3 second-stage transaction a raw HTLC request is about, rebuilt by the harness with
/// LDK's `build_htlc_transaction` from the channel's own delay and keys (derived here) and from
/// what the request says (commitment txid and output index, expiry, fee = amount - output value,
/// turned into a fee rate the way the signer's estimate does); `None` when the request does not
/// determine one.
fn reference_htlc_tx(
    ctype: u8,
    delay: u16,
    revocation: &PublicKey,
    delayed: &PublicKey,
    tx: &Transaction,
    redeem: &[u8],
    amount: u64,
) -> Option<Transaction> {
    let offered = script_is_offered(redeem)?;
    let i0 = tx.input.first()?;
    let o0 = tx.output.first()?;
    let fee = amount.checked_sub(o0.value.to_sat())?;
    let feerate: u32 = if ctype == 3 {
        0
    } else {
        let w: u128 = if offered { 663 } else { 703 };
        u32::try_from((fee as u128 * 1000 + 999) / w).unwrap_or(u32::MAX)
    };
    let htlc = HTLCOutputInCommitment {
        offered,
        amount_msat: amount.checked_mul(1000)?,
        cltv_expiry: if offered { tx.lock_time.to_consensus_u32() } else { 0 },
        payment_hash: PaymentHash([0; 32]),
        transaction_output_index: Some(i0.previous_output.vout),
    };
    catch_unwind(AssertUnwindSafe(|| {
        lightning_signer::lightning::ln::chan_utils::build_htlc_transaction(
            &i0.previous_output.txid,
            feerate,
            delay,
            &htlc,
            &ldk_features(ctype),
            &DelayedPaymentKey(*delayed),
            &RevocationKey(*revocation),
        )
    }))
    .ok()
}

fn htlc_digest(tx: &Transaction, redeem: &[u8], amount: u64, ctype: u8) -> Option<[u8; 32]> {
    let ty = if ctype == 3 { EcdsaSighashType::SinglePlusAnyoneCanPay } else { EcdsaSighashType::All };
    SighashCache::new(tx)
        .p2wsh_signature_hash(0, Script::from_bytes(redeem), Amount::from_sat(amount), ty)
        .ok()
        .map(|h| h.to_byte_array())
}

/// single-field changes of a second-stage transaction and of the other request fields
fn htlc_requests(rng: &mut Rng, htx: &Transaction, redeem: &[u8], amount: u64) -> Vec<(String, Transaction, Vec<u8>, u64)> {
    let mut out = vec![("canonical".to_string(), htx.clone(), redeem.to_vec(), amount)];
    let mut push = |name: &str, f: &dyn Fn(&mut Transaction)| {
        let mut t = htx.clone();
        f(&mut t);
        out.push((name.to_string(), t, redeem.to_vec(), amount));
    };
    push("version", &|t| t.version = Version(1));
    push("version", &|t| t.version = Version(3));
    push("locktime", &|t| t.lock_time = LockTime::from_consensus(t.lock_time.to_consensus_u32() ^ 1));
    push("locktime", &|t| t.lock_time = LockTime::from_consensus(t.lock_time.to_consensus_u32().wrapping_add(144) % 500_000_000));
    push("sequence", &|t| t.input[0].sequence = Sequence(t.input[0].sequence.0 ^ 1));
    push("sequence", &|t| t.input[0].sequence = Sequence(0xffff_fffd));
    push("outpoint", &|t| t.input[0].previous_output.vout ^= 1);
    push("outpoint", &|t| {
        let mut b = t.input[0].previous_output.txid.to_byte_array();
        b[7] ^= 0x10;
        t.input[0].previous_output.txid = Txid::from_byte_array(b)
    });
    push("value", &|t| t.output[0].value = Amount::from_sat(t.output[0].value.to_sat() + 1));
    push("value", &|t| t.output[0].value = Amount::from_sat(t.output[0].value.to_sat().saturating_sub(1)));
    push("value", &|t| t.output[0].value = Amount::from_sat(t.output[0].value.to_sat().saturating_sub(1000)));
    for _ in 0..4 {
        let j = 2 + rng.below(32) as usize;
        let b = nonzero(rng);
        push("output_script", &move |t| {
            let mut s = t.output[0].script_pubkey.to_bytes();
            if j < s.len() {
                s[j] ^= b;
            }
            t.output[0].script_pubkey = ScriptBuf::from(s)
        });
    }
    push("output_script", &|t| {
        let mut wp = vec![0u8, 0x14];
        wp.extend_from_slice(&[0x22u8; 20]);
        t.output[0].script_pubkey = ScriptBuf::from(wp)
    });
    push("output_count", &|t| {
        let o = t.output[0].clone();
        t.output.push(o)
    });
    push("input_count", &|t| {
        let i = t.input[0].clone();
        t.input.push(i)
    });
    push("script_sig", &|t| t.input[0].script_sig = ScriptBuf::from(vec![0x51u8]));
    out.push(("amount".into(), htx.clone(), redeem.to_vec(), amount + 1));
    out.push(("amount".into(), htx.clone(), redeem.to_vec(), amount.saturating_sub(1)));
    let mut r2 = redeem.to_vec();
    r2.pop();
    out.push(("redeemscript".into(), htx.clone(), r2, amount));
    let mut r3 = redeem.to_vec();
    let j = rng.below(r3.len() as u64) as usize;
    r3[j] ^= nonzero(rng);
    out.push(("redeemscript".into(), htx.clone(), r3, amount));
    out
}

fn verify(secp: &Secp256k1<All>, tx: &Transaction, idx: usize, script: &Script, amount: u64, ty: EcdsaSighashType, sig: &Signature, pk: &PublicKey) -> bool {
    let h = match SighashCache::new(tx).p2wsh_signature_hash(idx, script, Amount::from_sat(amount), ty) {
        Ok(h) => h,
        Err(_) => return false,
    };
    let msg = Message::from_digest(h.to_byte_array());
    secp.verify_ecdsa(&msg, sig, pk).is_ok()
}

/// data pushes of a script that parse as secp256k1 points, with their compressed form
fn pubkey_pushes(ws: &[u8], table: &mut BTreeMap<Vec<u8>, Vec<u8>>) {
    let script = ScriptBuf::from(ws.to_vec());
    for ins in script.instructions() {
        match ins {
            Ok(Instruction::PushBytes(p)) => {
                let b = p.as_bytes();
                if b.len() == 33 || b.len() == 65 {
                    if let Ok(pk) = PublicKey::from_slice(b) {
                        table.insert(b.to_vec(), pk.serialize().to_vec());
                    }
                }
            }
            Ok(_) => {}
            Err(_) => break,
        }
    }
}

struct ModelOut {
    tx: Vec<u8>,
    fs: Vec<u8>,
    ws: Vec<Vec<u8>>,
    htx: Vec<Vec<u8>>,
    htx_ok: bool,
    digests: Option<(Vec<u8>, Vec<u8>, Vec<Vec<u8>>)>,
}

fn read_model(path: &str) -> BTreeMap<usize, ModelOut> {
    let txt = std::fs::read_to_string(path).expect("model file");
    let v: serde_json::Value = serde_json::from_str(&txt).expect("model json");
    let mut m = BTreeMap::new();
    let hb = |x: &serde_json::Value| hex::decode(x.as_str().unwrap()).unwrap();
    for (k, e) in v.as_object().unwrap() {
        let digests = e.get("digests").and_then(|d| {
            if d.is_null() {
                None
            } else {
                Some((hb(&d["txid"]), hb(&d["sighash"]), d["htlc"].as_array().unwrap().iter().map(|x| hb(x)).collect()))
            }
        });
        m.insert(
            k.parse().unwrap(),
            ModelOut {
                tx: hb(&e["tx"]),
                fs: hb(&e["fs"]),
                ws: e["ws"].as_array().unwrap().iter().map(|x| hb(x)).collect(),
                htx: e["htx"].as_array().unwrap().iter().map(|x| hb(x)).collect(),
                htx_ok: e["htx_ok"].as_bool().unwrap(),
                digests,
            },
        );
    }
    m
}

fn run(args: &Args) {
    let secp = Secp256k1::new();
    let mut model_path = None;
    let (mut shard, mut shards) = (0usize, 1usize);
    let mut i = 0;
    while i < args.rest.len() {
        if args.rest[i] == "--model" {
            model_path = Some(args.rest[i + 1].clone());
            i += 1;
        } else if args.rest[i] == "--shard" {
            shard = args.rest[i + 1].parse().expect("shard");
            shards = args.rest[i + 2].parse().expect("shards");
            i += 2;
        }
        i += 1;
    }
    let model = read_model(&model_path.expect("--model <file>"));
    let mut dist: BTreeMap<String, u64> = BTreeMap::new();
    let mut mut_classes: BTreeMap<String, (u64, u64)> = BTreeMap::new(); // class -> (tried, accepted)
    let (mut sig_checks, mut htlc_sig_checks, mut n_mutants, mut n_accepted_mutants) = (0u64, 0u64, 0u64, 0u64);
    let mut violations = 0u64;
    for idx in 0..args.n {
        if idx % shards != shard {
            continue;
        }
        let c = gen_case(args.seed, idx, &args.tier);
        let mut rng = Rng::new(args.seed ^ (0x5eed + idx as u64 * 104729));
        let (mut a, mut b) = match (make_live(&secp, &c), make_live(&secp, &c)) {
            (Some(a), Some(b)) => (a, b),
            _ => {
                *dist.entry("setup-refused".into()).or_insert(0) += 1;
                continue;
            }
        };
        let m = match model.get(&idx) {
            Some(m) => m,
            None => {
                emit("HARNESS_ERROR", json!({"idx": idx, "what": "no model output for this case"}));
                continue;
            }
        };
        let k = derive_keys(&secp, &c, &a.holder);
        let mut viol: Vec<serde_json::Value> = vec![];
        let mut panics: Vec<serde_json::Value> = vec![];
        let mtx: Transaction = match deserialize(&m.tx) {
            Ok(t) => t,
            Err(e) => {
                emit("HARNESS_ERROR", json!({"idx": idx, "what": format!("model tx does not deserialize: {}", e)}));
                continue;
            }
        };
        if serialize(&mtx) != m.tx {
            emit("HARNESS_ERROR", json!({"idx": idx, "what": "model tx bytes are not the canonical encoding"}));
            continue;
        }
        let fs = ScriptBuf::from(m.fs.clone());
        let holder_funding = a.holder.funding_pubkey;
        // the BOLT-3 transaction of the content built with LDK from the harness's own reading
        // (truncation to satoshis, sides, trimming): the model's must be that transaction
        let expected = expected_bolt3_tx(&c, &a.holder, &k, &secp);
        let bolt3_agrees = expected.as_ref().map(|e| *e == m.tx);
        if bolt3_agrees == Some(false) {
            viol.push(json!({"what": "the model's BOLT-3 transaction of the content (Commitment.bolt3_tx) differs from the one LDK builds from the harness's reading of the wire fields and trimming thresholds",
                             "model_tx": hexs(&m.tx), "expected_tx": expected.as_ref().map(|e| hexs(e))}));
        }

        // (a) the semantic entry point, on its own node
        let r2 = phase2(&b, &c, &k.pcp);
        // the implementation's own rebuilt transaction, for the LDK-builder correspondence
        let impl_tx: Option<Vec<u8>> = catch_unwind(AssertUnwindSafe(|| {
            a.node
                .with_channel(&a.channel_id, |chan| {
                    let htlcs = lightning_signer::channel::Channel::htlcs_info2_to_oic(
                        &c.offered.iter().map(htlc2).collect::<Vec<_>>(),
                        &c.received.iter().map(htlc2).collect::<Vec<_>>(),
                    );
                    let ct = chan.make_counterparty_commitment_tx(&k.pcp, c.n, c.feerate, c.to_holder, c.to_cp, htlcs);
                    Ok(serialize(&ct.trust().built_transaction().transaction))
                })
                .ok()
        }))
        .ok()
        .flatten();
        // LDK as the signer drives it emits every HTLC: comparable with the BOLT-3 transaction only
        // when the content has no trimmed HTLC (the others are for the validator to refuse)
        let has_trimmed = c.offered.iter().any(|h| h.value < trim_threshold(c.ctype, c.feerate, true))
            || c.received.iter().any(|h| h.value < trim_threshold(c.ctype, c.feerate, false));
        let builder_agrees = if has_trimmed { None } else { impl_tx.as_ref().map(|t| *t == m.tx) };

        // (d) mutants first (every call is made in the same enforcement state), then the canonical pair
        let (_, acc0) = decode_and_validate(&a, &c, &k.pcp, &mtx, &m.ws);
        let mut all: Vec<Vec<Mut>> = vec![vec![]];
        all.extend(mutants(&mut rng, &mtx, &m.ws, c.full_mut, args.tier == "quick", &secp, &c));
        let mut oracle: BTreeMap<Vec<u8>, Vec<u8>> = BTreeMap::new();
        let mut mutant_terms: Vec<serde_json::Value> = vec![];
        let mut n_case_mutants = 0usize;
        let mut sig1: Option<Signature> = None;
        let mut p1_status = String::new();
        for ms in all.iter() {
            let mut tx = mtx.clone();
            let mut ws = m.ws.clone();
            let mut ca = c.clone();
            for mu in ms {
                mu.apply(&mut tx, &mut ws);
                mu.apply_args(&mut ca);
            }
            let args_changed = ms.iter().any(|x| x.class().starts_with("arg_"));
            if !ms.is_empty() && tx == mtx && ws == m.ws && !args_changed {
                continue; // not a change
            }
            let mut mine: BTreeMap<Vec<u8>, Vec<u8>> = BTreeMap::new();
            for w in ws.iter() {
                pubkey_pushes(w, &mut mine);
            }
            let keys: Vec<String> = mine.keys().map(|k| hexs(k)).collect();
            oracle.extend(mine);
            let (obs, _validator_ok) = decode_and_validate(&a, &ca, &k.pcp, &tx, &ws);
            let acc = match &obs {
                Some(o) => accepts(&secp, &c, &ca, &k.pcp, o),
                None => false,
            };
            let r1 = phase1(&a, &ca, &k.pcp, &tx, &ws);
            let ok = matches!(r1, R::Ok(_));
            let class = if ms.is_empty() { "canonical".to_string() } else { ms.iter().map(|x| x.class()).collect::<BTreeSet<_>>().into_iter().collect::<Vec<_>>().join("+") };
            if !ms.is_empty() {
                n_mutants += 1;
                n_case_mutants += 1;
                let e = mut_classes.entry(class.clone()).or_insert((0, 0));
                e.0 += 1;
                if ok {
                    e.1 += 1;
                    n_accepted_mutants += 1;
                }
            }
            if matches!(r1, R::Ok(_)) {
                // an accepted call leaves payments behind in the node state: start again from a
                // fresh node so that every call is judged in the same state
                if let Some(fresh) = make_live(&secp, &c) {
                    a = fresh;
                }
            }
            match &r1 {
                R::Ok(sig) => {
                    // the signature must be over the transaction that was supplied (= rebuilt) ...
                    let on_supplied = verify(&secp, &tx, 0, &fs, c.value, EcdsaSighashType::All, sig, &holder_funding);
                    sig_checks += 1;
                    if ms.is_empty() {
                        sig1 = Some(*sig);
                        if !on_supplied {
                            viol.push(json!({"what": "phase-1 signature does not verify on the model's canonical transaction"}));
                        }
                    } else {
                        // ... and a changed transaction may only be signed as the transaction of another
                        // content (the two balances are read from the transaction) that the semantic entry
                        // point signs as well; that it is the canonical transaction of that content is what
                        // the model's sign_phase1 is compared on (pass B)
                        let tx_changed = tx != mtx;
                        // same content (arguments untouched, the decoder reads the same balances) but
                        // another transaction: the canonical transaction of that content is the model's
                        let same_content = !args_changed
                            && obs.as_ref().map(|o| o.cs_value == c.to_holder && o.b_value == c.to_cp).unwrap_or(false);
                        if tx_changed && same_content {
                            viol.push(json!({"what": "phase 1 signed a transaction that is not byte for byte the canonical transaction of its content",
                                             "mutation": ms.iter().map(|x| x.coq()).collect::<Vec<_>>(),
                                             "tx": hexs(&serialize(&tx)), "canonical": hexs(&m.tx)}));
                        }
                        if !acc {
                            viol.push(json!({"what": "phase 1 signed for a content (its arguments and the balances of the supplied transaction) that the semantic entry point refuses",
                                             "mutation": ms.iter().map(|x| x.coq()).collect::<Vec<_>>(), "tx": hexs(&serialize(&tx))}));
                        }
                        if !on_supplied {
                            viol.push(json!({"what": "phase 1 accepted a transaction but its signature does not verify on it",
                                             "mutation": ms.iter().map(|x| x.coq()).collect::<Vec<_>>()}));
                        }
                        if tx_changed && verify(&secp, &mtx, 0, &fs, c.value, EcdsaSighashType::All, sig, &holder_funding) {
                            viol.push(json!({"what": "signature for a changed transaction also verifies on the canonical one"}));
                        }
                    }
                }
                R::Err(msg) => {
                    if ms.is_empty() {
                        p1_status = msg.clone();
                    }
                    *dist.entry(format!("phase1-refused:{}", err_kind(msg))).or_insert(0) += 1;
                }
                R::Panic => {
                    // an abort releases no signature: not a violation of this property, but recorded;
                    // the node state mutex is poisoned by it, so the node is rebuilt
                    *dist.entry(format!("phase1-panic:{}", last_panic())).or_insert(0) += 1;
                    panics.push(json!({"mutation": ms.iter().map(|x| x.coq()).collect::<Vec<_>>(), "panic": last_panic()}));
                    if let Some(fresh) = make_live(&secp, &c) {
                        a = fresh;
                    }
                }
            }
            mutant_terms.push(json!({
                "m": coq_list(&ms.iter().map(|x| x.coq()).collect::<Vec<_>>()),
                "obs": obs.as_ref().map(|o| o.coq()),
                "acc": acc, "ok": ok, "keys": keys,
                "err": match &r1 { R::Err(m) => err_kind(m), R::Panic => "panic".to_string(), R::Ok(_) => String::new() },
            }));
        }

        // (c) signatures against the model's bytes; entry points agree
        let mut p2_status = String::new();
        match &r2 {
            R::Ok((sig2, hsigs)) => {
                *dist.entry("phase2-signed".into()).or_insert(0) += 1;
                sig_checks += 1;
                if !verify(&secp, &mtx, 0, &fs, c.value, EcdsaSighashType::All, sig2, &holder_funding) {
                    viol.push(json!({"what": "phase-2 commitment signature does not verify on the model's canonical transaction",
                                     "model_tx": hexs(&m.tx), "impl_tx": impl_tx.as_ref().map(|t| hexs(t))}));
                }
                match &sig1 {
                    None => viol.push(json!({"what": "semantic entry point signed, raw entry point refused the canonical transaction",
                                             "phase1_status": p1_status})),
                    Some(s1) =>
                        if s1 != sig2 {
                            viol.push(json!({"what": "the two entry points returned different signatures"}));
                        },
                }
                // HTLC transactions
                if !m.htx_ok || m.htx.len() != hsigs.len() {
                    viol.push(json!({"what": "number of HTLC signatures differs from the model's HTLC transactions",
                                     "impl": hsigs.len(), "model": m.htx.len(), "model_ok": m.htx_ok}));
                } else {
                    let ty = if c.ctype == 3 { EcdsaSighashType::SinglePlusAnyoneCanPay } else { EcdsaSighashType::All };
                    for (j, (raw, sig)) in m.htx.iter().zip(hsigs.iter()).enumerate() {
                        let htx: Transaction = match deserialize(raw) {
                            Ok(t) => t,
                            Err(_) => {
                                viol.push(json!({"what": "model HTLC tx does not deserialize", "j": j}));
                                continue;
                            }
                        };
                        let vout = htx.input[0].previous_output.vout as usize;
                        let bound = htx.input[0].previous_output.txid == mtx.compute_txid() && vout < mtx.output.len();
                        if !bound {
                            viol.push(json!({"what": "model HTLC tx does not spend the model's commitment", "j": j}));
                            continue;
                        }
                        let script = ScriptBuf::from(m.ws[vout].clone());
                        let amount = mtx.output[vout].value.to_sat();
                        htlc_sig_checks += 1;
                        if !verify(&secp, &htx, 0, &script, amount, ty, sig, &k.c_htlc) {
                            viol.push(json!({"what": "HTLC signature does not verify on the model's HTLC transaction under the tweaked HTLC key",
                                             "j": j, "model_htlc_tx": hexs(raw)}));
                        }
                    }
                }
            }
            R::Err(msg) => {
                p2_status = msg.clone();
                *dist.entry(format!("phase2-refused:{}", err_kind(msg))).or_insert(0) += 1;
                if sig1.is_some() {
                    // not part of the property (only phase 2 => phase 1), but the model says both
                    // entry points apply the same validation: record it for the correspondence
                    *dist.entry("phase1-signed-phase2-refused".into()).or_insert(0) += 1;
                }
            }
            R::Panic => {
                *dist.entry("phase2-panic".into()).or_insert(0) += 1;
            }
        }
        // handler level: the same content as wire messages whose HTLC amounts are in msat (whole and
        // fractional satoshis), through as_vec -> from_vec -> ChannelHandler::handle at protocol 4/5/6
        let mut wire_checked = false;
        if let R::Ok((sig2, hsigs)) = &r2 {
            let proto = [4u32, 5, 6][idx % 3];
            let peer = pk_of(&secp, &[9u8; 32]).serialize();
            match expected.clone() {
                None => viol.push(json!({"what": "harness: LDK could not build the BOLT-3 transaction of the wire content"})),
                Some(exp) => {
                    let etx: Transaction = deserialize(&exp).expect("expected tx");
                    let wire_json = wire_htlcs(&c).iter().map(|(s, a, h, e)| json!([s, a, hexs(h), e])).collect::<Vec<_>>();
                    if let Some(lw) = make_live(&secp, &c) {
                        let h = make_handler(&lw.node, proto, peer, 1);
                        match wire_phase2(&h, &c, &k.pcp) {
                            R::Ok((ws2, whs)) => {
                                wire_checked = true;
                                sig_checks += 1;
                                if !verify(&secp, &etx, 0, &fs, c.value, EcdsaSighashType::All, &ws2, &holder_funding) {
                                    viol.push(json!({"what": "SignRemoteCommitmentTx2 (wire): the returned signature does not verify on the BOLT-3 commitment transaction of the requested content (HTLC outputs = amount_msat / 1000, rounded down)",
                                                     "protocol": proto, "wire_htlcs": wire_json, "expected_tx": hexs(&exp)}));
                                }
                                if ws2 != *sig2 || whs != *hsigs {
                                    viol.push(json!({"what": "SignRemoteCommitmentTx2 (wire) and Channel::sign_counterparty_commitment_tx_phase2 on the same content return different signatures",
                                                     "protocol": proto, "wire_htlcs": wire_json}));
                                }
                                // the raw request on the canonical transaction, on a node of its own
                                if let Some(l1) = make_live(&secp, &c) {
                                    let h1 = make_handler(&l1.node, proto, peer, 1);
                                    match wire_phase1(&h1, &c, &k.pcp, &cp_points(&secp, &c).funding_pubkey, &etx, &m.ws) {
                                        R::Ok(ws1) => {
                                            sig_checks += 1;
                                            if ws1 != ws2 || !verify(&secp, &etx, 0, &fs, c.value, EcdsaSighashType::All, &ws1, &holder_funding) {
                                                viol.push(json!({"what": "SignRemoteCommitmentTx (wire, raw) returns another signature than SignRemoteCommitmentTx2 for the canonical transaction",
                                                                 "protocol": proto, "wire_htlcs": wire_json}));
                                            }
                                        }
                                        R::Err(msg) =>
                                            if c.ctype != 2 {
                                                viol.push(json!({"what": "SignRemoteCommitmentTx (wire, raw) refuses the byte-for-byte canonical BOLT-3 transaction of a content that SignRemoteCommitmentTx2 signs",
                                                                 "protocol": proto, "status": msg, "wire_htlcs": wire_json, "expected_tx": hexs(&exp)}))
                                            },
                                        R::Panic => viol.push(json!({"what": "SignRemoteCommitmentTx (wire) panics", "panic": last_panic()})),
                                    }
                                }
                            }
                            R::Err(msg) => viol.push(json!({"what": "SignRemoteCommitmentTx2 (wire) refuses a content that Channel::sign_counterparty_commitment_tx_phase2 signs",
                                                            "protocol": proto, "status": msg, "wire_htlcs": wire_json})),
                            R::Panic => viol.push(json!({"what": "SignRemoteCommitmentTx2 (wire) panics", "panic": last_panic()})),
                        }
                    }
                }
            }
            if wire_checked {
                *dist.entry(format!("wire-checked:protocol-{}", proto)).or_insert(0) += 1;
                if c.offered.iter().chain(c.received.iter()).any(|h| h.extra != 0) {
                    *dist.entry("wire-checked:fractional-satoshi-htlc".into()).or_insert(0) += 1;
                }
            }
        }
        // raw HTLC-transaction entry points under the default filter and under filters that demote
        // policy-htlc-other / the policy-htlc- prefix / everything: the BOLT-3 second-stage
        // transactions of this commitment (the model's), and single-field changes of them
        if !m.htx.is_empty() && c.ctype != 2 && idx % 2 == 1 {
            let cp = cp_points(&secp, &c);
            // the holder-side entry point gets a per-commitment point of its own
            let hpoint = pk_of(&secp, &[0x55u8; 32]);
            let h_rev = derive_revocation(&secp, &hpoint, &cp.revocation_basepoint.0);
            let h_delayed = derive_pub(&secp, &hpoint, &a.holder.delayed_payment_basepoint.0);
            let h_key = derive_pub(&secp, &hpoint, &a.holder.htlc_basepoint.0);
            let lives: Vec<Option<Live>> = (0..4u8)
                .map(|mode| {
                    let mut cm = c.clone();
                    cm.filter_mode = mode;
                    make_live(&secp, &cm)
                })
                .collect();
            let (s_cp, k_cp, _) = gen_coq(&secp, &c, &a.holder, &k);
            let mut ch = c.clone();
            ch.hdelay = c.cdelay;
            let kh = Keys { revocation: h_rev, delayed: h_delayed, b_htlc: k.b_htlc, c_htlc: k.c_htlc, obscure: k.obscure, pcp: hpoint };
            let (s_h, k_h, _) = gen_coq(&secp, &ch, &a.holder, &kh);
            let mut reqs_cp: Vec<String> = vec![];
            let mut reqs_h: Vec<String> = vec![];
            let mut descs: Vec<serde_json::Value> = vec![];
            for raw in m.htx.iter().take(2) {
                let htx: Transaction = match deserialize(raw) {
                    Ok(t) => t,
                    Err(_) => continue,
                };
                let vout = htx.input[0].previous_output.vout as usize;
                if vout >= m.ws.len() {
                    continue;
                }
                let redeem0 = m.ws[vout].clone();
                let amount0 = mtx.output[vout].value.to_sat();
                for holder_side in [false, true] {
                    let (delay, rev, delayed, key) = if holder_side {
                        (c.cdelay, h_rev, h_delayed, h_key)
                    } else {
                        (c.hdelay, k.revocation, k.delayed, k.c_htlc)
                    };
                    // the canonical transaction of this entry point: rebuilt from the model's one
                    let base = match reference_htlc_tx(c.ctype, delay, &rev, &delayed, &htx, &redeem0, amount0) {
                        Some(t) => t,
                        None => continue,
                    };
                    if !holder_side && serialize(&base) != *raw {
                        viol.push(json!({"what": "the model's HTLC transaction differs from the BOLT-3 one LDK's build_htlc_transaction gives for the harness's reading of it",
                                         "model_htlc_tx": hexs(raw), "reference": hexs(&serialize(&base))}));
                    }
                    for (what, tx, redeem, amount) in htlc_requests(&mut rng, &base, &redeem0, amount0) {
                        let reference = reference_htlc_tx(c.ctype, delay, &rev, &delayed, &tx, &redeem, amount);
                        let d_sup = htlc_digest(&tx, &redeem, amount, c.ctype);
                        let d_ref = reference.as_ref().and_then(|r| htlc_digest(r, &redeem, amount, c.ctype));
                        let redeem_s = ScriptBuf::from(redeem.clone());
                        let ows = ScriptBuf::new();
                        let mut decoded: Vec<Option<(u32, bool, u32, Vec<u8>)>> = vec![];
                        for (mode, live) in lives.iter().enumerate() {
                            let live = match live {
                                Some(l) => l,
                                None => continue,
                            };
                            // what the validator hands back (fee rate, direction, expiry, digest to sign)
                            let dec = catch_unwind(AssertUnwindSafe(|| {
                                live.node.with_channel(&live.channel_id, |chan| {
                                    let txkeys = if holder_side {
                                        TxCreationKeys::derive_new(
                                            &secp,
                                            &hpoint,
                                            &a.holder.delayed_payment_basepoint,
                                            &a.holder.htlc_basepoint,
                                            &cp.revocation_basepoint,
                                            &cp.htlc_basepoint,
                                        )
                                    } else {
                                        chan.make_counterparty_tx_keys(&k.pcp)
                                    };
                                    Ok(chan
                                        .validator()
                                        .decode_and_validate_htlc_tx(!holder_side, &chan.setup, &txkeys, &tx, &redeem_s, amount, &ows)
                                        .ok()
                                        .map(|(fr, h, sh, _)| (fr, h.offered, h.cltv_expiry, sh.to_byte_array().to_vec())))
                                })
                            }));
                            decoded.push(match dec {
                                Ok(Ok(x)) => x,
                                _ => None,
                            });
                            // the signature
                            let r = catch_unwind(AssertUnwindSafe(|| {
                                live.node.with_channel(&live.channel_id, |chan| {
                                    if holder_side {
                                        chan.sign_holder_htlc_tx(&tx, 0, Some(hpoint), &redeem_s, amount, &ows)
                                    } else {
                                        chan.sign_counterparty_htlc_tx(&tx, &k.pcp, &redeem_s, amount, &ows)
                                    }
                                })
                            }));
                            let entry = if holder_side { "sign_holder_htlc_tx" } else { "sign_counterparty_htlc_tx" };
                            match r {
                                Ok(Ok(ts)) => {
                                    htlc_sig_checks += 1;
                                    *dist.entry(format!("htlc-p1-signed:{}:filter{}", what, mode)).or_insert(0) += 1;
                                    let msg_of = |d: &[u8; 32]| Message::from_digest(*d);
                                    let on_ref = d_ref.map(|d| secp.verify_ecdsa(&msg_of(&d), &ts.sig, &key).is_ok()).unwrap_or(false);
                                    let on_sup = d_sup.map(|d| secp.verify_ecdsa(&msg_of(&d), &ts.sig, &key).is_ok()).unwrap_or(false);
                                    let detail = json!({"entry": entry, "filter_mode": mode, "change": what, "supplied_tx": hexs(&serialize(&tx)),
                                                        "reference_tx": reference.as_ref().map(|r| hexs(&serialize(r))),
                                                        "redeemscript": hexs(&redeem), "amount_sat": amount});
                                    if !on_ref {
                                        viol.push(json!({"what": "raw HTLC entry point: the returned signature does not verify under the channel's HTLC key on the BOLT-3 second-stage transaction rebuilt from the channel's parameters", "detail": detail}));
                                    }
                                    if d_sup != d_ref {
                                        viol.push(json!({"what": "raw HTLC entry point: a signature was returned although the supplied transaction is not the rebuilt BOLT-3 one (digests differ)", "detail": detail, "verifies_on_supplied": on_sup}));
                                    }
                                }
                                Ok(Err(_)) => {
                                    *dist.entry(format!("htlc-p1-refused:{}", what)).or_insert(0) += 1;
                                    if what == "canonical" && mode == 0 {
                                        *dist.entry("htlc-p1-canonical-refused".into()).or_insert(0) += 1;
                                    }
                                }
                                Err(_) => {
                                    *dist.entry(format!("htlc-p1-panic:{}", last_panic())).or_insert(0) += 1;
                                }
                            }
                        }
                        // the answer must not depend on the filter
                        if decoded.windows(2).any(|w| w[0] != w[1]) {
                            viol.push(json!({"what": "decode_and_validate_htlc_tx answers differently under different policy filters",
                                             "change": what, "holder_side": holder_side, "answers": decoded.iter().map(|d| d.as_ref().map(|x| json!([x.0, x.1, x.2, hexs(&x.3)]))).collect::<Vec<_>>(),
                                             "supplied_tx": hexs(&serialize(&tx))}));
                        }
                        // the most permissive filter's answer goes to the model
                        let last = decoded.last().cloned().flatten();
                        let term = format!(
                            "({}, @R{}@, {}, {})",
                            tx_coq(&tx),
                            hexs(&redeem),
                            amount,
                            last.as_ref()
                                .map(|(fr, off, cl, d)| format!("Some ({}, {}, {}, {})", fr, coq_bool(*off), cl, hx(d)))
                                .unwrap_or("None".into())
                        );
                        if holder_side {
                            reqs_h.push(term)
                        } else {
                            reqs_cp.push(term)
                        }
                        descs.push(json!([holder_side, what]));
                    }
                }
            }
            emit("HTLC", json!({"idx": idx, "case": case_json(&c), "coq_cp": [s_cp, k_cp], "coq_holder": [s_h, k_h],
                                "reqs_cp": reqs_cp, "reqs_holder": reqs_h, "descs": descs}));
        }
        // restart: the signer restored from the store must give the same answers.  The channel was
        // persisted by the accepted phase-2 request; a retry of the same commitment is admitted
        // by the state it stored.
        let mut restarted = false;
        if let (R::Ok((sig2, hsigs)), true) = (&r2, idx % 2 == 0) {
            // control: the same two requests on a node that is not restarted (a retry may be
            // refused for reasons of its own, e.g. by the payment policies once the payments of the
            // first request are booked)
            let ctrl = make_live(&secp, &c);
            fn kind<T>(r: &R<T>) -> u8 {
                match r {
                    R::Ok(_) => 0,
                    R::Err(_) => 1,
                    R::Panic => 2,
                }
            }
            let (ctrl2, ctrl1) = match &ctrl {
                Some(l) => {
                    let _ = phase2(l, &c, &k.pcp);
                    let r = kind(&phase2(l, &c, &k.pcp));
                    // a panic poisons the node: the phase-1 control needs its own
                    let l1 = make_live(&secp, &c);
                    let r1 = match &l1 {
                        Some(l1) => {
                            let _ = phase2(l1, &c, &k.pcp);
                            kind(&phase1(l1, &c, &k.pcp, &mtx, &m.ws))
                        }
                        None => 1,
                    };
                    (r, r1)
                }
                None => (1, 1),
            };
            if b.restart() {
                restarted = true;
                let r2r = phase2(&b, &c, &k.pcp);
                if kind(&r2r) != ctrl2 {
                    viol.push(json!({"what": "a restart from the store changes what phase 2 answers to the retry of a signed commitment (0 signed, 1 refused, 2 panic)",
                                     "with_restart": kind(&r2r), "without": ctrl2}));
                }
                if let R::Ok((s2r, hr)) = &r2r {
                    sig_checks += 1;
                    if !verify(&secp, &mtx, 0, &fs, c.value, EcdsaSighashType::All, s2r, &holder_funding) {
                        viol.push(json!({"what": "after a restart from the store the phase-2 commitment signature does not verify on the model's canonical transaction"}));
                    }
                    if *s2r != *sig2 || *hr != *hsigs {
                        viol.push(json!({"what": "phase 2 returns different signatures after a restart from the store"}));
                    }
                }
                if matches!(r2r, R::Panic) {
                    // the restored node is poisoned: restore it once more for the phase-1 request
                    b.restart();
                }
                let r1r = phase1(&b, &c, &k.pcp, &mtx, &m.ws);
                if kind(&r1r) != ctrl1 {
                    viol.push(json!({"what": "a restart from the store changes what phase 1 answers to the canonical transaction of a signed commitment (0 signed, 1 refused, 2 panic)",
                                     "with_restart": kind(&r1r), "without": ctrl1}));
                }
                if let R::Ok(s1r) = &r1r {
                    sig_checks += 1;
                    if !verify(&secp, &mtx, 0, &fs, c.value, EcdsaSighashType::All, s1r, &holder_funding) {
                        viol.push(json!({"what": "after a restart from the store the phase-1 signature does not verify on the model's canonical transaction"}));
                    }
                    if *s1r != *sig2 {
                        viol.push(json!({"what": "the two entry points return different signatures after a restart from the store"}));
                    }
                }
                *dist.entry(format!("restart-checked:retry-{}", ["signed", "refused", "panic"][kind(&r2r) as usize])).or_insert(0) += 1;
            } else {
                viol.push(json!({"what": "the node cannot be restored from the store after a signed commitment"}));
            }
        }
        // digests computed by Gallina SHA-256 for a sample: rust-bitcoin's txid / BIP143 agree
        let mut digest_checked = false;
        if let Some((txid, sh, hs)) = &m.digests {
            digest_checked = true;
            let my_txid = mtx.compute_txid().to_byte_array().to_vec();
            let my_sh = SighashCache::new(&mtx)
                .p2wsh_signature_hash(0, &fs, Amount::from_sat(c.value), EcdsaSighashType::All)
                .unwrap()
                .to_byte_array()
                .to_vec();
            if *txid != my_txid || *sh != my_sh {
                emit("HARNESS_ERROR", json!({"idx": idx, "what": "Gallina txid / sighash differs from rust-bitcoin's"}));
            }
            let ty = if c.ctype == 3 { EcdsaSighashType::SinglePlusAnyoneCanPay } else { EcdsaSighashType::All };
            for (raw, d) in m.htx.iter().zip(hs.iter()) {
                let htx: Transaction = deserialize(raw).unwrap();
                let vout = htx.input[0].previous_output.vout as usize;
                let script = ScriptBuf::from(m.ws[vout].clone());
                let mine = SighashCache::new(&htx)
                    .p2wsh_signature_hash(0, &script, mtx.output[vout].value, ty)
                    .unwrap()
                    .to_byte_array()
                    .to_vec();
                if mine != *d {
                    emit("HARNESS_ERROR", json!({"idx": idx, "what": "Gallina HTLC sighash differs from rust-bitcoin's"}));
                }
            }
        }
        violations += viol.len() as u64;
        let (s, ks, ct) = gen_coq(&secp, &c, &a.holder, &k);
        let accept_flag = matches!(r2, R::Ok(_));
        let _ = acc0;
        let coq_head = format!("mkCase {} {} {} {}", s, ks, ct, coq_bool(true));
        let oracle_json: BTreeMap<String, String> = oracle.iter().map(|(a, b)| (hexs(a), hexs(b))).collect();
        emit(
            "CASE",
            json!({
                "idx": idx, "case": case_json(&c), "coq_head": coq_head, "coq_mutants": mutant_terms, "coq_oracle": oracle_json,
                "phase2": if accept_flag { "signed".to_string() } else { format!("refused: {}", err_kind(&p2_status)) },
                "phase1": if sig1.is_some() { "signed".to_string() } else { format!("refused: {}", err_kind(&p1_status)) },
                "phase2_status": p2_status, "phase1_status": p1_status,
                "validator_accepts": acc0,
                "builder_agrees": builder_agrees, "bolt3_agrees": bolt3_agrees, "has_trimmed_htlc": has_trimmed,
                "n_outputs": mtx.output.len(), "n_htlc_txs": m.htx.len(), "mutants": n_case_mutants,
                "digest_checked": digest_checked, "restarted": restarted, "wire_checked": wire_checked,
                "model_tx": hexs(&m.tx),
                "violations": viol,
                "panics": panics.iter().take(3).collect::<Vec<_>>(), "n_panics": panics.len(),
            }),
        );
    }
    emit(
        "STATS",
        json!({
            "stage": "run", "dist": dist, "signature_checks": sig_checks, "htlc_signature_checks": htlc_sig_checks,
            "mutants": n_mutants, "accepted_mutants": n_accepted_mutants, "monitor_violations": violations,
            "mutation_classes": mut_classes.iter().map(|(k, v)| (k.clone(), json!({"tried": v.0, "accepted": v.1}))).collect::<BTreeMap<_, _>>(),
        }),
    );
}

static LAST_PANIC: std::sync::Mutex<String> = std::sync::Mutex::new(String::new());

fn last_panic() -> String {
    LAST_PANIC.lock().map(|g| g.clone()).unwrap_or_default()
}

fn main() {
    std::panic::set_hook(Box::new(|info| {
        let loc = info.location().map(|l| format!("{}:{}", l.file(), l.line())).unwrap_or_default();
        let msg = if let Some(s) = info.payload().downcast_ref::<&str>() {
            s.to_string()
        } else if let Some(s) = info.payload().downcast_ref::<String>() {
            s.clone()
        } else {
            String::new()
        };
        if let Ok(mut g) = LAST_PANIC.lock() {
            *g = format!("{} at {}", msg, loc);
        }
    }));
    let argv: Vec<String> = std::env::args().collect();
    let args = parse_args(&argv[2..]);
    match argv[1].as_str() {
        "gen" => gen(&args),
        "run" => run(&args),
        other => {
            eprintln!("unknown sub-domain {}", other);
            std::process::exit(2)
        }
    }
}
