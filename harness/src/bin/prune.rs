//! Domain `prune` (C15): a real Node on a MemoryKVVStore persister.  Histories over
//! {new_channel(peer, dbid), setup_channel (+ signing the funding transaction), forget_channel,
//! get_heartbeat, a block connected / disconnected through the node's ChainTracker (followed by
//! the tracker write the handler does), restart from the store} are run against it; after
//! every operation the channel map (stubs with their creation height, ready channels with
//! forget_seen / is_done / the heights their monitor recorded), the channel entries in the
//! store, the high-water mark in memory and in the store, the tracker height and Ok / the
//! Status code are recorded for the Coq model (Model/Prune.v).
//!
//! Independently of the model the harness checks the property itself on the node's answers,
//! against its own record of the chain: a ready channel disappears (from memory or from the
//! store) only in a heartbeat, only if forget_channel was called for it, and only if a
//! double-spend of a funding input, a mutual close, or a unilateral close with every tracked
//! output spent lies MIN_DEPTH or more blocks deep on the chain that is connected right now;
//! a new_channel with a dbid at or below one that was forgotten is refused, also after
//! restarts; the high-water mark never decreases.
//!
//! MIN_DEPTH, CHANNEL_STUB_PRUNE_BLOCKS and the regtest allowance are private constants of
//! vls-core: they are read from the source of the tree under test at run time, drive the
//! boundaries of the generated histories and are part of every case, where the Coq check
//! compares them with the model's.
use lightning_signer::bitcoin::absolute::LockTime;
use lightning_signer::bitcoin::bip32::DerivationPath;
use lightning_signer::bitcoin::hashes::Hash;
use lightning_signer::bitcoin::secp256k1::{PublicKey, Secp256k1};
use lightning_signer::bitcoin::transaction::Version;
use lightning_signer::bitcoin::{Amount, Block, OutPoint, ScriptBuf, Sequence, Transaction, TxIn, TxOut, Txid, Witness};
use lightning_signer::chain::tracker::Headers;
use lightning_signer::channel::{ChannelId, ChannelSetup, ChannelSlot, CommitmentType};
use lightning_signer::node::{Node, SpendType};
use lightning_signer::persist::Persist;
use lightning_signer::signer::derive::KeyDerivationStyle;
use lightning_signer::tx::tx::{CommitmentInfo2, HTLCInfo2};
use lightning_signer::bitcoin::hash_types::FilterHeader;
use lightning_signer::txoo::proof::{ProofType, TxoProof};
use lightning_signer::txoo::spv::SpvProof;
use lightning_signer::util::status::{Code, Status};
use lightning_signer::util::test_utils::key::{make_test_counterparty_points, make_test_pubkey};
use lightning_signer::util::test_utils::*;
use lightning_signer::lightning::types::payment::{PaymentHash, PaymentPreimage};
use serde_json::{json, Value};
use std::collections::{BTreeMap, BTreeSet};
use std::panic::{catch_unwind, AssertUnwindSafe};
use std::sync::Arc;
use vharness::*;

type Key = (u64, u64); // (peer index, dbid)

// ------------------------------------------------------------------ constants of the tree under test

#[derive(Clone, Copy, Debug)]
struct Consts {
    min_depth: u64,
    stub_blocks: u64,
    regtest_extra: u64,
}

fn repo_dir() -> String {
    std::env::var("VERIF_REPO").ok().or(option_env!("VERIF_REPO").map(|s| s.to_string())).unwrap_or("/repo".to_string())
}

fn number_after(text: &str, marker: &str) -> u64 {
    let at = text.find(marker).unwrap_or_else(|| panic!("constant marker {:?} not found in the source", marker));
    let rest = &text[at + marker.len()..];
    let digits: String = rest.chars().skip_while(|c| c.is_whitespace()).take_while(|c| c.is_ascii_digit() || *c == '_').filter(|c| *c != '_').collect();
    digits.parse().unwrap_or_else(|_| panic!("no number after {:?}", marker))
}

fn read_consts() -> Consts {
    let repo = repo_dir();
    let mon = std::fs::read_to_string(format!("{}/vls-core/src/monitor.rs", repo)).expect("monitor.rs");
    let node = std::fs::read_to_string(format!("{}/vls-core/src/node.rs", repo)).expect("node.rs");
    Consts {
        min_depth: number_after(&mon, "const MIN_DEPTH: u32 ="),
        stub_blocks: number_after(&node, "const CHANNEL_STUB_PRUNE_BLOCKS: u32 ="),
        regtest_extra: number_after(&node, "Network::Regtest => CHANNEL_STUB_PRUNE_BLOCKS +"),
    }
}

// ------------------------------------------------------------------ transactions

const FEERATE: u32 = 1000;
const TO_HOLDER: u64 = 2_000_000;
const TO_CP: u64 = 900_000;
const HTLC_SAT: u64 = 10_000;
const CHANNEL_SAT: u64 = 3_000_000;
const TO_THEM: u64 = CHANNEL_SAT - 2_000_000 - 1000; // their balance there (they pay the fee)
const OUR_SAT: u64 = 2_000_000; // our starting balance in a channel that the counterparty funds

// offsets inside a channel's block of transaction ids
const FI1: u64 = 1;
const FI2: u64 = 2;
const F: u64 = 10;
const D: u64 = 11;
const M: u64 = 20;
const C: u64 = 21;
const S: u64 = 30;
const H: u64 = 40;
const X: u64 = 50;
const EXT: u64 = 3;
const U: u64 = 60; // unrelated transaction

fn spend(prev: OutPoint) -> TxIn {
    TxIn { previous_output: prev, script_sig: ScriptBuf::new(), sequence: Sequence::ZERO, witness: Witness::default() }
}

fn tx_spending(prevs: &[OutPoint], nout: usize, salt: u64) -> Transaction {
    Transaction {
        version: Version::TWO,
        lock_time: LockTime::ZERO,
        input: prevs.iter().map(|p| spend(*p)).collect(),
        output: (0..nout).map(|i| TxOut { value: Amount::from_sat(1000 + salt * 10 + i as u64), script_pubkey: ScriptBuf::new() }).collect(),
    }
}

fn coinbase(h: u32) -> Transaction {
    Transaction {
        version: Version::non_standard(0),
        lock_time: LockTime::from_consensus(h),
        input: vec![],
        output: vec![TxOut { value: Amount::ZERO, script_pubkey: ScriptBuf::new() }],
    }
}

/// the proof an honest follower sends: attestation and compact filter of the whole block, SPV
/// sub-proof over the watches the signer reported; also the transactions it carries
fn follower_proof(block: &Block, prev_filter_header: &FilterHeader, height: u32, txid_watches: &[Txid], outpoint_watches: &[OutPoint]) -> (TxoProof, Vec<Transaction>) {
    let full = TxoProof::prove_unchecked(block, prev_filter_header, height);
    let filter = match full.proof {
        ProofType::Filter(filter, _) => filter,
        _ => panic!("expected a filter proof"),
    };
    let (spv_proof, _spent, _unspent) = SpvProof::build(block, txid_watches, outpoint_watches);
    let delivered = spv_proof.txs.clone();
    (TxoProof { attestations: full.attestations, proof: ProofType::Filter(filter, spv_proof) }, delivered)
}

#[derive(Clone)]
struct ATx {
    id: u64,
    name: &'static str,
    real: Transaction,
    kind: String, // Coq close_kind
}

/// what the harness knows about one (peer, dbid): ids, and once a stub existed, the funding
/// transaction and everything that can happen to the channel on chain
struct ChanU {
    key: Key,
    idx: u64,
    id0: ChannelId,
    perm: Option<ChannelId>,
    htlc: bool,     // our commitment carries an HTLC we offered (outgoing payment); WE force-close
    incoming: bool, // the counterparty's commitment carries an HTLC offered to us; THEY force-close
    prepared: Option<Prepared>,
}

struct Prepared {
    chan_ctx: TestChannelContext,
    tx_ctx: TestFundingTxContext,
    funding: Transaction,
    fo: OutPoint,
    cfg_coq: String,
    cfg_other_coq: String,
}

fn peer_bytes(p: u64) -> [u8; 33] {
    let mut b = [0u8; 33];
    b[0] = 2;
    b[1] = 0xA0 + p as u8;
    b[32] = 7;
    b
}

// ------------------------------------------------------------------ session

#[derive(Clone, Debug)]
enum SetupKind {
    Normal,
    Different,
}

#[derive(Clone, Debug)]
enum Op {
    New(Key),
    Setup(Key, SetupKind),
    Forget(Key),
    Heartbeat,
    Add(Vec<u64>),
    Burst(usize),
    Remove,
    Restart,
    // the node hands the signer the preimage of the incoming HTLC (not an operation of the model);
    // true = some later request that writes the node entry (add_keysend) follows at once
    Fulfill(Key, bool),
    /// the node approves a payment (keysend) to the very hash of the HTLC offered to us on this
    /// channel, as in a circular payment: an approval and a payment record for that hash exist
    /// when the preimage arrives.  Not a step of the model (nothing it tracks moves).
    Approve(Key),
}

#[derive(Clone, Debug, PartialEq)]
enum SlotView {
    Stub(u32),
    Ready { alias: bool, forgot: bool, done: bool, mon: [Option<u64>; 6] },
}

#[derive(Clone, Debug)]
struct View {
    mem: BTreeMap<Key, SlotView>,
    // the channel entries of the store; for an entry with a setup, the forget flag of its
    // listener in the stored tracker entry
    disk: Vec<(Key, Option<bool>)>,
    hwm_mem: u64,
    hwm_disk: u64,
    height: u32,
}

struct Sess {
    consts: Consts,
    max_channels: usize,
    filter_kind: usize,
    world: World,
    node: Arc<Node>,
    node_id: PublicKey,
    chans: BTreeMap<Key, ChanU>,
    idmap: BTreeMap<Vec<u8>, (Key, bool)>,
    txs: BTreeMap<u64, ATx>,
    txids: BTreeMap<Txid, u64>,
    // blocks connected and not disconnected, with the headers they were built on and the ids they carry
    stack: Vec<(Block, Headers, Vec<u64>)>,
    // ghost state of the property monitor
    asked: BTreeSet<Key>,
    forgotten_max: Option<u64>,
    view_base: BTreeMap<Key, usize>, // number of stack entries below the channel's view
    // the harness's OWN record of the preimages it handed to the signer, and what that made of the
    // incoming HTLC at the moment the counterparty's commitment first confirmed
    given: BTreeSet<Key>,
    approved: BTreeSet<Key>,
    frozen: BTreeMap<Key, bool>,
    incoming_c: BTreeMap<u64, (Key, String, String)>, // commitment id -> (channel, kind if claimable, kind if not)
    keysends: u8,
    last: View,
    // the record
    coq_ops: Vec<String>,
    coq_obs: Vec<String>,
    jsteps: Vec<Value>,
    violation: Option<Value>,
    aborted: bool,
    rejected: bool,
    stats: BTreeMap<String, u64>,
}

fn status_code(s: &Status) -> u64 {
    match s.code() {
        Code::Ok => 0,
        Code::InvalidArgument => 3,
        Code::FailedPrecondition => 9,
        Code::Internal => 13,
        _ => 99,
    }
}


/// The policy filter a case runs under.  The refusal of a forgotten (or lower) dbid is part of the
/// property and no filter may turn it into a warning, so the model has no filter input and the
/// expected answers are the same for all of these.  Everything else the histories request is
/// accepted under the default filter already, so a filter that demotes tags changes none of it.
const FILTERS: [&str; 5] = ["default", "permissive", "warn-prefix-policy-channel-", "warn-exact-id-reuse-tag", "shadowed-permissive"];

fn make_filter(kind: usize) -> lightning_signer::policy::filter::PolicyFilter {
    use lightning_signer::policy::filter::{FilterResult, FilterRule, PolicyFilter};
    match kind {
        0 => PolicyFilter::default(),
        1 => PolicyFilter::new_permissive(),
        2 => PolicyFilter { rules: vec![FilterRule { tag: "policy-channel-".to_string(), is_prefix: true, action: FilterResult::Warn }] },
        3 => PolicyFilter { rules: vec![FilterRule { tag: "policy-channel-original-channel-id-reuse".to_string(), is_prefix: false, action: FilterResult::Warn }] },
        _ => shadowed_permissive_filter(),
    }
}

impl Sess {
    fn new(consts: Consts, max_channels: usize) -> Sess {
        Sess::new_with_filter(consts, max_channels, 0)
    }

    fn new_with_filter(consts: Consts, max_channels: usize, filter_kind: usize) -> Sess {
        let mut policy = World::default_policy();
        policy.max_channels = max_channels;
        policy.filter = make_filter(filter_kind);
        let mut seed = [0u8; 32];
        seed[..12].copy_from_slice(b"lightning-2\0");
        let world = World::new(policy, seed, KeyDerivationStyle::Native);
        let node = world.new_node();
        let node_id = node.get_id();
        let mut s = Sess {
            consts,
            max_channels,
            filter_kind,
            world,
            node,
            node_id,
            chans: BTreeMap::new(),
            idmap: BTreeMap::new(),
            txs: BTreeMap::new(),
            txids: BTreeMap::new(),
            stack: vec![],
            asked: BTreeSet::new(),
            forgotten_max: None,
            view_base: BTreeMap::new(),
            given: BTreeSet::new(),
            approved: BTreeSet::new(),
            frozen: BTreeMap::new(),
            incoming_c: BTreeMap::new(),
            keysends: 0,
            last: View { mem: BTreeMap::new(), disk: vec![], hwm_mem: 0, hwm_disk: 0, height: 0 },
            coq_ops: vec![],
            coq_obs: vec![],
            jsteps: vec![],
            violation: None,
            aborted: false,
            rejected: false,
            stats: BTreeMap::new(),
        };
        let ext = Txid::from_raw_hash(Hash::from_byte_array([0x33u8; 32]));
        s.txids.insert(ext, EXT);
        let u = tx_spending(&[OutPoint { txid: ext, vout: 0 }], 2, 6);
        s.put_tx(U, "unrelated", u, "NotCommitment".to_string());
        s.last = s.view();
        s
    }

    fn stub_time(&self) -> u64 {
        self.consts.stub_blocks + self.consts.regtest_extra
    }

    fn put_tx(&mut self, id: u64, name: &'static str, real: Transaction, kind: String) {
        self.txids.insert(real.compute_txid(), id);
        self.txs.insert(id, ATx { id, name, real, kind });
    }

    fn chan(&mut self, key: Key) -> &mut ChanU {
        if !self.chans.contains_key(&key) {
            let idx = self.chans.len() as u64;
            let id0 = ChannelId::new_from_peer_id_and_oid(&peer_bytes(key.0), key.1);
            let alias = key.0.wrapping_add(key.1) % 2 == 1;
            let perm = if alias {
                let mut b = [0x50u8; 32];
                b[0] = key.0 as u8;
                b[1..9].copy_from_slice(&key.1.to_le_bytes());
                Some(ChannelId::new(&b))
            } else {
                None
            };
            self.idmap.insert(id0.inner().clone(), (key, false));
            if let Some(p) = &perm {
                self.idmap.insert(p.inner().clone(), (key, true));
            }
            self.chans.insert(key, ChanU { key, idx, id0, perm, htlc: key.1 % 2 == 0, incoming: key.1 == 3, prepared: None });
        }
        self.chans.get_mut(&key).unwrap()
    }

    fn node_ctx(&self) -> TestNodeContext {
        TestNodeContext { node: self.node.clone(), secp_ctx: Secp256k1::signing_only() }
    }

    fn coq_op(&self, o: &OutPoint) -> String {
        let t = *self.txids.get(&o.txid).unwrap_or_else(|| panic!("unknown txid {}", o.txid));
        format!("({}, {})", t, o.vout)
    }

    fn coq_tx(&self, id: u64) -> String {
        let t = &self.txs[&id];
        let ins: Vec<String> = t.real.input.iter().map(|i| self.coq_op(&i.previous_output)).collect();
        let kind = match self.incoming_c.get(&id) {
            Some((key, with, without)) => if self.claimable(*key) { with.clone() } else { without.clone() },
            None => t.kind.clone(),
        };
        format!("(mktx {} {} {} ({}))", t.id, coq_list(&ins), t.real.output.len(), kind)
    }

    fn coq_block(&self, b: &[u64]) -> String {
        coq_list(&b.iter().map(|i| self.coq_tx(*i)).collect::<Vec<_>>())
    }

    /// can the node claim the HTLC output of the commitment that closes this channel?  The
    /// harness's own prediction: an HTLC we offered comes back to us by timeout; an HTLC offered to
    /// us is ours iff the harness handed the preimage to the signer before the close confirmed.
    fn claimable(&self, key: Key) -> bool {
        let c = &self.chans[&key];
        if c.htlc {
            true
        } else if c.incoming {
            *self.frozen.get(&key).unwrap_or(&self.given.contains(&key))
        } else {
            false
        }
    }

    fn preimage(&self, key: Key) -> PaymentPreimage {
        let mut b = [0x40u8; 32];
        b[0] = key.0 as u8;
        b[1] = key.1 as u8;
        PaymentPreimage(b)
    }

    /// the incoming HTLC as the counterparty's commitment 1 carries it
    fn incoming_htlc(&self, key: Key) -> HTLCInfo2 {
        HTLCInfo2 { value_sat: HTLC_SAT, payment_hash: PaymentHash::from(self.preimage(key)), cltv_expiry: 2000 }
    }

    /// the funding transaction of a channel whose stub exists (needs the channel's keys)
    fn prepare(&mut self, key: Key) {
        if self.chan(key).prepared.is_some() {
            return;
        }
        let node_ctx = self.node_ctx();
        let (idx, id0, incoming) = {
            let c = self.chan(key);
            (c.idx, c.id0.clone(), c.incoming)
        };
        let setup = ChannelSetup {
            // a channel with an incoming HTLC is funded by the counterparty (the policy does not let
            // us push value in a channel we fund); the push is OUR starting balance
            is_outbound: !incoming,
            channel_value_sat: CHANNEL_SAT,
            push_value_msat: if incoming { OUR_SAT * 1000 } else { 0 },
            funding_outpoint: OutPoint { txid: Txid::from_slice(&[2u8; 32]).unwrap(), vout: 0 },
            holder_selected_contest_delay: 6,
            holder_shutdown_script: None,
            counterparty_points: make_test_counterparty_points(),
            counterparty_selected_contest_delay: 7,
            counterparty_shutdown_script: None,
            commitment_type: CommitmentType::StaticRemoteKey,
        };
        let counterparty_keys = make_test_counterparty_keys(&node_ctx, &id0, CHANNEL_SAT);
        let mut chan_ctx = TestChannelContext { channel_id: id0.clone(), setup, counterparty_keys };
        let base = 1000 * (idx + 1);
        let nc = "NotCommitment".to_string();
        let mut tx_ctx = TestFundingTxContext::new();
        let (tx, vout, fin): (Transaction, u32, Vec<String>) = if incoming {
            // their funding transaction: inputs that are none of our business, no registered funding inputs
            let out = make_test_funding_channel_outpoint(&node_ctx.node, &chan_ctx.setup, &id0, CHANNEL_SAT);
            let ext = *self.txids.iter().find(|(_, v)| **v == EXT).unwrap().0;
            let tx = Transaction {
                version: Version::TWO,
                lock_time: LockTime::ZERO,
                input: vec![spend(OutPoint { txid: ext, vout: 100 + idx as u32 })],
                output: vec![out],
            };
            (tx, 0, vec![])
        } else {
            let stype = SpendType::P2wpkh;
            let incoming_sat = CHANNEL_SAT + 2_000_000 + idx;
            let fee = 1000;
            let change = incoming_sat - CHANNEL_SAT - fee;
            tx_ctx.add_wallet_input(&node_ctx, stype, (10 + 2 * idx) as u32, incoming_sat / 2);
            tx_ctx.add_wallet_input(&node_ctx, stype, (11 + 2 * idx) as u32, incoming_sat - incoming_sat / 2);
            tx_ctx.add_wallet_output(&node_ctx, stype, (1 + idx) as u32, change);
            let vout = tx_ctx.add_channel_outpoint(&node_ctx, &chan_ctx, CHANNEL_SAT);
            let tx = tx_ctx.to_tx();
            let fi: Vec<OutPoint> = tx.input.iter().map(|i| i.previous_output).collect();
            self.txids.insert(fi[0].txid, base + FI1);
            self.txids.insert(fi[1].txid, base + FI2);
            self.put_tx(base + D, "double-spend", tx_spending(&[fi[0]], 1, base + 1), nc.clone());
            let fin: Vec<String> = fi.iter().map(|o| self.coq_op(o)).collect();
            (tx, vout, fin)
        };
        let fo = OutPoint { txid: tx.compute_txid(), vout };
        chan_ctx.setup.funding_outpoint = fo;
        self.put_tx(base + F, "funding", tx.clone(), nc.clone());
        self.put_tx(base + M, "mutual-close", tx_spending(&[fo], 2, base + 3), nc.clone());
        let cfg_coq = format!("(mkcfg {} {} {})", base + F, vout, coq_list(&fin));
        let cfg_other_coq = format!("(mkcfg {} {} {})", base + F, vout + 1, coq_list(&fin));
        self.chan(key).prepared = Some(Prepared { chan_ctx, tx_ctx, funding: tx, fo, cfg_coq, cfg_other_coq });
    }

    /// after setup_channel succeeded on a stub: the rest of what a funder does, and the
    /// commitment transaction that can later appear on chain
    fn finish_setup(&mut self, key: Key) {
        let node_ctx = self.node_ctx();
        let node = self.node.clone();
        let node_id = self.node_id;
        let (idx, htlc) = {
            let c = self.chan(key);
            (c.idx, c.htlc)
        };
        if self.chans[&key].incoming {
            return self.finish_setup_incoming(key);
        }
        // channels of peer 1 are in lockstep (holder and counterparty commitment with the same number held)
        let lockstep = key.0 == 1;
        let base = 1000 * (idx + 1);
        let commitment = {
            let p = self.chans.get_mut(&key).unwrap().prepared.as_mut().unwrap();
            let mut commit_tx_ctx = channel_initial_holder_commitment(&node_ctx, &p.chan_ctx);
            let (csig, hsigs) = counterparty_sign_holder_commitment(&node_ctx, &p.chan_ctx, &mut commit_tx_ctx);
            validate_holder_commitment(&node_ctx, &p.chan_ctx, &commit_tx_ctx, &csig, &hsigs).expect("valid holder commitment");
            // signing the funding transaction registers its inputs with the monitor and the tracker
            let mut tx = p.funding.clone();
            let witvec = p.tx_ctx.sign(&node_ctx, &tx).expect("sign funding");
            p.tx_ctx.validate_sig(&node_ctx, &mut tx, &witvec);
            let mut offered = vec![];
            if htlc {
                let pre = PaymentPreimage([9u8; 32]);
                offered.push(HTLCInfo2 { value_sat: HTLC_SAT, payment_hash: PaymentHash::from(pre), cltv_expiry: 100 });
            }
            let c = channel_commitment(&node_ctx, &p.chan_ctx, 1, FEERATE, TO_HOLDER, TO_CP, offered.clone(), vec![]);
            let t = c.tx.as_ref().unwrap().trust().built_transaction().transaction.clone();
            let persister = self.world.persister.clone();
            node.with_channel(&p.chan_ctx.channel_id, |chan| {
                chan.enforcement_state.set_next_holder_commit_num_for_testing(2);
                chan.enforcement_state.current_holder_commit_info =
                    Some(CommitmentInfo2::new(false, TO_CP, TO_HOLDER, offered.clone(), vec![], FEERATE));
                if lockstep {
                    // both sides at commitment number 1 with the same HTLC set: the signer also
                    // holds the counterparty's commitment 1 (what we offer is what they receive).
                    // What confirms in these histories is always OUR commitment 1.
                    chan.enforcement_state.set_next_counterparty_commit_num_for_testing(2, make_test_pubkey(12));
                    chan.enforcement_state.current_counterparty_commit_info =
                        Some(CommitmentInfo2::new(true, TO_HOLDER, TO_CP, vec![], offered.clone(), FEERATE));
                }
                // a restart must find the same commitment info
                persister.update_channel(&node_id, chan).expect("persist channel");
                Ok(())
            })
            .expect("holder commitment state");
            t
        };
        if !self.txs.contains_key(&(base + C)) {
            let ctxid = commitment.compute_txid();
            let pos = |sat: u64| commitment.output.iter().position(|o| o.value.to_sat() == sat).map(|p| p as u32);
            let our = pos(TO_HOLDER).expect("our output");
            let hidx = if htlc { Some(pos(HTLC_SAT).expect("htlc output")) } else { None };
            let kind = format!(
                "Commitment (Some {}) {}",
                our,
                coq_list(&hidx.iter().map(|i| i.to_string()).collect::<Vec<_>>())
            );
            self.put_tx(base + C, "commitment", commitment.clone(), kind);
            let nc = "NotCommitment".to_string();
            self.put_tx(base + S, "sweep-our", tx_spending(&[OutPoint { txid: ctxid, vout: our }], 1, base + 7), nc.clone());
            if let Some(h) = hidx {
                let ht = tx_spending(&[OutPoint { txid: ctxid, vout: h }], 2, base + 10);
                let hid = ht.compute_txid();
                self.put_tx(base + H, "htlc-spend", ht, nc.clone());
                self.put_tx(base + X, "second-level-spend", tx_spending(&[OutPoint { txid: hid, vout: 0 }], 1, base + 20), nc.clone());
            }
        } else {
            assert_eq!(self.txs[&(base + C)].real.compute_txid(), commitment.compute_txid(), "commitment changed");
        }
    }

    /// A channel whose counterparty has a balance (push) and offers us an HTLC: the initial holder
    /// commitment is validated, the funding transaction signed, and the counterparty's commitments
    /// 0 and 1 (1 carries the HTLC offered to us) are signed through the real entry point
    /// sign_counterparty_commitment_tx_phase2.  What can confirm later is THEIR commitment 1.
    fn finish_setup_incoming(&mut self, key: Key) {
        let node_ctx = self.node_ctx();
        let node = self.node.clone();
        let idx = self.chans[&key].idx;
        let base = 1000 * (idx + 1);
        let hinfo = self.incoming_htlc(key);
        let to_holder = OUR_SAT;
        let commitment = {
            let p = self.chans.get_mut(&key).unwrap().prepared.as_mut().unwrap();
            let mut c0 = channel_commitment(&node_ctx, &p.chan_ctx, 0, 0, to_holder, TO_THEM, vec![], vec![]);
            let (csig, hsigs) = counterparty_sign_holder_commitment(&node_ctx, &p.chan_ctx, &mut c0);
            validate_holder_commitment(&node_ctx, &p.chan_ctx, &c0, &csig, &hsigs).expect("valid holder commitment");
            // the HTLC they offer first shows up in OUR commitment 1 (validated through the real entry point) ...
            let mut c1 = channel_commitment(&node_ctx, &p.chan_ctx, 1, 0, to_holder, TO_THEM - HTLC_SAT, vec![], vec![hinfo.clone()]);
            let (csig1, hsigs1) = counterparty_sign_holder_commitment(&node_ctx, &p.chan_ctx, &mut c1);
            validate_holder_commitment(&node_ctx, &p.chan_ctx, &c1, &csig1, &hsigs1).expect("valid holder commitment 1");
            // ... then in theirs
            node.with_channel(&p.chan_ctx.channel_id, |chan| {
                chan.sign_counterparty_commitment_tx_phase2(&make_test_pubkey(11), 0, 0, to_holder, TO_THEM, vec![], vec![])?;
                chan.sign_counterparty_commitment_tx_phase2(&make_test_pubkey(12), 1, 0, to_holder, TO_THEM - HTLC_SAT, vec![hinfo.clone()], vec![])?;
                let htlcs = lightning_signer::channel::Channel::htlcs_info2_to_oic(&vec![hinfo.clone()], &vec![]);
                let ctx = chan.make_counterparty_commitment_tx(&make_test_pubkey(12), 1, 0, to_holder, TO_THEM - HTLC_SAT, htlcs);
                Ok(ctx.trust().built_transaction().transaction.clone())
            })
            .expect("counterparty commitments")
        };
        if !self.txs.contains_key(&(base + C)) {
            let ctxid = commitment.compute_txid();
            let pos = |sat: u64| commitment.output.iter().position(|o| o.value.to_sat() == sat).map(|p| p as u32);
            let our = pos(to_holder).expect("our output");
            let h = pos(HTLC_SAT).expect("htlc output");
            let with = format!("Commitment (Some {}) [{}]", our, h);
            let without = format!("Commitment (Some {}) []", our);
            self.put_tx(base + C, "counterparty-commitment", commitment.clone(), without.clone());
            self.incoming_c.insert(base + C, (key, with, without));
            let nc = "NotCommitment".to_string();
            self.put_tx(base + S, "sweep-our", tx_spending(&[OutPoint { txid: ctxid, vout: our }], 1, base + 7), nc.clone());
            let ht = tx_spending(&[OutPoint { txid: ctxid, vout: h }], 2, base + 10);
            let hid = ht.compute_txid();
            self.put_tx(base + H, "htlc-claim", ht, nc.clone());
            self.put_tx(base + X, "htlc-claim-spend", tx_spending(&[OutPoint { txid: hid, vout: 0 }], 1, base + 20), nc.clone());
        } else {
            assert_eq!(self.txs[&(base + C)].real.compute_txid(), commitment.compute_txid(), "commitment changed");
        }
        // a channel set up again (after its stub was pruned) starts without the preimage
        self.frozen.remove(&key);
    }

    /// The node learned the preimage of the HTLC offered to us and hands it to the signer the way
    /// the in-process (loopback) signer does: Channel::htlcs_fulfilled right before the next
    /// commitment request, here the counterparty's commitment 1 signed again.  With
    /// [write_node_entry] a later request that happens to write the node entry follows (add_keysend).
    fn fulfill(&mut self, key: Key, write_node_entry: bool) {
        let node = self.node.clone();
        let id0 = self.chans[&key].id0.clone();
        let hinfo = self.incoming_htlc(key);
        let pre = self.preimage(key);
        let to_holder = OUR_SAT;
        node.with_channel(&id0, |chan| {
            chan.htlcs_fulfilled(vec![pre]);
            chan.sign_counterparty_commitment_tx_phase2(&make_test_pubkey(12), 1, 0, to_holder, TO_THEM - HTLC_SAT, vec![hinfo.clone()], vec![])?;
            Ok(())
        })
        .expect("htlcs_fulfilled + commitment");
        let mut wrote = false;
        if write_node_entry {
            self.keysends += 1;
            let secp = Secp256k1::new();
            let payee = PublicKey::from_secret_key(&secp, &lightning_signer::bitcoin::secp256k1::SecretKey::from_slice(&[3u8; 32]).unwrap());
            let mut h = [0x77u8; 32];
            h[0] = self.keysends;
            let ok = node.add_keysend(payee, PaymentHash(h), 1000).expect("add_keysend");
            assert!(ok, "keysend refused");
            wrote = true;
        }
        self.given.insert(key);
        let known = node.get_state().payments.get(&hinfo.payment_hash).map(|p| p.preimage.is_some());
        self.jsteps.push(json!({"htlcs_fulfilled": [key.0, key.1], "then_a_request_that_writes_the_node_entry": wrote, "signer_has_payment_and_preimage": format!("{:?}", known)}));
        self.bump("fulfilled");
    }

    // -------------------------------------------------------------- observation

    fn view(&self) -> View {
        let node = &self.node;
        let mut raw: Vec<(Key, bool, Option<u32>, Option<(bool, bool, OutPoint)>)> = vec![];
        {
            let channels = node.get_channels();
            for (id, slot_arc) in channels.iter() {
                let (key, is_perm) = *self.idmap.get(id.inner()).unwrap_or_else(|| panic!("unknown channel id {:?}", id));
                let slot = slot_arc.lock().unwrap();
                match &*slot {
                    ChannelSlot::Stub(stub) => raw.push((key, is_perm, Some(stub.blockheight), None)),
                    ChannelSlot::Ready(chan) => raw.push((
                        key,
                        is_perm,
                        None,
                        Some((chan.monitor.forget_seen(), chan.monitor.is_done(), chan.setup.funding_outpoint)),
                    )),
                }
            }
        }
        let mut mem = BTreeMap::new();
        let tracker = node.get_tracker();
        for (key, is_perm, stub, ready) in raw.iter() {
            if *is_perm {
                continue;
            }
            let alias = raw.iter().any(|(k, p, _, _)| k == key && *p);
            if let Some(h) = stub {
                assert!(!alias, "a stub with a permanent id");
                mem.insert(*key, SlotView::Stub(*h));
            } else {
                let (forgot, done, fo) = ready.unwrap();
                let (m, _slot) = tracker.listeners.get(&fo).expect("a ready channel without a listener");
                let st = serde_json::to_value(&*m.get_state()).unwrap();
                let g = |k: &str| st[k].as_u64();
                mem.insert(
                    *key,
                    SlotView::Ready {
                        alias,
                        forgot,
                        done,
                        mon: [
                            g("height"),
                            g("funding_double_spent_height"),
                            g("mutual_closing_height"),
                            g("unilateral_closing_height"),
                            g("closing_swept_height"),
                            g("our_output_swept_height"),
                        ],
                    },
                );
            }
        }
        // a permanent id must never be present without the original id
        for (key, is_perm, _, _) in raw.iter() {
            if *is_perm {
                assert!(mem.contains_key(key), "permanent id without original id");
            }
        }
        let height = tracker.height();
        drop(tracker);
        let (_, stored_listeners) = self
            .world
            .persister
            .get_tracker(self.node_id, self.world.services().validator_factory)
            .expect("stored tracker");
        let stored_flags: BTreeMap<OutPoint, bool> = stored_listeners
            .iter()
            .map(|e| (e.0, serde_json::to_value(&(e.1).0).unwrap()["saw_forget_channel"].as_bool().expect("flag")))
            .collect();
        let mut disk: Vec<(Key, Option<bool>)> = self
            .world
            .persister
            .get_node_channels(&self.node_id)
            .expect("get_node_channels")
            .iter()
            .map(|(id, e)| {
                let key = self.idmap.get(id.inner()).unwrap_or_else(|| panic!("unknown stored channel id {:?}", id)).0;
                let flag = e.channel_setup.as_ref().map(|su| *stored_flags.get(&su.funding_outpoint).expect("a stored ready channel without a stored listener"));
                (key, flag)
            })
            .collect();
        disk.sort();
        assert_eq!(stored_flags.len(), disk.iter().filter(|d| d.1.is_some()).count(), "stored listeners and stored ready channels differ");
        let hwm_mem = node.get_state().dbid_high_water_mark;
        let nodes = self.world.persister.get_nodes().expect("get_nodes");
        let hwm_disk = nodes.into_iter().find(|(id, _)| *id == self.node_id).unwrap().1.state.dbid_high_water_mark;
        View { mem, disk, hwm_mem, hwm_disk, height }
    }

    fn coq_view(&self, code: u64, v: &View) -> String {
        let opt = |x: &Option<u64>| match x {
            Some(n) => format!("(Some {})", n),
            None => "None".to_string(),
        };
        let slots: Vec<String> = v
            .mem
            .iter()
            .map(|(k, s)| {
                let so = match s {
                    SlotView::Stub(h) => format!("OStub {}", h),
                    SlotView::Ready { alias, forgot, done, mon } => format!(
                        "OReady {} {} {} ({}, {}, {}, {}, {}, {})",
                        coq_bool(*alias),
                        coq_bool(*forgot),
                        coq_bool(*done),
                        mon[0].unwrap(),
                        opt(&mon[1]),
                        opt(&mon[2]),
                        opt(&mon[3]),
                        opt(&mon[4]),
                        opt(&mon[5])
                    ),
                };
                format!("(({}, {}), {})", k.0, k.1, so)
            })
            .collect();
        let disk: Vec<String> = v
            .disk
            .iter()
            .map(|(k, f)| format!("(({}, {}), {})", k.0, k.1, match f { Some(b) => format!("Some {}", coq_bool(*b)), None => "None".to_string() }))
            .collect();
        format!("(Some ({}, {}, {}, {}, {}, {}))", code, coq_list(&slots), coq_list(&disk), v.hwm_mem, v.hwm_disk, v.height)
    }

    fn json_view(&self, v: &View) -> Value {
        json!({
            "mem": v.mem.iter().map(|(k, s)| json!({"id": [k.0, k.1], "slot": format!("{:?}", s)})).collect::<Vec<_>>(),
            "store": v.disk.iter().map(|(k, f)| json!([k.0, k.1, f])).collect::<Vec<_>>(),
            "hwm": [v.hwm_mem, v.hwm_disk],
            "height": v.height,
        })
    }

    // -------------------------------------------------------------- the chain, as the harness knows it

    /// the block (index into the connected chain) that completes one of the three events,
    /// inside the part of the chain that the channel's monitor has seen
    fn event_index(&self, key: Key) -> Option<(usize, &'static str)> {
        let c = &self.chans[&key];
        let base = 1000 * (c.idx + 1);
        let from = *self.view_base.get(&key).unwrap_or(&0);
        let tip = self.stack.len();
        let pos = |id: u64| -> Option<usize> { (from..tip).find(|i| self.stack[*i].2.contains(&id)) };
        let mut best: Option<(usize, &'static str)> = None;
        let mut offer = |i: usize, what: &'static str| {
            if best.map(|b| i < b.0).unwrap_or(true) {
                best = Some((i, what));
            }
        };
        // (on a consistent chain the double-spend and the funding transaction exclude each other;
        // in the malformed stream both may be there, and a buried double-spend is one all the same)
        if let Some(i) = pos(base + D) {
            offer(i, "double-spend");
        }
        if let Some(i) = pos(base + M) {
            offer(i, "mutual-close");
        }
        if let Some(ic) = pos(base + C) {
            let mut need = vec![base + S];
            if self.claimable(key) {
                need.push(base + H);
                need.push(base + X);
            }
            let ps: Vec<Option<usize>> = need.iter().map(|t| pos(*t)).collect();
            if ps.iter().all(|p| p.is_some()) {
                let last = ps.iter().map(|p| p.unwrap()).max().unwrap().max(ic);
                offer(last, "closing-swept");
            }
        }
        best
    }

    /// is one of the three events buried MIN_DEPTH or more deep on the connected chain?
    /// (block i, 0-based, has depth tip - i)
    fn buried(&self, key: Key) -> Option<&'static str> {
        let tip = self.stack.len();
        match self.event_index(key) {
            Some((i, what)) if (tip - i) as u64 >= self.consts.min_depth => Some(what),
            _ => None,
        }
    }

    /// does `t` fit on top of the connected chain + `blk` (parents present, nothing spent twice)?
    fn fits(&self, blk: &[u64], t: u64) -> bool {
        let present: Vec<u64> = self.stack.iter().flat_map(|e| e.2.iter().cloned()).chain(blk.iter().cloned()).collect();
        if present.contains(&t) {
            return false;
        }
        let tx = &self.txs[&t];
        let mut spent: BTreeSet<OutPoint> = BTreeSet::new();
        for p in present.iter() {
            for i in self.txs[p].real.input.iter() {
                spent.insert(i.previous_output);
            }
        }
        for i in tx.real.input.iter() {
            if spent.contains(&i.previous_output) {
                return false;
            }
            let pid = self.txids[&i.previous_output.txid];
            if pid % 1000 >= 10 && pid >= 1000 && !present.contains(&pid) {
                return false;
            }
        }
        // a double-spend and the funding transaction exclude each other (shared input): covered by `spent`
        true
    }

    // -------------------------------------------------------------- operations

    /// Connect a block the way an honest chain follower does: the proof carries the compact
    /// filter and only those transactions of the block that match the watches the signer
    /// reports (forward watches; SpvProof::build adds in-block descendants).  Returns the ids
    /// of the transactions the proof delivered (None = the tracker refused the block).
    fn add_block(&mut self, ids: &[u64]) -> Result<Option<Vec<u64>>, ()> {
        let node = self.node.clone();
        let txs: Vec<Transaction> = ids.iter().map(|i| self.txs[i].real.clone()).collect();
        let persister = self.world.persister.clone();
        let node_id = self.node_id;
        let r = catch_unwind(AssertUnwindSafe(|| {
            let mut tracker = node.get_tracker();
            let mut all = vec![coinbase(tracker.height() + 1)];
            all.extend_from_slice(&txs);
            let prev = tracker.tip().clone();
            let block = make_block(prev.0, all);
            let (tw, ow) = tracker.get_all_forward_watches();
            let (proof, delivered) = follower_proof(&block, &prev.1, tracker.height() + 1, &tw, &ow);
            let ok = tracker.add_block(block.header, proof).is_ok();
            if ok {
                // what the AddBlock handler does next
                persister.update_tracker(&node_id, &tracker).expect("update_tracker");
            }
            (block, prev, ok, delivered)
        }));
        match r {
            Ok((b, p, true, delivered)) => {
                self.stack.push((b, p, ids.to_vec()));
                Ok(Some(delivered.iter().filter_map(|t| self.txids.get(&t.compute_txid()).cloned()).collect()))
            }
            Ok((_, _, false, _)) => Ok(None),
            Err(_) => Err(()),
        }
    }

    /// Disconnect the tip; the proof is built from the signer's REVERSE watches (watches and
    /// outpoints whose spend it has seen), as the follower does.
    fn remove_block(&mut self) -> Result<bool, ()> {
        let (block, prev, ids) = self.stack.pop().expect("nothing to remove");
        let node = self.node.clone();
        let persister = self.world.persister.clone();
        let node_id = self.node_id;
        let r = catch_unwind(AssertUnwindSafe(|| {
            let mut tracker = node.get_tracker();
            let (tw, ow) = tracker.get_all_reverse_watches();
            let (proof, _) = follower_proof(&block, &prev.1, tracker.height(), &tw, &ow);
            let ok = tracker.remove_block(proof, prev.clone()).is_ok();
            if ok {
                persister.update_tracker(&node_id, &tracker).expect("update_tracker");
            }
            ok
        }));
        match r {
            Ok(true) => {
                let n = self.stack.len();
                for (_, b) in self.view_base.iter_mut() {
                    if *b > n {
                        *b = n;
                    }
                }
                Ok(true)
            }
            Ok(false) => {
                self.stack.push((block, prev, ids));
                Ok(false)
            }
            Err(_) => Err(()),
        }
    }

    fn flag(&mut self, what: &str, extra: Value) {
        if self.violation.is_none() {
            self.violation = Some(json!({"what": what, "step": self.jsteps.len() - 1, "detail": extra}));
        }
    }

    fn bump(&mut self, k: &str) {
        *self.stats.entry(k.to_string()).or_default() += 1;
    }

    /// run one operation, record it, observe, check the property; false = the case ends here
    fn apply(&mut self, op: &Op) -> bool {
        let before = self.last.clone();
        let mut code: u64 = 0;
        let mut panicked = false;
        let mut new_dbid_ok: Option<Key> = None;
        if let Op::Fulfill(key, write) = op {
            // only for a ready channel with an incoming HTLC whose closing commitment has not been
            // seen on chain yet (the classification of a confirmed close must not change)
            let ok = matches!(self.last.mem.get(key), Some(SlotView::Ready { .. }))
                && self.chans.get(key).map(|c| c.incoming).unwrap_or(false)
                && !self.frozen.contains_key(key)
                && !self.given.contains(key);
            if ok {
                self.fulfill(*key, *write);
            }
            return true;
        }
        if let Op::Approve(key) = op {
            let ok = matches!(self.last.mem.get(key), Some(SlotView::Ready { .. }))
                && self.chans.get(key).map(|c| c.incoming).unwrap_or(false)
                && !self.frozen.contains_key(key)
                && !self.given.contains(key)
                && !self.approved.contains(key);
            if ok {
                let hinfo = self.incoming_htlc(*key);
                let secp = Secp256k1::new();
                let payee = PublicKey::from_secret_key(&secp, &lightning_signer::bitcoin::secp256k1::SecretKey::from_slice(&[3u8; 32]).unwrap());
                let ok = self.node.add_keysend(payee, hinfo.payment_hash, 1000).expect("add_keysend");
                assert!(ok, "keysend refused");
                self.approved.insert(*key);
                self.jsteps.push(json!({"add_keysend_for_the_hash_of_the_htlc_offered_to_us": [key.0, key.1]}));
                self.bump("approved_incoming_hash");
            }
            return true;
        }
        if let Op::Add(ids) = op {
            for id in ids.iter() {
                if let Some((key, _, _)) = self.incoming_c.get(id) {
                    let key = *key;
                    let g = self.given.contains(&key);
                    self.frozen.entry(key).or_insert(g);
                }
            }
        }
        match op {
            Op::Fulfill(_, _) | Op::Approve(_) => unreachable!(),
            Op::New(key) => {
                let key = *key;
                self.chan(key);
                let node = self.node.clone();
                let r = catch_unwind(AssertUnwindSafe(|| node.new_channel(key.1, &peer_bytes(key.0), &node).map(|_| ())));
                self.coq_ops.push(format!("One (NewChannel ({}, {}))", key.0, key.1));
                self.jsteps.push(json!({"new_channel": [key.0, key.1]}));
                match r {
                    Ok(Ok(())) => {
                        new_dbid_ok = Some(key);
                        self.bump("new_ok");
                    }
                    Ok(Err(e)) => {
                        code = status_code(&e);
                        let m = format!("{:?}", e);
                        self.bump(if m.contains("reuse") { "new_refused_reuse" } else if m.contains("too many") { "new_refused_full" } else { "new_refused_other" });
                    }
                    Err(_) => panicked = true,
                }
            }
            Op::Setup(key, kind) => {
                let key = *key;
                self.chan(key);
                let path = DerivationPath::master();
                let slot = before.mem.get(&key).cloned();
                let (id0, perm) = {
                    let c = self.chan(key);
                    (c.id0.clone(), c.perm.clone())
                };
                let node = self.node.clone();
                match slot {
                    None => {
                        let r = catch_unwind(AssertUnwindSafe(|| node.setup_channel(id0, None, make_test_channel_setup(), &path).map(|_| ())));
                        self.coq_ops.push(format!("One (Setup ({}, {}) false (mkcfg 9 0 []))", key.0, key.1));
                        self.jsteps.push(json!({"setup_unknown": [key.0, key.1]}));
                        match r {
                            Ok(Ok(())) => {}
                            Ok(Err(e)) => code = status_code(&e),
                            Err(_) => panicked = true,
                        }
                        self.bump("setup_no_channel");
                    }
                    Some(SlotView::Stub(_)) => {
                        self.prepare(key);
                        let (setup, cfg) = {
                            let p = self.chans[&key].prepared.as_ref().unwrap();
                            (p.chan_ctx.setup.clone(), p.cfg_coq.clone())
                        };
                        let alias = perm.is_some();
                        let r = catch_unwind(AssertUnwindSafe(|| node.setup_channel(id0, perm, setup, &path).map(|_| ())));
                        self.coq_ops.push(format!("One (Setup ({}, {}) {} {})", key.0, key.1, coq_bool(alias), cfg));
                        self.jsteps.push(json!({"setup": [key.0, key.1], "permanent_id": alias}));
                        match r {
                            Ok(Ok(())) => {
                                let fin = catch_unwind(AssertUnwindSafe(|| self.finish_setup(key)));
                                if fin.is_err() {
                                    eprintln!("harness error: the funding flow after setup_channel failed");
                                    std::process::exit(3);
                                }
                                self.view_base.insert(key, self.stack.len());
                                self.asked.remove(&key);
                                self.bump("setup_ok");
                            }
                            Ok(Err(e)) => code = status_code(&e),
                            Err(_) => panicked = true,
                        }
                    }
                    Some(SlotView::Ready { .. }) => {
                        let (mut setup, cfg, other) = {
                            let p = self.chans[&key].prepared.as_ref().unwrap();
                            (p.chan_ctx.setup.clone(), p.cfg_coq.clone(), p.cfg_other_coq.clone())
                        };
                        let diff = matches!(kind, SetupKind::Different);
                        if diff {
                            setup.funding_outpoint.vout += 1;
                        }
                        let alias = perm.is_some();
                        let r = catch_unwind(AssertUnwindSafe(|| node.setup_channel(id0, perm, setup, &path).map(|_| ())));
                        self.coq_ops.push(format!("One (Setup ({}, {}) {} {})", key.0, key.1, coq_bool(alias), if diff { other } else { cfg }));
                        self.jsteps.push(json!({"setup_again": [key.0, key.1], "different": diff}));
                        match r {
                            Ok(Ok(())) => {}
                            Ok(Err(e)) => code = status_code(&e),
                            Err(_) => panicked = true,
                        }
                        self.bump(if diff { "setup_again_different" } else { "setup_again_same" });
                    }
                }
            }
            Op::Forget(key) => {
                let key = *key;
                let id0 = self.chan(key).id0.clone();
                let node = self.node.clone();
                let r = catch_unwind(AssertUnwindSafe(|| node.forget_channel(&id0)));
                self.coq_ops.push(format!("One (Forget ({}, {}))", key.0, key.1));
                self.jsteps.push(json!({"forget": [key.0, key.1]}));
                match r {
                    Ok(Ok(())) => {
                        match before.mem.get(&key) {
                            Some(SlotView::Ready { .. }) => {
                                self.asked.insert(key);
                                self.forgotten_max = Some(self.forgotten_max.unwrap_or(0).max(key.1));
                                self.bump("forget_ready");
                            }
                            Some(SlotView::Stub(_)) => {
                                self.forgotten_max = Some(self.forgotten_max.unwrap_or(0).max(key.1));
                                self.bump("forget_stub");
                            }
                            None => self.bump("forget_unknown"),
                        }
                    }
                    Ok(Err(e)) => code = status_code(&e),
                    Err(_) => panicked = true,
                }
            }
            Op::Heartbeat => {
                let node = self.node.clone();
                let r = catch_unwind(AssertUnwindSafe(|| {
                    node.get_heartbeat();
                }));
                self.coq_ops.push("One Heartbeat".to_string());
                self.jsteps.push(json!({"heartbeat": true}));
                panicked = r.is_err();
                self.bump("heartbeat");
            }
            Op::Add(ids) => {
                self.coq_ops.push(format!("One (AddBlock {})", self.coq_block(ids)));
                self.jsteps.push(json!({"add_block": ids.iter().map(|i| format!("{}:{}", i, self.txs[i].name)).collect::<Vec<_>>()}));
                match self.add_block(ids) {
                    Ok(Some(delivered)) => {
                        // the model is given what the proof delivered to the listeners
                        let n = self.coq_ops.len() - 1;
                        self.coq_ops[n] = format!("One (AddBlock {})", self.coq_block(&delivered));
                        if delivered.len() != ids.len() {
                            let m = self.jsteps.len() - 1;
                            self.jsteps[m]["delivered_by_proof"] = json!(delivered);
                            self.bump("blocks_with_filtered_txs");
                        }
                        self.bump("blocks_added")
                    }
                    Ok(None) => {
                        // the tracker refused the block (C13's subject): the case ends before this step
                        self.coq_ops.pop();
                        self.jsteps.pop();
                        self.rejected = true;
                        return false;
                    }
                    Err(()) => panicked = true,
                }
            }
            Op::Burst(n) => {
                self.coq_ops.push(format!("Burst {}%nat", n));
                self.jsteps.push(json!({"empty_blocks": n}));
                for _ in 0..*n {
                    match self.add_block(&[]) {
                        Ok(Some(_)) => self.bump("blocks_added"),
                        Ok(None) => {
                            eprintln!("harness error: the tracker refused an empty block");
                            std::process::exit(3);
                        }
                        Err(()) => {
                            panicked = true;
                            break;
                        }
                    }
                }
            }
            Op::Remove => {
                self.coq_ops.push("One RemoveBlock".to_string());
                self.jsteps.push(json!({"remove_block": true}));
                match self.remove_block() {
                    Ok(true) => self.bump("blocks_removed"),
                    Ok(false) => {
                        self.coq_ops.pop();
                        self.jsteps.pop();
                        self.rejected = true;
                        return false;
                    }
                    Err(()) => panicked = true,
                }
            }
            Op::Restart => {
                self.coq_ops.push("One Restart".to_string());
                self.jsteps.push(json!({"restart": true}));
                let world = &self.world;
                let id = self.node_id;
                match catch_unwind(AssertUnwindSafe(|| world.restart(&id))) {
                    Ok(n) => self.node = n,
                    Err(_) => panicked = true,
                }
                self.bump("restarts");
            }
        }
        if panicked {
            self.coq_obs.push("None".to_string());
            self.aborted = true;
            self.bump("panics");
            return false;
        }
        let after = self.view();
        self.coq_obs.push(self.coq_view(code, &after));
        let n = self.jsteps.len() - 1;
        self.jsteps[n]["code"] = json!(code);

        // ---------------- the property itself, on the node's answers
        let is_hb = matches!(op, Op::Heartbeat);
        for (key, slot) in before.mem.iter() {
            let gone_mem = !after.mem.contains_key(key);
            let gone_disk = before.disk.iter().any(|d| d.0 == *key) && !after.disk.iter().any(|d| d.0 == *key);
            match slot {
                SlotView::Ready { .. } => {
                    if gone_mem || gone_disk {
                        let asked = self.asked.contains(key);
                        let ev = self.buried(*key);
                        if !is_hb || !asked || ev.is_none() {
                            self.flag(
                                "a ready channel was discarded although not (forgotten by the node and closed or double-spent MIN_DEPTH deep on the current chain)",
                                json!({"channel": [key.0, key.1], "gone_from_memory": gone_mem, "gone_from_store": gone_disk,
                                       "in_heartbeat": is_hb, "forget_was_requested": asked, "buried_event": ev,
                                       "min_depth": self.consts.min_depth, "before": self.json_view(&before), "after": self.json_view(&after)}),
                            );
                        } else {
                            self.bump(&format!("pruned_{}", ev.unwrap()));
                        }
                    } else if let Some(SlotView::Stub(_)) = after.mem.get(key) {
                        self.flag("a ready channel turned back into a stub", json!({"channel": [key.0, key.1]}));
                    }
                }
                SlotView::Stub(created) => {
                    if gone_mem {
                        let forgot_it = matches!(op, Op::Forget(k) if k == key);
                        let aged = is_hb && (after.height as u64).saturating_sub(*created as u64) > self.stub_time();
                        if !forgot_it && !aged {
                            self.flag("a stub disappeared although neither forgotten nor older than the stub prune time",
                                      json!({"channel": [key.0, key.1], "created": created, "height": after.height}));
                        } else if aged {
                            self.bump("stub_pruned_by_age");
                        }
                    }
                }
            }
        }
        if let Some(fm) = self.forgotten_max {
            if let Some(k) = new_dbid_ok {
                // the forget of this very step cannot be the reason: new_dbid_ok is set by New only
                if k.1 <= fm {
                    self.flag("new_channel accepted a dbid at or below a forgotten one",
                              json!({"channel": [k.0, k.1], "highest_forgotten_dbid": fm}));
                }
            }
            for key in after.mem.keys() {
                if !before.mem.contains_key(key) && key.1 <= fm {
                    self.flag("a channel with a dbid at or below a forgotten one was created",
                              json!({"channel": [key.0, key.1], "highest_forgotten_dbid": fm}));
                }
            }
            if after.hwm_mem < fm || after.hwm_disk < fm {
                self.flag("the high-water mark is below a forgotten dbid",
                          json!({"hwm": [after.hwm_mem, after.hwm_disk], "highest_forgotten_dbid": fm}));
            }
        }
        if after.hwm_mem < before.hwm_mem || after.hwm_disk < before.hwm_disk {
            self.flag("the high-water mark decreased", json!({"before": [before.hwm_mem, before.hwm_disk], "after": [after.hwm_mem, after.hwm_disk]}));
        }
        self.last = after;
        true
    }

    fn finish(mut self, origin: &str, admissible: bool, stats: &mut BTreeMap<String, u64>) {
        let coq = format!(
            "(({}, {}, {}), mkparams true {} true, 0, {}, {}, {})",
            self.consts.min_depth,
            self.consts.stub_blocks,
            self.consts.regtest_extra,
            self.max_channels,
            coq_list(&self.coq_ops.iter().map(|s| format!("({})", s)).collect::<Vec<_>>()),
            coq_bool(admissible),
            coq_list(&self.coq_obs)
        );
        let pruned: u64 = self.stats.iter().filter(|(k, _)| k.starts_with("pruned_")).map(|(_, v)| *v).sum();
        let nontrivial = admissible && pruned > 0 && (self.stats.get("restarts").cloned().unwrap_or(0) > 0 || self.stats.get("blocks_removed").cloned().unwrap_or(0) > 0);
        *self.stats.entry("cases".into()).or_default() += 1;
        if self.violation.is_some() {
            *self.stats.entry("monitor_violations".into()).or_default() += 1;
        }
        if self.rejected {
            *self.stats.entry("ended_by_tracker_refusal".into()).or_default() += 1;
        }
        for (k, v) in self.stats.iter() {
            *stats.entry(k.clone()).or_default() += v;
        }
        let mut j = json!({
            "origin": origin,
            "admissible": admissible,
            "max_channels": self.max_channels,
            "policy_filter": FILTERS[self.filter_kind],
            "steps": self.jsteps,
            "aborted": self.aborted,
            "nontrivial": nontrivial,
            "pruned": pruned,
            "final": self.json_view(&self.last),
            "coq": coq,
        });
        if let Some(v) = self.violation.take() {
            j["monitor_violation"] = v;
        }
        emit("CASE", j);
    }
}

// ------------------------------------------------------------------ generators

fn run_script(consts: Consts, maxc: usize, ops: &[Op], origin: &str, admissible: bool, stats: &mut BTreeMap<String, u64>) {
    run_script_under(consts, maxc, 0, ops, origin, admissible, stats)
}

fn run_script_under(consts: Consts, maxc: usize, filter_kind: usize, ops: &[Op], origin: &str, admissible: bool, stats: &mut BTreeMap<String, u64>) {
    let mut s = Sess::new_with_filter(consts, maxc, filter_kind);
    *stats.entry(format!("filter_{}", FILTERS[filter_kind])).or_default() += 1;
    for op in ops {
        if !s.apply(op) {
            break;
        }
    }
    s.finish(origin, admissible, stats);
}

/// the id of transaction `t` of channel number `idx` (channels are numbered in the order a
/// case first mentions them)
fn tid(idx: u64, t: u64) -> u64 {
    1000 * (idx + 1) + t
}

fn scripted(args: &Args) {
    let consts = read_consts();
    let mut stats = BTreeMap::new();
    let md = consts.min_depth as usize;
    let st = (consts.stub_blocks + consts.regtest_extra) as usize;
    let k1: Key = (0, 1); // permanent id, no HTLC
    let k2: Key = (0, 2); // no permanent id, one HTLC
    let k3: Key = (1, 3);
    use Op::*;
    let n = SetupKind::Normal;
    let mut scripts: Vec<(&str, usize, Vec<Op>)> = vec![];
    // mutual close: depth MIN-2, MIN-1, MIN
    scripts.push(("mutual-close-threshold", 1000, vec![
        New(k1), Setup(k1, n.clone()), Add(vec![tid(0, F)]), Add(vec![tid(0, M)]), Forget(k1),
        Burst(md.saturating_sub(3)), Heartbeat, Add(vec![]), Heartbeat, Restart, Heartbeat, Add(vec![]), Heartbeat,
        New(k1), New((1, 1)), New((1, 0)), Restart, New(k1), New((1, 2)),
    ]));
    // double spend, forget arrives late
    scripts.push(("double-spend-late-forget", 1000, vec![
        New(k1), Setup(k1, n.clone()), Add(vec![tid(0, D)]), Burst(md.saturating_sub(1)), Heartbeat, Add(vec![]), Heartbeat,
        Restart, Heartbeat, Forget(k1), Heartbeat, Restart, New(k1), New((0, 2)),
    ]));
    // unilateral close: our output swept, the HTLC not (merely closing), then everything swept
    scripts.push(("unilateral-merely-closing", 1000, vec![
        New(k2), Setup(k2, n.clone()), Add(vec![tid(0, F)]), Add(vec![tid(0, C)]), Add(vec![tid(0, S)]), Forget(k2),
        Burst(md), Heartbeat, Restart, Heartbeat, Add(vec![tid(0, H)]), Add(vec![tid(0, X)]),
        Burst(md.saturating_sub(2)), Heartbeat, Add(vec![]), Heartbeat, New(k2),
    ]));
    // unilateral close without HTLC, close and sweep in one block
    scripts.push(("unilateral-swept-one-block", 1000, vec![
        New(k1), Setup(k1, n.clone()), Add(vec![tid(0, F), tid(0, C), tid(0, S)]), Forget(k1),
        Burst(md.saturating_sub(2)), Heartbeat, Add(vec![]), Heartbeat,
    ]));
    // reorg across the threshold
    scripts.push(("reorg-across-threshold", 1000, vec![
        New(k1), Setup(k1, n.clone()), Add(vec![tid(0, F)]), Add(vec![tid(0, M)]), Forget(k1), Burst(md.saturating_sub(1)),
        Remove, Heartbeat, Remove, Remove, Heartbeat, Add(vec![]), Add(vec![]), Heartbeat, Add(vec![]), Heartbeat,
    ]));
    // the close itself is reorged out, the chain grows, the close comes back
    scripts.push(("reorg-removes-the-close", 1000, vec![
        New(k1), Setup(k1, n.clone()), Add(vec![tid(0, F)]), Add(vec![tid(0, M)]), Remove, Forget(k1), Burst(md + 1), Heartbeat,
        Add(vec![tid(0, M)]), Burst(md.saturating_sub(2)), Heartbeat, Add(vec![]), Heartbeat,
    ]));
    // forget, restart before the next block: the flag must be in the store (it was not before
    // forget_channel wrote the tracker entry, finding F10); asked again
    scripts.push(("forget-then-restart", 1000, vec![
        New(k1), Setup(k1, n.clone()), Add(vec![tid(0, F)]), Add(vec![tid(0, M)]), Forget(k1), Restart,
        Burst(md.saturating_sub(1)), Heartbeat, Add(vec![]), Heartbeat, Forget(k1), Heartbeat, Restart, New(k1),
    ]));
    // forget, a block, restart: the flag was written with the tracker
    scripts.push(("forget-flag-kept", 1000, vec![
        New(k1), Setup(k1, n.clone()), Add(vec![tid(0, F)]), Add(vec![tid(0, M)]), Forget(k1), Add(vec![]), Restart,
        Burst(md.saturating_sub(2)), Heartbeat, Restart, Heartbeat,
    ]));
    // stubs: age threshold, forget, ids
    scripts.push(("stub-age-threshold", 1000, vec![
        Add(vec![]), New(k1), New(k3), Burst(st.saturating_sub(1)), Heartbeat, Add(vec![]), Heartbeat, Restart, Heartbeat, Add(vec![]), Heartbeat,
        New(k1), Forget(k3), New(k3), Forget(k1), New(k1), New((1, 1)), New((0, 2)), Restart, New(k1), New((0, 2)), Forget((0, 2)), Restart, New((1, 2)), New((1, 3)),
    ]));
    // the map is full
    scripts.push(("map-full", 3, vec![
        New(k1), New(k2), Setup(k1, n.clone()), New(k3), New((1, 4)), New(k2), Forget(k2), New((1, 4)), New((1, 2)), Heartbeat,
    ]));
    // a reorg below the height at which the channel was set up
    scripts.push(("reorg-below-setup-height", 1000, vec![
        Add(vec![]), Add(vec![]), Add(vec![]), New(k1), Setup(k1, n.clone()), Remove, Remove, Add(vec![tid(0, F)]), Add(vec![tid(0, M)]), Forget(k1),
        Burst(md.saturating_sub(2)), Heartbeat, Add(vec![]), Heartbeat,
    ]));
    // two channels, events of both in one block; only one is forgotten
    scripts.push(("two-channels", 1000, vec![
        New(k1), New(k2), Setup(k1, n.clone()), Setup(k2, n.clone()), Add(vec![tid(0, F), tid(1, F)]), Add(vec![tid(0, M), tid(1, M)]), Forget(k2),
        Burst(md.saturating_sub(1)), Heartbeat, Restart, New((1, 2)), New((1, 3)), Setup((1, 3), n.clone()), Forget(k1), Heartbeat, Add(vec![]), Heartbeat,
        Forget((1, 3)), Heartbeat, New((0, 3)), New((0, 4)),
    ]));
    // setup requests that must be refused / idempotent
    scripts.push(("setup-variants", 1000, vec![
        Setup(k1, n.clone()), New(k1), Setup(k1, n.clone()), Setup(k1, n.clone()), Setup(k1, SetupKind::Different), Forget((1, 4)), Heartbeat, Restart, Setup(k1, n.clone()),
    ]));
    // unilateral close: everything spent except the second-level HTLC output, buried, forgotten:
    // still merely closing; then the last spend, a restart and a one-block reorg on the way
    scripts.push(("unilateral-second-level-open", 1000, vec![
        New(k2), Setup(k2, n.clone()), Add(vec![tid(0, F)]), Add(vec![tid(0, C), tid(0, S)]), Add(vec![tid(0, H)]), Forget(k2),
        Burst(md + 1), Heartbeat, Add(vec![tid(0, X)]), Burst(md.saturating_sub(2)), Restart, Heartbeat, Add(vec![]), Remove, Heartbeat, Add(vec![]), Heartbeat,
    ]));
    // the last sweep of a unilateral close is reorged out (our output was swept in an earlier
    // block): the close is no longer swept on the best chain, however deep the rest gets
    scripts.push(("last-sweep-reorged-out", 1000, vec![
        New(k2), Setup(k2, n.clone()), Add(vec![tid(0, F)]), Add(vec![tid(0, C)]), Add(vec![tid(0, S)]), Add(vec![tid(0, H)]), Add(vec![tid(0, X)]),
        Remove, Forget(k2), Burst(md + 1), Heartbeat, Restart, Heartbeat,
        Add(vec![tid(0, X)]), Burst(md.saturating_sub(2)), Heartbeat, Add(vec![]), Heartbeat,
    ]));
    // the same with the HTLC spend and the second-level spend both reorged out, forget first
    scripts.push(("htlc-sweeps-reorged-out", 1000, vec![
        New(k2), Setup(k2, n.clone()), Add(vec![tid(0, F)]), Add(vec![tid(0, C), tid(0, S)]), Add(vec![tid(0, H)]), Add(vec![tid(0, X)]), Forget(k2),
        Remove, Remove, Burst(md), Heartbeat, Add(vec![]), Heartbeat, Add(vec![tid(0, H), tid(0, X)]), Burst(md.saturating_sub(1)), Heartbeat,
    ]));
    // lockstep (peer 1: our commitment 1 and the counterparty's commitment 1 both held, same HTLC):
    // OUR commitment confirms, only the main output is swept, forgotten, buried: merely closing;
    // the HTLC output must still be recognised as ours to claim
    scripts.push(("lockstep-holder-close-htlc-open", 1000, vec![
        New((1, 2)), Setup((1, 2), n.clone()), Add(vec![tid(0, F)]), Add(vec![tid(0, C)]), Add(vec![tid(0, S)]), Forget((1, 2)),
        Burst(md), Heartbeat, Restart, Add(vec![]), Heartbeat, Add(vec![tid(0, H)]), Burst(md), Heartbeat,
        Add(vec![tid(0, X)]), Burst(md.saturating_sub(2)), Heartbeat, Add(vec![]), Heartbeat,
    ]));
    scripts.push(("lockstep-holder-close-one-block", 1000, vec![
        New((1, 4)), Setup((1, 4), n.clone()), Add(vec![tid(0, F), tid(0, C), tid(0, S)]), Forget((1, 4)),
        Burst(md.saturating_sub(1)), Heartbeat, Add(vec![]), Heartbeat, Restart, Heartbeat,
    ]));
    // the close is confirmed, the signer restarts, then a reorg disconnects the close (the proof of
    // the disconnected block is built from the reverse watches the restored signer reports): the
    // close is gone from the best chain, however long the channel then ages
    scripts.push(("restart-then-close-reorged-out", 1000, vec![
        New(k1), Setup(k1, n.clone()), Add(vec![tid(0, F)]), Add(vec![tid(0, M)]), Add(vec![]), Restart, Remove, Remove,
        Forget(k1), Burst(md + 1), Heartbeat, Restart, Heartbeat,
        Add(vec![tid(0, M)]), Burst(md.saturating_sub(2)), Heartbeat, Add(vec![]), Heartbeat,
    ]));
    scripts.push(("restart-then-double-spend-reorged-out", 1000, vec![
        New(k1), Setup(k1, n.clone()), Add(vec![tid(0, D)]), Forget(k1), Restart, Remove, Burst(md + 1), Heartbeat, Restart, Heartbeat,
    ]));
    scripts.push(("restart-then-sweeps-reorged-out", 1000, vec![
        New(k2), Setup(k2, n.clone()), Add(vec![tid(0, F)]), Add(vec![tid(0, C)]), Add(vec![tid(0, S)]), Add(vec![tid(0, H), tid(0, X)]),
        Restart, Remove, Remove, Forget(k2), Burst(md + 1), Heartbeat, Remove, Restart, Remove, Burst(md), Heartbeat,
    ]));
    // an HTLC offered to us (dbid 3), the counterparty force-closes with it pending.  Preimage
    // handed to the signer (htlcs_fulfilled + commitment, then a request that writes the node
    // entry), restart, close, only our main output swept: the HTLC output is still ours to claim
    let i3: Key = (0, 3);
    scripts.push(("incoming-htlc-preimage-then-restart", 1000, vec![
        New(i3), Setup(i3, n.clone()), Fulfill(i3, false), Restart, Add(vec![tid(0, F)]), Add(vec![tid(0, C)]), Add(vec![tid(0, S)]), Forget(i3),
        Burst(md), Heartbeat, Restart, Heartbeat, Add(vec![tid(0, H)]), Burst(md), Heartbeat, Add(vec![tid(0, X)]),
        Burst(md.saturating_sub(2)), Heartbeat, Add(vec![]), Heartbeat,
    ]));
    scripts.push(("incoming-htlc-preimage-node-entry-written-then-restart", 1000, vec![
        New(i3), Setup(i3, n.clone()), Fulfill(i3, true), Restart, Add(vec![tid(0, F)]), Add(vec![tid(0, C)]), Add(vec![tid(0, S)]), Forget(i3),
        Burst(md), Heartbeat, Restart, Heartbeat,
    ]));
    // the same with a payment to the very hash approved first (circular payment): the restored
    // node must still know the preimage
    scripts.push(("incoming-htlc-approved-hash-preimage-then-restart", 1000, vec![
        New(i3), Setup(i3, n.clone()), Approve(i3), Fulfill(i3, false), Restart, Add(vec![tid(0, F)]), Add(vec![tid(0, C)]), Add(vec![tid(0, S)]), Forget(i3),
        Burst(md), Heartbeat, Restart, Heartbeat, Add(vec![tid(0, H)]), Burst(md), Heartbeat, Add(vec![tid(0, X)]),
        Burst(md.saturating_sub(2)), Heartbeat, Add(vec![]), Heartbeat,
    ]));
    scripts.push(("incoming-htlc-preimage-no-restart", 1000, vec![
        New(i3), Setup(i3, n.clone()), Add(vec![tid(0, F)]), Fulfill(i3, false), Add(vec![tid(0, C), tid(0, S)]), Forget(i3),
        Burst(md), Heartbeat, Add(vec![tid(0, H), tid(0, X)]), Burst(md.saturating_sub(1)), Heartbeat,
    ]));
    // the same without the preimage: the HTLC output is not ours, the close is swept with the main output
    scripts.push(("incoming-htlc-no-preimage", 1000, vec![
        New((1, 3)), Setup((1, 3), n.clone()), Add(vec![tid(0, F)]), Add(vec![tid(0, C)]), Restart, Add(vec![tid(0, S)]), Forget((1, 3)),
        Burst(md.saturating_sub(2)), Heartbeat, Add(vec![]), Heartbeat,
    ]));
    // forget on a node that was itself restored from the store, then restart
    scripts.push(("forget-on-restored-node", 1000, vec![
        New(k1), Setup(k1, n.clone()), Add(vec![tid(0, F)]), Restart, Forget(k1), Restart, Heartbeat,
    ]));
    let _ = args;
    for (name, maxc, ops) in scripts.iter() {
        run_script(consts, *maxc, ops, &format!("scripted-{}", name), true, &mut stats);
    }
    // a forgotten id stays forgotten under every policy filter: a stub forgotten at once, a ready
    // channel forgotten, buried and pruned by the heartbeat; then the same and lower dbids (both
    // peers) are asked for again, before and after a restart
    let reuse: Vec<Op> = vec![
        New((0, 2)), Forget((0, 2)), New((0, 2)), New((1, 2)), New((0, 1)), Restart, New((0, 2)), New((1, 1)),
        New((0, 4)), Setup((0, 4), n.clone()), Add(vec![tid(4, F)]), Add(vec![tid(4, M)]), Forget((0, 4)), New((1, 4)), New((0, 3)),
        Burst(md.saturating_sub(1)), Heartbeat, New((0, 4)), New((1, 4)), New((1, 3)), Restart, New((0, 4)), New((0, 1)), New((1, 2)), Heartbeat,
    ];
    for fk in 0..FILTERS.len() {
        run_script_under(consts, 1000, fk, &reuse, &format!("scripted-forgotten-id-asked-again-{}", FILTERS[fk]), true, &mut stats);
    }
    // and the pruning histories themselves under the filters that demote tags
    for (i, (name, maxc, ops)) in scripts.iter().enumerate() {
        let fk = 1 + i % 4;
        if i % 3 == 0 {
            run_script_under(consts, *maxc, fk, ops, &format!("scripted-{}-{}", name, FILTERS[fk]), true, &mut stats);
        }
    }
    emit("CONSTS", json!({"min_depth": consts.min_depth, "channel_stub_prune_blocks": consts.stub_blocks, "regtest_extra": consts.regtest_extra, "repo": repo_dir()}));
    emit("STATS", json!({"domain": "prune-scripted", "stats": stats}));
}

fn random(args: &Args, malformed: bool) {
    let consts = read_consts();
    let mut rng = Rng::new(args.seed ^ if malformed { 0xBAD15 } else { 0xC15 });
    let mut stats = BTreeMap::new();
    let md = consts.min_depth as usize;
    let st = (consts.stub_blocks + consts.regtest_extra) as usize;
    for case in 0..args.n {
        let maxc = if rng.chance(1, 4) { 3 } else { 1000 };
        // half of the cases run under a filter that demotes tags (or looks as if it did)
        let fk = if rng.chance(1, 2) { 0 } else { 1 + rng.below(4) as usize };
        let mut s = Sess::new_with_filter(consts, maxc, fk);
        *stats.entry(format!("filter_{}", FILTERS[fk])).or_default() += 1;
        let len = 14 + rng.below(24) as usize;
        let mut removed_run = 0;
        let mut blocks_budget: usize = if args.tier == "quick" { 330 } else { 700 };
        let dbids: Vec<u64> = if malformed { vec![0, 1, 2, 3, 4, u64::MAX] } else { vec![1, 2, 3, 4] };
        // one case in five starts with a counterparty force close that carries an HTLC offered to
        // us: preimage handed over or not, restart or not, main output swept, HTLC claimed or not
        if rng.chance(1, 5) {
            let k: Key = (rng.below(2), 3);
            let mut pre: Vec<Op> = vec![Op::New(k), Op::Setup(k, SetupKind::Normal)];
            if rng.chance(2, 3) {
                if rng.chance(1, 3) {
                    pre.push(Op::Approve(k));
                }
                pre.push(Op::Fulfill(k, rng.chance(1, 3)));
            }
            if rng.chance(1, 2) {
                pre.push(Op::Restart);
            }
            pre.push(Op::Add(vec![tid(0, F)]));
            if rng.chance(1, 2) {
                pre.push(Op::Add(vec![tid(0, C)]));
                pre.push(Op::Add(vec![tid(0, S)]));
            } else {
                pre.push(Op::Add(vec![tid(0, C), tid(0, S)]));
            }
            match rng.below(4) {
                0 => pre.push(Op::Add(vec![tid(0, H)])),
                1 => pre.push(Op::Add(vec![tid(0, H), tid(0, X)])),
                _ => {}
            }
            if rng.chance(1, 3) {
                pre.push(Op::Restart);
            }
            pre.push(Op::Forget(k));
            let n = *rng.pick(&[md.saturating_sub(1), md, md + 1]);
            blocks_budget = blocks_budget.saturating_sub(n);
            pre.push(Op::Burst(n));
            pre.push(Op::Heartbeat);
            for op in pre.iter() {
                // (a transaction that does not fit - the HTLC claim when the HTLC is not ours - is still a valid block)
                if !s.apply(op) {
                    break;
                }
            }
            s.bump("incoming_htlc_prefix");
        }
        // one case in four starts with a unilateral close whose sweeps are spread over several
        // blocks (our output first), a reorg that removes the later sweep blocks, forget before or
        // after the reorg, and a burst up to the threshold: "swept once, not swept now"
        if s.chans.is_empty() && rng.chance(1, 4) {
            let k: Key = (rng.below(2), *rng.pick(&[2u64, 4u64]));
            let mut pre: Vec<Op> = vec![Op::New(k), Op::Setup(k, SetupKind::Normal), Op::Add(vec![tid(0, F)])];
            let (groups, removes): (Vec<Vec<u64>>, usize) = match rng.below(6) {
                0 => (vec![vec![C], vec![S], vec![H], vec![X]], 1),
                1 => (vec![vec![C, S], vec![H], vec![X]], 1),
                2 => (vec![vec![C], vec![S], vec![H], vec![X]], 2),
                3 => (vec![vec![C], vec![S, H], vec![X]], 1),
                4 => (vec![vec![C], vec![S], vec![H, X]], 1),
                _ => (vec![vec![C], vec![S], vec![], vec![H], vec![X]], 2),
            };
            for gblk in groups {
                pre.push(Op::Add(gblk.iter().map(|t| tid(0, *t)).collect()));
            }
            let forget_first = rng.chance(1, 2);
            if forget_first {
                pre.push(Op::Forget(k));
            }
            // half of the time the signer restarts between the sweeps and the reorg
            if rng.chance(1, 2) {
                pre.push(Op::Restart);
            }
            for _ in 0..removes {
                pre.push(Op::Remove);
            }
            if !forget_first {
                pre.push(Op::Forget(k));
            }
            let n = *rng.pick(&[md.saturating_sub(1), md, md + 1]);
            blocks_budget = blocks_budget.saturating_sub(n);
            pre.push(Op::Burst(n));
            pre.push(Op::Heartbeat);
            let mut ok = true;
            for op in pre.iter() {
                if !s.apply(op) {
                    ok = false;
                    break;
                }
            }
            if ok {
                s.bump("sweep_reorg_prefix");
            }
        }
        for _ in 0..len {
            let known: Vec<Key> = s.last.mem.keys().cloned().collect();
            let any_key = |rng: &mut Rng| -> Key { (rng.below(2), *rng.pick(&dbids)) };
            let pick_key = |rng: &mut Rng| -> Key {
                if !known.is_empty() && rng.chance(4, 5) {
                    *rng.pick(&known)
                } else {
                    any_key(rng)
                }
            };
            let ready: Vec<Key> = s.last.mem.iter().filter(|(_, v)| matches!(v, SlotView::Ready { .. })).map(|(k, _)| *k).collect();
            let op = match rng.below(21) {
                0..=2 => Op::New(any_key(&mut rng)),
                3..=5 => {
                    let k = pick_key(&mut rng);
                    let kind = if rng.chance(1, 6) { SetupKind::Different } else { SetupKind::Normal };
                    if !malformed && !s.last.mem.contains_key(&k) && rng.chance(2, 3) {
                        Op::New(k)
                    } else {
                        Op::Setup(k, kind)
                    }
                }
                6..=7 => Op::Forget(if !ready.is_empty() && rng.chance(1, 2) { *rng.pick(&ready) } else { pick_key(&mut rng) }),
                8..=10 => Op::Heartbeat,
                11..=14 => {
                    // a block with 0-2 transactions; progress of a ready channel preferred
                    let want = *rng.pick(&[0usize, 1, 1, 1, 2]);
                    let mut blk: Vec<u64> = vec![];
                    for _ in 0..want {
                        let all: Vec<u64> = s.txs.keys().cloned().collect();
                        let mut cands: Vec<u64> = all.iter().cloned().filter(|t| s.fits(&blk, *t)).collect();
                        if malformed && rng.chance(1, 3) {
                            let present: Vec<u64> = s.stack.iter().flat_map(|e| e.2.iter().cloned()).collect();
                            cands = all.iter().cloned().filter(|t| !present.contains(t) && !blk.contains(t)).collect();
                        }
                        let live: Vec<u64> = cands.iter().cloned().filter(|t| ready.iter().any(|k| s.chans[k].idx + 1 == *t / 1000)).collect();
                        if cands.is_empty() {
                            break;
                        }
                        let t = if !live.is_empty() && rng.chance(4, 5) {
                            // half of the time the furthest step of a closing sequence that fits
                            if rng.chance(1, 2) { *live.iter().max_by_key(|t| (*t % 1000, *t / 1000)).unwrap() } else { *rng.pick(&live) }
                        } else {
                            *rng.pick(&cands)
                        };
                        blk.push(t);
                    }
                    Op::Add(blk)
                }
                15..=16 => {
                    // steer to a threshold: the depth a buried event needs, or the stub age
                    let mut targets: Vec<usize> = vec![1, 2, 5];
                    for k in ready.iter() {
                        if let Some((i, _)) = s.event_index(*k) {
                            let depth = s.stack.len() - i;
                            for goal in [md - 1, md, md, md + 1] {
                                if goal > depth {
                                    for _ in 0..3 {
                                        targets.push(goal - depth);
                                    }
                                }
                            }
                        }
                    }
                    for (_, v) in s.last.mem.iter() {
                        if let SlotView::Stub(c) = v {
                            let age = (s.last.height as usize).saturating_sub(*c as usize);
                            for goal in [st, st + 1] {
                                if goal > age {
                                    targets.push(goal - age);
                                }
                            }
                        }
                    }
                    let n = *rng.pick(&targets);
                    if n > blocks_budget {
                        Op::Heartbeat
                    } else {
                        blocks_budget -= n;
                        Op::Burst(n)
                    }
                }
                17..=18 => {
                    if !s.stack.is_empty() && removed_run < 4 {
                        Op::Remove
                    } else {
                        Op::Heartbeat
                    }
                }
                _ => {
                    let inc: Vec<Key> = ready.iter().cloned().filter(|k| s.chans[k].incoming && !s.frozen.contains_key(k) && !s.given.contains(k)).collect();
                    if !inc.is_empty() && rng.chance(1, 2) {
                        let k = *rng.pick(&inc);
                        if !s.approved.contains(&k) && rng.chance(1, 3) { Op::Approve(k) } else { Op::Fulfill(k, rng.chance(1, 3)) }
                    } else {
                        Op::Restart
                    }
                }
            };
            if matches!(op, Op::Remove) {
                removed_run += 1;
            } else {
                removed_run = 0;
            }
            if !s.apply(&op) {
                break;
            }
        }
        // always end with a heartbeat and a restart, so that every case exercises pruning and the store
        if !s.aborted && !s.rejected {
            let _ = s.apply(&Op::Heartbeat) && s.apply(&Op::Restart) && s.apply(&Op::Heartbeat);
        }
        s.finish(if malformed { "random-malformed" } else { "random" }, !malformed, &mut stats);
        let _ = case;
    }
    emit("CONSTS", json!({"min_depth": consts.min_depth, "channel_stub_prune_blocks": consts.stub_blocks, "regtest_extra": consts.regtest_extra, "repo": repo_dir()}));
    emit("STATS", json!({"domain": if malformed { "prune-malformed" } else { "prune-random" }, "stats": stats}));
}

/// Not called by the registered run (the same two histories are in `scripted` now).  The history
/// that showed the defect repaired by "persist the node entry when htlcs_fulfilled records a preimage": the preimage is handed over through htlcs_fulfilled + a commitment request and NO later
/// request writes the node entry; restart; counterparty force close with the HTLC pending; only
/// the main output swept; forget; MIN_DEPTH blocks; heartbeat.
fn probe(args: &Args) {
    let consts = read_consts();
    let md = consts.min_depth as usize;
    let mut stats = BTreeMap::new();
    use Op::*;
    let i3: Key = (0, 3);
    let n = SetupKind::Normal;
    for (name, write) in [("probe-preimage-without-node-entry-write", false), ("probe-preimage-with-node-entry-write", true)] {
        let mut s = Sess::new(consts, 1000);
        let ops = vec![
            New(i3), Setup(i3, n.clone()), Fulfill(i3, write), Restart, Add(vec![tid(0, F)]), Add(vec![tid(0, C)]), Add(vec![tid(0, S)]), Forget(i3),
            Burst(md), Heartbeat, Restart, Heartbeat,
        ];
        for op in ops.iter() {
            if !s.apply(op) {
                break;
            }
        }
        s.finish(name, true, &mut stats);
    }
    let _ = args;
    emit("STATS", json!({"domain": "prune-probe", "stats": stats}));
}

fn main() {
    std::panic::set_hook(Box::new(|info| {
        let loc = info.location().map(|l| format!("{}:{}", l.file(), l.line())).unwrap_or_default();
        let msg = info
            .payload()
            .downcast_ref::<&str>()
            .map(|s| s.to_string())
            .or_else(|| info.payload().downcast_ref::<String>().cloned())
            .unwrap_or_default();
        eprintln!("panic at {}: {}", loc, msg);
    }));
    let argv: Vec<String> = std::env::args().skip(1).collect();
    let sub = argv.get(0).cloned().unwrap_or_default();
    let args = parse_args(&argv[1.min(argv.len())..]);
    match sub.as_str() {
        "scripted" => scripted(&args),
        "random" => random(&args, false),
        "malformed" => random(&args, true),
        "probe" => probe(&args),
        _ => {
            eprintln!("usage: prune scripted|random|malformed --seed S --n N --tier T");
            std::process::exit(2);
        }
    }
}
