#!/usr/bin/env python3
"""Driver: verif.py setup | check <ID> [--tier quick|thorough]"""
import importlib, os, sys, time
sys.path.insert(0, os.path.dirname(os.path.abspath(__file__)))
import lib


def main():
    if len(sys.argv) < 2:
        print(__doc__)
        return 2
    cmd = sys.argv[1]
    if cmd == "setup":
        import glob
        for f in sorted(glob.glob(os.path.join(lib.ROOT, "harness", "src", "bin", "*.rs"))):
            lib.build_harness(os.path.basename(f)[:-3], "debug")
        # build everything that builds; a theorem file that no longer checks is reported by its own
        # property check (VIOLATION ... no-failing-input-found), it must not stop the setup
        ok, out = lib.build_coq(keep_going=True)
        if not ok:
            print(out[-3000:])
        return 0
    if cmd == "check":
        pid = sys.argv[2]
        tier = os.environ.get("VERIF_TIER", "quick")
        if "--tier" in sys.argv:
            tier = sys.argv[sys.argv.index("--tier") + 1]
        seed = int(os.environ.get("VERIF_SEED", "1"))
        mod = importlib.import_module("props." + pid.lower())
        res = lib.Result(pid, tier, seed)
        try:
            mod.run(res)
        except lib.Fail as e:
            res.violation("check machinery could not complete: " + str(e)[:3000], {"error": str(e)[-3000:]},
                          has_input=False)
        return res.finish()
    if cmd == "replay":
        import json, subprocess
        r = json.load(open(sys.argv[2]))
        print(json.dumps(r, indent=1)[:20000])
        base = os.path.basename(sys.argv[2])[:-5].split("-")
        env = dict(os.environ, VERIF_SEED=base[2], VERIF_TIER=base[1])
        return subprocess.call([sys.executable, os.path.abspath(__file__), "check", r["property"], "--tier", base[1]], env=env)
    print(__doc__)
    return 2


if __name__ == "__main__":
    sys.exit(main())
