"""Shared machinery for the /verif checks: building the Rust harness against /repo's current
working tree, building and auditing the Coq development, evaluating generated case files
with vm_compute, evidence and verdict output."""
import fcntl, hashlib, json, os, re, subprocess, sys, time, glob, shutil
from concurrent.futures import ThreadPoolExecutor

ROOT = os.path.dirname(os.path.dirname(os.path.abspath(__file__)))
REPO = os.environ.get("VERIF_REPO", "/repo")
CACHE = os.path.join(ROOT, ".cache")
COQ = os.path.join(ROOT, "coq")
# a run against another copy of the repository (VERIF_REPO) keeps its evidence and replays apart, so
# that evidence/ always describes the registered target
_ALT = os.environ.get("VERIF_REPO", "/repo") != "/repo"
OUT = os.environ.get("VERIF_OUT", os.path.join(ROOT, "out", "alt") if _ALT else os.path.join(ROOT, "out"))
EVID = os.environ.get("VERIF_EVIDENCE", os.path.join(ROOT, "out", "alt", "evidence") if _ALT else os.path.join(ROOT, "evidence"))
GUARD_CFG = "vls_verif"
NCPU = os.cpu_count() or 4
COQC_TIMEOUT = int(os.environ.get("VERIF_COQC_TIMEOUT", "1200"))

FORBIDDEN = re.compile(
    r"\b(Admitted|admit|Axiom|Axioms|Parameter|Parameters|Conjecture|Conjectures)\b"
    r"|Admit Obligations|Unset Guard Checking|Unset Positivity Checking|Unset Universe Checking"
    r"|bypass_check|type-in-type|impredicative-set|native_compute")

# axioms of the standard library that a theorem may depend on; anything else fails the audit
ALLOWED_AXIOMS = set()


TB = ("Trusted: Coq 8.16.1 kernel and vm_compute (no native_compute); no axioms (Print Assumptions: closed under "
      "the global context); the hand-written Gallina model is tied to /repo by a differential correspondence check on "
      "every run (generator-bounded); Rust harness and tools/lib.py (canonicalisation, diffing). ")


class Fail(Exception):
    pass


def log(*a):
    print(*a, file=sys.stderr, flush=True)


def sh(cmd, timeout=3600, env=None, cwd=None, check=False):
    e = dict(os.environ)
    if env:
        e.update(env)
    p = subprocess.run(cmd, shell=isinstance(cmd, str), cwd=cwd, env=e, timeout=timeout,
                       stdout=subprocess.PIPE, stderr=subprocess.STDOUT, text=True, errors="replace")
    if check and p.returncode != 0:
        raise Fail("command failed (%d): %s\n%s" % (p.returncode, cmd, p.stdout[-4000:]))
    return p.returncode, p.stdout


class Lock:
    def __init__(self, name):
        os.makedirs(CACHE, exist_ok=True)
        self.path = os.path.join(CACHE, name + ".lock")

    def __enter__(self):
        self.f = open(self.path, "w")
        fcntl.flock(self.f, fcntl.LOCK_EX)
        return self

    def __exit__(self, *a):
        fcntl.flock(self.f, fcntl.LOCK_UN)
        self.f.close()


# ---------------------------------------------------------------- Rust harness

def _repo_tag():
    return "default" if REPO == "/repo" else hashlib.sha1(REPO.encode()).hexdigest()[:10]


def harness_dir():
    """A build directory for the harness crate whose path dependencies point at REPO (default /repo;
    VERIF_REPO=<worktree> runs every check against another copy of the repository)."""
    d = os.path.join(CACHE, "harness-" + _repo_tag())
    os.makedirs(os.path.join(d, ".cargo"), exist_ok=True)
    tmpl = open(os.path.join(ROOT, "harness", "Cargo.toml.in")).read().replace("@REPO@", REPO)
    ct = os.path.join(d, "Cargo.toml")
    if not os.path.exists(ct) or open(ct).read() != tmpl:
        open(ct, "w").write(tmpl)
    cfg = '[net]\noffline = true\n[env]\nVERIF_REPO = "%s"\n' % REPO
    cf = os.path.join(d, ".cargo", "config.toml")
    if not os.path.exists(cf) or open(cf).read() != cfg:
        open(cf, "w").write(cfg)
    src = os.path.join(d, "src")
    if os.environ.get("VERIF_HARNESS_SNAPSHOT") and _repo_tag() != "default":
        # a run against another copy of the repository may freeze the harness source it started with
        # (so that edits under way in harness/src do not leak into it)
        if not os.path.isdir(src) or os.path.islink(src):
            if os.path.islink(src):
                os.remove(src)
            shutil.copytree(os.path.join(ROOT, "harness", "src"), src)
        # files written by the translators of this very run are always taken over
        g = os.path.join(ROOT, "harness", "src", "gen")
        if os.path.isdir(g):
            os.makedirs(os.path.join(src, "gen"), exist_ok=True)
            for f in os.listdir(g):
                shutil.copy(os.path.join(g, f), os.path.join(src, "gen", f))
    elif not os.path.islink(src):
        os.symlink(os.path.join(ROOT, "harness", "src"), src)
    return d


def _bin_features(bin):
    """features named by `required-features` of the [[bin]] entry of `bin` in Cargo.toml.in (binaries
    without an entry are auto-discovered and need none)"""
    txt = open(os.path.join(ROOT, "harness", "Cargo.toml.in")).read()
    for blk in re.findall(r"\[\[bin\]\](.*?)(?=\n\[|\Z)", txt, flags=re.S):
        if re.search(r'name\s*=\s*"%s"' % re.escape(bin), blk):
            m = re.search(r"required-features\s*=\s*\[(.*?)\]", blk, flags=re.S)
            return re.findall(r'"([^"]+)"', m.group(1)) if m else []
    return []


def build_harness(bin, profile="debug"):
    """(Re)build harness binary `bin` against REPO's current working tree (cargo is incremental over
    the path dependencies, so an edited source file is always recompiled)."""
    with Lock("cargo-" + _repo_tag()):
        hdir = harness_dir()
        target = os.path.join(CACHE, "target-" + _repo_tag())
        if _repo_tag() != "default" and not os.path.exists(target):
            # a run against another copy of the repository starts from the third-party
            # artefacts already built for /repo (the copy's own crates are rebuilt: their paths differ)
            base = os.path.join(CACHE, "target-default")
            if os.path.isdir(base):
                with Lock("cargo-default"):
                    sh(["cp", "-a", "--reflink=auto", base, target], timeout=600)
        lock = os.path.join(hdir, "Cargo.lock")
        src = os.path.join(REPO, "Cargo.lock")
        if not os.path.exists(lock):
            shutil.copy(src, lock)
        env = {"CARGO_TARGET_DIR": target, "CARGO_NET_OFFLINE": "true", "VERIF_REPO": REPO,
               "RUSTFLAGS": "--cfg %s -Awarnings" % GUARD_CFG}
        cmd = ["cargo", "build", "--offline", "-q", "--bin", bin] + (["--release"] if profile == "release" else [])
        feats = _bin_features(bin)
        if feats:
            cmd += ["--features", ",".join(feats)]
        t = time.time()
        rc, out = sh(cmd, cwd=hdir, env=env, timeout=3000)
        if rc != 0 and "Cargo.lock" in out:
            shutil.copy(src, lock)
            rc, out = sh(cmd, cwd=hdir, env=env, timeout=3000)
        if rc != 0:
            raise Fail("harness build failed against the current %s tree:\n%s" % (REPO, out[-6000:]))
        log("[harness %s (%s) built in %.1fs]" % (bin, profile, time.time() - t))
    return os.path.join(target, profile, bin)


def run_harness(bin, sub, seed, n, tier="quick", extra=(), profile="debug", timeout=1800):
    """Build harness binary `bin` against the current /repo tree and run its sub-domain `sub`;
    returns {kind: [json records]} from the @@KIND lines it prints."""
    exe = build_harness(bin, profile)
    cmd = [exe, sub, "--seed", str(seed), "--n", str(n), "--tier", tier] + list(extra)
    p = subprocess.run(cmd, stdout=subprocess.PIPE, stderr=subprocess.PIPE, text=True,
                       errors="replace", timeout=timeout,
                       env=dict(os.environ, RUST_BACKTRACE="1", RUST_LOG="off"))
    recs = {}
    for line in p.stdout.splitlines():
        if line.startswith("@@"):
            kind, _, js = line[2:].partition(" ")
            recs.setdefault(kind, []).append(json.loads(js))
    if p.returncode != 0:
        err = p.stderr[-4000:]
        if not err.strip():
            # the domains silence the panic hook (refusals by panic are caught and counted); when a panic ends the
            # harness itself - e.g. the code under test left a poisoned lock behind - run once more with the
            # messages on, so that the report names where the implementation panicked
            try:
                q = subprocess.run(cmd, stdout=subprocess.DEVNULL, stderr=subprocess.PIPE, text=True, errors="replace",
                                   timeout=timeout, env=dict(os.environ, RUST_BACKTRACE="0", RUST_LOG="off",
                                                             VERIF_LOUD="1", VERIF_PANICS="1"))
                msgs = [l for l in q.stderr.splitlines() if "panicked at" in l]
                err = "panics of the run, in order (the last one ended the harness):\n" + "\n".join(msgs[-12:])
            except Exception as e:      # diagnosis only
                err = "(no panic message could be collected: %s)" % e
        raise Fail("harness %s %s exited with %d:\n%s" % (bin, sub, p.returncode, err))
    return recs


# ---------------------------------------------------------------- Coq

def coq_files():
    fs = sorted(glob.glob(os.path.join(COQ, "theories", "**", "*.v"), recursive=True))
    return [os.path.relpath(f, COQ) for f in fs]


# Gen/<name>.v -> the entry point of tools/gen_rustfn.py that writes it from the repository's source.  (Gen/WireGen.v
# and Gen/LockProgs.v have one importer each - Props/C19.v, Props/C20.v - whose own hook writes them.)
GENERATED_BY = {
    "VelocityGen": "generate_velocity", "PaymentsGen": "generate_payments", "EnforcementGen": "generate_enforcement",
    "MonitorGen": "generate_monitor", "TxUtilGen": "generate_txutil", "CommitmentPolicyGen": "generate_commitment_policy",
    "EnforcementRulesGen": "generate_enforcement_rules", "SweepGen": "generate_sweep",
    "MutualCloseGen": "generate_mutual_close", "OnchainGen": "generate_onchain",
    "NodePaymentsGen": "generate_node_payments", "PaymentSummariesGen": "generate_payment_summaries",
    "KvvGen": "generate_kvv",
}
_REQ = re.compile(r"\bRequire\s+(?:Import\s+|Export\s+)?([\w.\s']+?)\.(?:\s|$)")


def generated_deps(targets):
    """Names of the Gen/*.v files that the given .vo targets (all files when None) import, directly or through other
    files of the development (read from the Require lines; a superset is harmless)."""
    by_mod = {}
    for f in coq_files():
        by_mod[f[len("theories/"):-2].replace("/", ".")] = f
    todo = [t[:-1] for t in targets] if targets else list(by_mod.values())
    seen, gens = set(), set()
    while todo:
        f = todo.pop()
        if f in seen or not os.path.exists(os.path.join(COQ, f)):
            continue
        seen.add(f)
        txt = open(os.path.join(COQ, f)).read()
        for m in _REQ.finditer(txt):
            for w in m.group(1).split():
                w = w[4:] if w.startswith("VLS.") else w
                if w in by_mod:
                    todo.append(by_mod[w])
                    if w.startswith("Gen."):
                        gens.add(w[4:])
    return sorted(gens)


def regenerate_deps(targets):
    """Every generated model file the targets rest on is written again from REPO's source (only when its text changes), so
    that what is compiled is what the source says on this run whatever an earlier run, another check or the committed
    copy left in coq/theories/Gen.  Returns the error texts of translators that could not read their source; the file of
    such a translator is replaced by one that does not compile, so that nothing is proved against a stale translation."""
    sys.path.insert(0, os.path.dirname(os.path.abspath(__file__)))
    import gen_rustfn
    errors = []
    for g in generated_deps(targets):
        fn = GENERATED_BY.get(g)
        if fn is None:
            continue
        try:
            getattr(gen_rustfn, fn)(REPO)
        except gen_rustfn.GenError as e:
            errors.append("tools/gen_rustfn.py %s cannot translate the source behind Gen/%s.v: %s" % (fn, g, e))
            open(os.path.join(COQ, "theories", "Gen", g + ".v"), "w").write(
                "(** NOT GENERATED: tools/gen_rustfn.py %s could not read the source on this run. *)\n"
                "Definition translation_failed : True := 0.\n" % fn)
    return errors


def build_coq(targets=None, timeout=3000, pre=None, keep_going=False):
    """Full .vo build (no -vos) of the requested targets and everything they depend on.
    `pre`: optional callable run under the same lock before the build (a translator that
    regenerates a .v file, e.g. tools/gen_wire.py for C19).  After it, every other generated file the targets
    import is regenerated from REPO as well (regenerate_deps)."""
    with Lock("coq"):
        if pre is not None:
            pre()
        gen_errors = regenerate_deps(targets)
        if gen_errors and not keep_going:
            log("[coq build %s: translator failed]" % " ".join(targets or ["all"]))
            return False, "\n".join(gen_errors)
        files = coq_files()
        listing = "\n".join(files)
        stamp = os.path.join(COQ, ".files")
        if not os.path.exists(os.path.join(COQ, "Makefile")) or not os.path.exists(stamp) \
                or open(stamp).read() != listing:
            sh(["coq_makefile", "-f", "_CoqProject"] + files + ["-o", "Makefile"], cwd=COQ, check=True)
            open(stamp, "w").write(listing)
        tg = targets or []
        t = time.time()
        # every coqc invocation is bounded, so that one diverging tactic cannot hold the build lock
        rc, out = sh(["make", "-j%d" % NCPU, "COQC=timeout %d coqc" % COQC_TIMEOUT] + (["-k"] if keep_going else []) + tg,
                     cwd=COQ, timeout=timeout)
        log("[coq build %s: rc=%d in %.1fs]" % (" ".join(tg) or "all", rc, time.time() - t))
        return rc == 0, out


def source_audit():
    """No Admitted / admit / Axiom / Parameter / Conjecture / kernel switches anywhere."""
    bad = []
    for f in coq_files():
        txt = open(os.path.join(COQ, f)).read()
        # strip comments (non-nested is enough for our sources; nested handled by loop)
        prev = None
        while prev != txt:
            prev = txt
            txt = re.sub(r"\(\*[^()]*?\*\)", "", txt, flags=re.S)
            txt = re.sub(r"\(\*(?:(?!\(\*).)*?\*\)", "", txt, flags=re.S)
        for i, line in enumerate(txt.splitlines(), 1):
            if FORBIDDEN.search(line):
                bad.append("%s: %s" % (f, line.strip()))
    return bad


def coqc_snippet(text, name, timeout=900):
    d = os.path.join(CACHE, "snip")
    os.makedirs(d, exist_ok=True)
    path = os.path.join(d, name + ".v")
    open(path, "w").write(text)
    rc, out = sh(["coqc", "-noglob", "-Q", os.path.join(COQ, "theories"), "VLS",
                  "-w", "-all", path], cwd=d, timeout=timeout)
    return rc, out


def assumptions(module, theorems):
    """Print Assumptions for each named theorem of VLS.<module>; returns {thm: [axioms]}."""
    body = "From VLS Require Import %s.\n" % module
    for t in theorems:
        body += 'Goal True. idtac "@@THM %s". exact I. Qed.\nPrint Assumptions %s.\n' % (t, t)
    rc, out = coqc_snippet(body, "audit_" + module.replace(".", "_"))
    if rc != 0:
        raise Fail("audit of %s failed:\n%s" % (module, out[-3000:]))
    res = {}
    cur = None
    for line in out.splitlines():
        if line.startswith("@@THM "):
            cur = line[6:].strip()
            res[cur] = []
        elif cur is not None:
            s = line.strip()
            if not s or s.startswith("Closed under the global context") or s.startswith("Axioms:"):
                continue
            m = re.match(r"^([A-Za-z_][\w.']*)\s*:", s)
            if m:
                res[cur].append(m.group(1))
    return res


def extra_props_stage(res, props_file, pinned):
    """A second statement file whose theorems a check also rests on (e.g. Props/Joint.v: the
    component theorems restated over joint histories).  Built, audited and counted like the
    property's own file; its theorems are appended to the coverage."""
    ok, out = build_coq(["theories/Props/%s.vo" % props_file[:-2]])
    cov = res.coverage
    thms = theorem_names(props_file)
    cov["obligations"] = cov.get("obligations", 0) + len(thms)
    if not ok:
        res.violation("Coq build of Props/%s failed: a proof obligation no longer checks" % props_file,
                      {"theorem_file": "coq/theories/Props/" + props_file, "log": out[-3000:]}, has_input=False)
        return False
    missing = [t for t in pinned if t not in thms]
    if missing:
        res.violation("pinned theorems missing", {"missing": missing, "file": props_file}, has_input=False)
        return False
    ass = assumptions("Props." + props_file[:-2], thms)
    foreign = sorted({a for v in ass.values() for a in v if a not in ALLOWED_AXIOMS})
    if foreign:
        res.violation("theorems depend on axioms outside the allowlist", {"axioms": foreign, "file": props_file}, has_input=False)
        return False
    cov["theorems"] = cov.get("theorems", []) + thms
    cov["discharged"] = cov.get("discharged", 0) + len(thms)
    if res.tier == "thorough":
        with Lock("coq"):
            rc, out = sh(["coqchk", "-o", "-silent", "-Q", "theories", "VLS", "VLS.Props." + props_file[:-2]],
                         cwd=COQ, timeout=3000)
        if rc != 0 or "Axioms: <none>" not in out.replace("* Axioms:", "Axioms:"):
            summary = out[out.find("CONTEXT SUMMARY"):] if "CONTEXT SUMMARY" in out else out[-1500:]
            res.violation("coqchk does not confirm Props/%s (independent checker): %s" % (props_file, summary[-800:]),
                          {"theorem_file": "coq/theories/Props/" + props_file}, has_input=False)
            return False
        cov.setdefault("coqchk_extra", []).append("coqchk -o -silent VLS.Props." + props_file[:-2] + ": rc=0, Axioms: <none>")
    return True


def aux_props_stage(res, props_file, pinned):
    """Auxiliary theorems next to a property (Props/<Cxx>Aux.v): behaviour of the same code that the
    property's statement does not cover (e.g. the CLTV-delta rule inside NodeState::validate_payments).
    They are built and audited like every other theorem, but they do NOT decide the property: when one
    no longer checks, the evidence says so under coverage.auxiliary and no alarm is raised, because
    the property can still hold on such a tree."""
    aux = {"file": "coq/theories/Props/" + props_file, "pinned": pinned}
    res.coverage.setdefault("auxiliary", []).append(aux)
    ok, out = build_coq(["theories/Props/%s.vo" % props_file[:-2]])
    if not ok:
        aux["checked"] = False
        aux["log"] = out[-1500:]
        log("[auxiliary theorems of %s no longer check - not part of the property, no alarm]" % props_file)
        return False
    thms = theorem_names(props_file)
    ass = assumptions("Props." + props_file[:-2], thms)
    foreign = sorted({a for v in ass.values() for a in v if a not in ALLOWED_AXIOMS})
    aux["checked"] = not foreign and all(t in thms for t in pinned)
    aux["theorems"] = thms
    aux["foreign_axioms"] = foreign
    if res.tier == "thorough":
        # the independent checker on the auxiliary file too (recorded, never an alarm)
        with Lock("coq"):
            rc, out = sh(["coqchk", "-o", "-silent", "-Q", "theories", "VLS", "VLS.Props." + props_file[:-2]],
                         cwd=COQ, timeout=3000)
        aux["coqchk_axioms_none"] = rc == 0 and "Axioms: <none>" in out.replace("* Axioms:", "Axioms:")
        aux["checked"] = aux["checked"] and aux["coqchk_axioms_none"]
    return aux["checked"]


def theorem_names(props_file):
    txt = open(os.path.join(COQ, "theories", "Props", props_file)).read()
    return re.findall(r"^(?:Theorem|Example|Corollary|Lemma)\s+([\w']+)", txt, flags=re.M)


def parse_list_N(out):
    """Parse the answer of `Eval vm_compute in (... : list N)`."""
    m = re.search(r"=\s*(\[.*?\])\s*(?:%N|%list)?\s*:\s*list N", out, flags=re.S)
    if not m:
        raise Fail("could not parse Coq answer:\n" + out[-2000:])
    inner = m.group(1).strip()[1:-1]
    inner = re.sub(r"%N|\s", "", inner)
    return [int(x) for x in inner.split(";") if x]


_BUILT = set()


def _ensure_built(imports):
    """The modules a case file imports are brought up to date first (a theorem file need not depend on
    the executable check module, so building Props/Cxx.vo alone can leave it stale)."""
    want = [("theories/%s.vo" % i.replace(".", "/")) for i in imports
            if os.path.exists(os.path.join(COQ, "theories", i.replace(".", "/") + ".v"))]
    want = [w for w in want if w not in _BUILT]
    if want:
        ok, out = build_coq(want)
        if not ok:
            raise Fail("the executable model does not build:\n" + out[-3000:])
        _BUILT.update(want)


def coq_failures(imports, case_type, checker, terms, name, shards=None, timeout=1500):
    """Evaluate `checker` on every case term inside Coq (vm_compute); returns failing indices."""
    if not terms:
        return []
    _ensure_built(imports)
    shards = shards or min(NCPU, max(1, len(terms) // 20))
    size = (len(terms) + shards - 1) // shards
    chunks = [(i, terms[i:i + size]) for i in range(0, len(terms), size)]

    def one(arg):
        k, (base, ts) = arg
        body = "From VLS Require Import %s.\n" % " ".join(imports)
        body += "Definition cases : list (%s) := [\n%s\n]%%list.\n" % (case_type, ";\n".join(ts))
        body += "Eval vm_compute in (failures %s cases).\n" % checker
        rc, out = coqc_snippet(body, "%s_%d" % (name, k), timeout=timeout)
        if rc != 0:
            raise Fail("case file %s_%d did not compile:\n%s" % (name, k, out[-3000:]))
        return [base + i for i in parse_list_N(out)]

    with ThreadPoolExecutor(max_workers=NCPU) as ex:
        res = list(ex.map(one, enumerate(chunks)))
    return sorted(x for r in res for x in r)


def coq_eval(imports, term, name, timeout=600):
    _ensure_built(imports)
    body = "From VLS Require Import %s.\nEval vm_compute in (%s).\n" % (" ".join(imports), term)
    rc, out = coqc_snippet(body, name, timeout=timeout)
    return out.strip()


# ---------------------------------------------------------------- verdicts and evidence

def known_findings(pid):
    p = os.path.join(ROOT, "KNOWN_FINDINGS.json")
    if not os.path.exists(p):
        return []
    data = json.load(open(p))
    return [f for f in data.get("findings", []) if f["property"] == pid and f.get("status") == "known"]


class Result:
    def __init__(self, pid, tier, seed):
        self.pid, self.tier, self.seed = pid, tier, seed
        self.t0 = time.time()
        self.violations = []   # (replay_obj, has_input)
        self.known = []
        self.coverage = {}
        self.assumptions = []
        self.level = "proof"

    def violation(self, what, replay, has_input=True):
        self.violations.append((what, replay, has_input))

    def finish(self):
        os.makedirs(EVID, exist_ok=True)
        os.makedirs(os.path.join(OUT, "replays"), exist_ok=True)
        for k in self.known:
            print("KNOWN-FINDING: property=%s %s" % (self.pid, k))
        rc = 0
        for i, (what, replay, has_input) in enumerate(self.violations):
            path = os.path.join(OUT, "replays", "%s-%s-%d-%d.json" % (self.pid, self.tier, self.seed, i))
            json.dump({"property": self.pid, "what": what, "replay": replay,
                       "failing_input_found": has_input}, open(path, "w"), indent=1)
            print("VIOLATION property=%s replay=%s%s" % (self.pid, path,
                  "" if has_input else " no-failing-input-found"))
            rc = 1
        ev = {"property_id": self.pid, "tier": self.tier, "seed": self.seed, "level": self.level,
              "coverage": self.coverage, "assumptions": self.assumptions,
              "wall_s": round(time.time() - self.t0, 2), "violations": len(self.violations)}
        json.dump(ev, open(os.path.join(EVID, self.pid + ".json"), "w"), indent=1)
        sys.stdout.flush()
        return rc


def proof_stage(res, props_file, module, pinned, pre=None):
    """Build Props/<file>.vo from scratch dependencies, audit sources and assumptions.
    `pinned`: theorem names that must exist.  Fills the proof part of the coverage.
    `pre`: optional translator run under the build lock right before the build (so that the
    generated file the theorems are checked against is the one of this run)."""
    ok, out = build_coq(["theories/Props/%s.vo" % props_file[:-2]], pre=pre)
    thms = theorem_names(props_file)
    bad = source_audit()
    cov = res.coverage
    cov["checker_cmd"] = "coq_makefile -f _CoqProject; make theories/Props/%s.vo (coqc 8.16.1, full .vo build); Print Assumptions per theorem" % props_file[:-2]
    cov["trusted_base"] = ["Coq 8.16.1 kernel incl. vm_compute (no native_compute)",
                           "hand-written Gallina model tied to /repo by the correspondence check of this run",
                           "Rust harness + tools/lib.py (canonicalisation, diffing)"]
    cov["obligations"] = len(thms)
    if not ok:
        cov["discharged"] = 0
        res.violation("Coq build of Props/%s failed: a proof obligation no longer checks" % props_file,
                      {"theorem_file": "coq/theories/Props/" + props_file, "log": out[-3000:]}, has_input=False)
        return False
    if bad:
        cov["discharged"] = 0
        res.violation("forbidden construct in the Coq development", {"lines": bad}, has_input=False)
        return False
    missing = [t for t in pinned if t not in thms]
    if missing:
        cov["discharged"] = 0
        res.violation("pinned theorems missing", {"missing": missing}, has_input=False)
        return False
    ass = assumptions("Props." + props_file[:-2], thms)
    axioms = sorted({a for v in ass.values() for a in v})
    foreign = [a for a in axioms if a not in ALLOWED_AXIOMS]
    cov["axioms"] = axioms
    cov["theorems"] = thms
    if foreign:
        cov["discharged"] = 0
        res.violation("theorems depend on axioms outside the allowlist", {"axioms": foreign}, has_input=False)
        return False
    cov["discharged"] = len(thms)
    if res.tier == "thorough":
        # independent re-check of the compiled theorem file and everything it depends on
        with Lock("coq"):
            rc, out = sh(["coqchk", "-o", "-silent", "-Q", "theories", "VLS", "VLS.Props." + props_file[:-2]],
                         cwd=COQ, timeout=3000)
        summary = out[out.find("CONTEXT SUMMARY"):] if "CONTEXT SUMMARY" in out else out[-1500:]
        m = re.search(r"\* Axioms:(.*?)\n\s*\n\* Constants/Inductives relying on type-in-type:(.*?)\n\s*\n"
                      r"\* Constants/Inductives relying on unsafe \(co\)fixpoints:(.*?)\n\s*\n"
                      r"\* Inductives whose positivity is assumed:(.*?)\n", summary, re.S)
        fields = [x.strip() for x in m.groups()] if m else None
        cov["coqchk"] = {"cmd": "coqchk -o -silent -Q theories VLS VLS.Props." + props_file[:-2], "rc": rc,
                         "axioms": fields[0] if fields else None, "type_in_type": fields[1] if fields else None,
                         "unsafe_fixpoints": fields[2] if fields else None, "assumed_positivity": fields[3] if fields else None}
        if rc != 0 or not fields or any(f != "<none>" for f in fields):
            res.violation("coqchk does not confirm Props/%s (independent checker): %s" % (props_file, summary[-800:]),
                          {"theorem_file": "coq/theories/Props/" + props_file, "coqchk": summary[-2000:]}, has_input=False)
            return False
    return True
