#!/usr/bin/env python3
"""Confirm a seeded change in its scratch worktree and file it under /verif/seeded/<name>/.

usage: seed_confirm.py <name> <property> <worktree> <demo cmd> <suite cmd> [<needs text>]

The worktree holds _seed/patch.diff (the change) and _seed/demo.diff (a demonstration only).
Confirmed here, not taken from whoever wrote the change:
  1. both diffs apply to the worktree's HEAD on their own;
  2. demo only             -> demo command passes;
  3. change only           -> suite command (the existing tests of the touched crates) passes;
  4. change + demo         -> demo command fails.
Only then is seeded/<name>/{patch.diff,demo.diff,README.md,meta.json} written.
"""
import json, os, subprocess, sys, shutil, time

def sh(cmd, cwd):
    env = dict(os.environ, CARGO_NET_OFFLINE="true")
    p = subprocess.run(cmd, shell=True, cwd=cwd, env=env, stdout=subprocess.PIPE, stderr=subprocess.STDOUT, text=True)
    return p.returncode, p.stdout

def main():
    name, prop, wt, demo, suite = sys.argv[1:6]
    needs = sys.argv[6] if len(sys.argv) > 6 else ""
    seed = os.path.join(wt, "_seed")
    log = []
    def step(what, cmd, want_ok):
        t = time.time()
        rc, out = sh(cmd, wt)
        ok = (rc == 0) == want_ok
        tail = [l for l in out.splitlines() if l.startswith("test result") or "FAILED" in l or "panicked" in l][-6:]
        log.append({"step": what, "cmd": cmd, "rc": rc, "as_expected": ok, "seconds": round(time.time() - t), "tail": tail})
        print("[%s] rc=%d %s (%ds)" % (what, rc, "as expected" if ok else "NOT AS EXPECTED", time.time() - t), flush=True)
        for l in tail:
            print("    " + l)
        return ok
    def reset():
        sh("git checkout -q -- . && git clean -fdq -e _seed -e target", wt)
    ok = True
    reset()
    ok &= step("patch applies", "git apply --check _seed/patch.diff", True)
    ok &= step("demo applies", "git apply --check _seed/demo.diff", True)
    sh("git apply _seed/demo.diff", wt)
    ok &= step("demo without the change passes", demo, True)
    reset()
    sh("git apply _seed/patch.diff", wt)
    ok &= step("existing tests with the change pass", suite, True)
    sh("git apply _seed/demo.diff", wt)
    ok &= step("demo with the change fails", demo, False)
    reset()
    head = sh("git rev-parse --short HEAD", wt)[1].strip()
    meta = {
        "property": prop,
        "name": name,
        "base_commit": head,
        "needs_to_manifest": needs,
        "confirmed": ok,
        "ran": log,
    }
    if ok:
        dst = os.path.join("/verif/seeded", name)
        os.makedirs(dst, exist_ok=True)
        for f in ("patch.diff", "demo.diff", "README.md"):
            if os.path.exists(os.path.join(seed, f)):
                shutil.copy(os.path.join(seed, f), os.path.join(dst, f))
        json.dump(meta, open(os.path.join(dst, "meta.json"), "w"), indent=1)
        print("CONFIRMED -> " + dst)
    else:
        json.dump(meta, open(os.path.join(seed, "confirm-failed.json"), "w"), indent=1)
        print("NOT CONFIRMED")
    return 0 if ok else 1

if __name__ == "__main__":
    sys.exit(main())
