#!/usr/bin/env python3
"""Translator for C19: reads the signer protocol's message declarations from the Rust source
(vls-protocol/src/msgs.rs and model.rs under $VERIF_REPO or /repo) and regenerates

  * coq/theories/Gen/WireGen.v   one Gallina record per struct, enc_T / dec_T / wf_T built from
                                 the combinators of Base/Codec.v + Model/Wire.v, a round-trip
                                 lemma per struct, the [msg] sum, and the dispatch table in the
                                 order of the `Message` enum;
  * harness/src/gen/wire_gen.rs  per-struct value generators / Coq printers for the `wire`
                                 harness domain (included by harness/src/bin/wire.rs);
  * a JSON report (duplicate ids, undispatched structs, counts) for tools/props/c19.py.

What is read from the source: struct names, field names, field types, field order,
`#[message_id(N)]`, `#[derive(...)]`, `#[cfg(feature = ...)]`, the two array macros of model.rs,
the variants of `enum Message` in order, and MAX_MESSAGE_SIZE.  What is NOT read but modelled by
hand (and checked against the real crates by the harness on every run): the field codecs of
bitcoin-consensus-derive / serde_bolt / rust-bitcoin (Base/Codec.v), bolt-derive's ReadMessage
(first matching arm) and msgs::from_vec (Model/Wire.v).

Anything the translator does not understand is an error, never skipped.
"""
import json, os, re, sys

ROOT = os.path.dirname(os.path.dirname(os.path.abspath(__file__)))


class GenError(Exception):
    pass


# ------------------------------------------------------------------ Rust source reading

def strip_comments(src):
    out, i, n = [], 0, len(src)
    while i < n:
        c = src[i]
        if src.startswith("//", i):
            j = src.find("\n", i)
            i = n if j < 0 else j
        elif src.startswith("/*", i):
            depth, i = 1, i + 2
            while i < n and depth:
                if src.startswith("/*", i):
                    depth, i = depth + 1, i + 2
                elif src.startswith("*/", i):
                    depth, i = depth - 1, i + 2
                else:
                    i += 1
        elif c == '"':
            j = i + 1
            while j < n and src[j] != '"':
                j += 2 if src[j] == "\\" else 1
            out.append(src[i:j + 1])
            i = j + 1
        else:
            out.append(c)
            i += 1
    return "".join(out)


def match_brace(src, i, open_c="{", close_c="}"):
    """index just after the bracket matching the one at src[i]"""
    assert src[i] == open_c
    depth = 0
    while i < len(src):
        if src[i] == open_c:
            depth += 1
        elif src[i] == close_c:
            depth -= 1
            if depth == 0:
                return i + 1
        i += 1
    raise GenError("unbalanced brackets")


def drop_test_modules(src):
    while True:
        m = re.search(r"#\[cfg\(test\)\]\s*mod\s+\w+\s*\{", src)
        if not m:
            return src
        end = match_brace(src, m.end() - 1)
        src = src[:m.start()] + src[end:]


ATTR = r"#\[[^\]]*\]"


def parse_attrs(text):
    a = dict(derive=[], message_id=None, features=[], other=[])
    for m in re.finditer(ATTR, text):
        body = m.group(0)[2:-1].strip()
        d = re.match(r"derive\((.*)\)$", body, flags=re.S)
        mid = re.match(r"message_id\((\d+)\)$", body)
        cf = re.match(r'cfg\(feature\s*=\s*"([^"]+)"\)$', body)
        if d:
            a["derive"] += [x.strip() for x in d.group(1).split(",") if x.strip()]
        elif mid:
            a["message_id"] = int(mid.group(1))
        elif cf:
            a["features"].append(cf.group(1))
        elif body.startswith("cfg(") and not body.startswith("cfg(feature"):
            raise GenError("unsupported cfg attribute: " + body)
        else:
            a["other"].append(body)
    return a


def split_top(s, sep=","):
    parts, depth, cur = [], 0, []
    for c in s:
        if c in "<([{":
            depth += 1
        elif c in ">)]}":
            depth -= 1
        if c == sep and depth == 0:
            parts.append("".join(cur))
            cur = []
        else:
            cur.append(c)
    if "".join(cur).strip():
        parts.append("".join(cur))
    return [p.strip() for p in parts if p.strip()]


def parse_type(t):
    """-> ('u8arr', n) | (name, [args])"""
    t = t.strip()
    m = re.match(r"\[\s*u8\s*;\s*(\d+)\s*\]$", t)
    if m:
        return ("u8arr", int(m.group(1)))
    m = re.match(r"([A-Za-z_][\w:]*)\s*(?:<(.*)>)?$", t, flags=re.S)
    if not m:
        raise GenError("unsupported type syntax: %r" % t)
    name = m.group(1).split("::")[-1]
    args = [parse_type(a) for a in split_top(m.group(2))] if m.group(2) else []
    return (name, args)


def parse_structs(src, fname):
    """all `pub struct` items with their attributes"""
    items = []
    for m in re.finditer(r"((?:%s\s*)*)pub\s+struct\s+(\w+)\s*([({;])" % ATTR, src):
        attrs = parse_attrs(m.group(1))
        name, opener = m.group(2), m.group(3)
        if opener == ";":
            raise GenError("unit struct %s not supported" % name)
        start = m.end() - 1
        end = match_brace(src, start, opener, "}" if opener == "{" else ")")
        body = src[start + 1:end - 1]
        fields = []
        tags = {}
        for k, f in enumerate(split_top(body)):
            fa = re.match(r"^((?:%s\s*)*)" % ATTR, f).group(1)
            tg = re.search(r"#\[\s*tlv_tag\s*=\s*(\d+)\s*\]", fa)
            f = re.sub(r"^(?:%s\s*)+" % ATTR, "", f).strip()
            f = re.sub(r"^pub(?:\([^)]*\))?\s+", "", f)
            if opener == "{":
                fm = re.match(r"(\w+)\s*:\s*(.*)$", f, flags=re.S)
                if not fm:
                    raise GenError("cannot parse field %r of %s" % (f, name))
                fields.append((fm.group(1), parse_type(fm.group(2))))
                if tg:
                    tags[fm.group(1)] = int(tg.group(1))
            else:
                fields.append((str(k), parse_type(f)))
        items.append(dict(name=name, tuple=(opener == "("), fields=fields, attrs=attrs, file=fname, tags=tags))
    return items


ARRAY_MACROS = ("array_impl", "secret_array_impl")


def parse_array_macros(src, fname):
    """model.rs: `array_impl!(Name, N);` expands to `pub struct Name(pub [u8; N]);` deriving
    Encodable, Decodable — the macro bodies are checked to still say so."""
    items = []
    for mac in ARRAY_MACROS:
        m = re.search(r"macro_rules!\s*%s\s*\{" % mac, src)
        if not m:
            continue
        end = match_brace(src, m.end() - 1)
        body = src[m.end():end]
        if not re.search(r"\(\s*\$ty\s*:\s*ident\s*,\s*\$len\s*:\s*tt\s*\)", body) or \
           not re.search(r"#\[derive\([^)]*\bEncodable\b[^)]*\bDecodable\b[^)]*\)\]", body) or \
           not re.search(r"pub\s+struct\s+\$ty\s*\(\s*pub\s+\[\s*u8\s*;\s*\$len\s*\]\s*\)\s*;", body):
            raise GenError("macro %s! in %s no longer has the expected shape" % (mac, fname))
        rest = src[:m.start()] + src[end:]
        for u in re.finditer(r"\b%s!\s*\(\s*(\w+)\s*,\s*(\d+)\s*\)\s*;" % mac, rest):
            items.append(dict(name=u.group(1), tuple=True, fields=[("0", ("u8arr", int(u.group(2))))],
                              attrs=dict(derive=["Encodable", "Decodable"], message_id=None, features=[], other=[]),
                              file=fname))
    return items


def parse_message_enum(src):
    m = re.search(r"((?:%s\s*)*)pub\s+enum\s+Message\s*\{" % ATTR, src)
    if not m:
        raise GenError("enum Message not found")
    if "ReadMessage" not in parse_attrs(m.group(1))["derive"]:
        raise GenError("enum Message no longer derives ReadMessage")
    end = match_brace(src, m.end() - 1)
    variants = []
    for v in split_top(src[m.end():end - 1]):
        am = re.match(r"((?:%s\s*)*)(\w+)\s*\(\s*(\w+)\s*\)$" % ATTR, v, flags=re.S)
        if not am:
            raise GenError("cannot parse Message variant %r" % v)
        variants.append(dict(variant=am.group(2), type=am.group(3), features=parse_attrs(am.group(1))["features"]))
    return variants


def parse_const(src, name):
    m = re.search(r"const\s+%s\s*:\s*\w+\s*=\s*([^;]+);" % name, src)
    if not m:
        raise GenError("constant %s not found" % name)
    expr = m.group(1).replace("_", "").strip()
    if not re.fullmatch(r"[\d\s*+()-]+", expr):
        raise GenError("constant %s has an unsupported initialiser %r" % (name, expr))
    return int(eval(expr, {"__builtins__": {}}))


def read_source(repo, features=()):
    pdir = os.path.join(repo, "vls-protocol", "src")
    msgs = drop_test_modules(strip_comments(open(os.path.join(pdir, "msgs.rs")).read()))
    model = drop_test_modules(strip_comments(open(os.path.join(pdir, "model.rs")).read()))
    items = parse_array_macros(model, "model.rs") + parse_structs(model, "model.rs") + parse_structs(msgs, "msgs.rs")
    active = lambda fs: all(f in features for f in fs)
    items = [it for it in items if active(it["attrs"]["features"])]
    variants = [v for v in parse_message_enum(msgs) if active(v["features"])]
    return dict(items=items, variants=variants, max_message_size=parse_const(msgs, "MAX_MESSAGE_SIZE"))


# ------------------------------------------------------------------ type -> codec

class Codec:
    def __init__(self, coq, enc, dec, wf, rt, uses_b=False, blob=False, minsize=0, streamed=False,
                 ty=None, sw=None, ms=None, counted=(), tail=False):
        self.coq, self.enc, self.dec, self.wf, self.rt = coq, enc, dec, wf, rt
        self.uses_b, self.blob, self.minsize, self.streamed = uses_b, blob, minsize, streamed
        # typed predicate, size_wf proof, min_size proof (default: typed = wf, nothing to derive)
        self.ty = ty or wf
        self.sw = sw or "sw_same _ _ _"
        self.ms = ms or "ms_zero _ _"
        if ms is None:
            self.minsize = 0
        self.counted = list(counted)   # arrays whose count bound stays a hypothesis
        self.tail = tail               # consumes its reader to the end (TLV option stream): last field only

    def swT(self):
        return "(%s : size_wf %s %s %s MAX_MESSAGE_SIZE)" % (self.sw, P(self.enc), P(self.ty), P(self.wf))

    def msT(self):
        return "(%s : min_size %s %s %d)" % (self.ms, P(self.enc), P(self.ty), self.minsize)


def P(s):
    return s if re.fullmatch(r"[\w.']+", s) else "(" + s + ")"


FIXED = {"Txid": 32, "BlockHash": 32, "FilterHeader": 32, "BlockHeader": 80}
BE = {"u8": 1, "u16": 2, "u32": 4, "u64": 8}


class Translator:
    def __init__(self, source):
        self.src = source
        self.structs = {}       # name -> item (Encodable+Decodable derive)
        self.order = []
        for it in source["items"]:
            d = it["attrs"]["derive"]
            if ("Encodable" in d and "Decodable" in d) or "SerBoltTlvOptions" in d:
                if it["name"] in self.structs:
                    raise GenError("struct %s declared twice" % it["name"])
                it["tlv"] = "SerBoltTlvOptions" in d
                if it["tlv"] and ("Encodable" in d or it["tuple"]):
                    raise GenError("%s: SerBoltTlvOptions on an unsupported struct shape" % it["name"])
                self.structs[it["name"]] = it
                self.order.append(it["name"])
            elif "SerBolt" in d:
                raise GenError("%s derives SerBolt without the Encodable/Decodable derive (hand-written codec): unsupported" % it["name"])
        self.uses_b = {}
        self.has_blob = {}
        self.has_streamed = {}
        self.minsz = {}
        self.counted = {}
        self.tail = {}

    # codec of a type reached through T::consensus_encode (Array elements, nested structs, ...)
    def consensus(self, ty, where):
        name, args = ty
        if name == "u8arr":
            return Codec("bytes", "enc_fixed %d" % args, "dec_fixed %d" % args, "wf_fixed %d" % args, "rt_fixed %d" % args, minsize=args, ms="ms_fixed %d" % args)
        if name == "u8":
            return Codec("N", "enc_u8", "dec_u8", "wf_u8", "rt_u8", minsize=1, ms="ms_be 1")
        if name in ("u16", "u32", "u64"):   # rust-bitcoin's own integers are little-endian
            return Codec("N", "enc_%sle" % name, "dec_%sle" % name, "wf_%s" % name, "rt_%sle" % name, minsize=BE[name], ms="ms_le %d" % BE[name])
        if name == "bool":
            return Codec("bool", "enc_bool", "dec_bool", "wf_bool", "rt_bool", minsize=1, ms="ms_bool")
        if name in FIXED:
            n = FIXED[name]
            return Codec("bytes", "enc_fixed %d" % n, "dec_fixed %d" % n, "wf_fixed %d" % n, "rt_fixed %d" % n, minsize=n, ms="ms_fixed %d" % n)
        if name == "OutPoint":
            return Codec("OutPoint", "enc_OutPoint", "dec_OutPoint", "wf_OutPoint", "rt_OutPoint", minsize=36, ms="ms_OutPoint")
        if name == "Octets":
            return Codec("bytes", "enc_octets", "dec_octets", "wf_octets", "rt_octets", minsize=2, ms="ms_octets")
        if name == "LargeOctets":
            return Codec("bytes", "enc_largeoctets", "dec_largeoctets", "wf_largeoctets", "rt_largeoctets", minsize=4,
                         ty="ty_any", sw="sw_largeoctets MAX_MESSAGE_SIZE eq_refl", ms="ms_largeoctets _")
        if name == "WireString":
            return Codec("bytes", "enc_wirestring", "dec_wirestring", "wf_wirestring", "rt_wirestring", minsize=1, ms="ms_wirestring")
        if name == "Array" and len(args) == 1:
            e = self.consensus(args[0], where)
            return self.array(e, where)
        if name == "ArrayBE" and len(args) == 1:
            if args[0][0] in BE:            # BigEndianEncodable for integers
                n = args[0][0]
                e = Codec("N", "enc_" + n, "dec_" + n, "wf_" + n, "rt_" + n, minsize=BE[n], ms="ms_be %d" % BE[n])
            elif args[0][0] in self.structs:  # derive delegates to consensus_encode
                e = self.consensus(args[0], where)
            else:
                raise GenError("%s: ArrayBE element %r unsupported" % (where, args[0]))
            return self.array(e, where)
        if name == "WithSize" and len(args) == 1:
            inner = args[0][0]
            if inner == "Transaction":
                return Codec("TxT B", "enc_ws_tx B", "dec_ws_tx B", "wf_ws_tx B", "rt_ws_tx B HB", True, True, 4,
                             ty="ty_any", sw="sw_ws_tx B MAX_MESSAGE_SIZE eq_refl", ms="ms_withsize _ _")
            if inner == "PsbtWrapper":
                return Codec("PsbtT B", "enc_ws_psbt B", "dec_ws_psbt B", "wf_ws_psbt B", "rt_ws_psbt B HB", True, True, 4,
                             ty="ty_any", sw="sw_ws_psbt B MAX_MESSAGE_SIZE eq_refl", ms="ms_withsize _ _")
            if inner == "StreamedPSBT":
                return Codec("PsbtT B", "enc_ws_streamed B", "dec_ws_streamed B", "wf_ws_streamed B", "rt_ws_streamed B HB", True, True, 4, True,
                             ty="ty_streamed B", sw="sw_ws_streamed B MAX_MESSAGE_SIZE eq_refl", ms="ms_withsize _ _")
            e = self.consensus(args[0], where)
            return Codec(e.coq, "enc_withsize %s" % P(e.enc), "dec_withsize (exact %s)" % P(e.dec),
                         "wf_withsize %s %s" % (P(e.enc), P(e.wf)),
                         "rt_withsize %s (exact %s) %s (exact_of_roundtrip _ _ _ %s)" % (P(e.enc), P(e.dec), P(e.wf), P(e.rt)),
                         e.uses_b, e.blob, 4, e.streamed,
                         ty=e.ty, sw="sw_withsize _ _ _ MAX_MESSAGE_SIZE %s eq_refl" % e.swT(), ms="ms_withsize _ _", counted=e.counted)
        if name == "DebugTxoProof" and not args:
            return Codec("ProofT B", "enc_proof B", "dec_proof B", "wf_proof B", "rt_proof B HB", True, True, 0)
        if name in self.structs and not args:
            self.struct_info(name)
            return Codec("T_" + name, "enc_" + name, "dec_" + name, "wf_" + name, "rt_" + name,
                         self.uses_b[name], self.has_blob[name], self.minsz[name], self.has_streamed[name],
                         ty="ty_" + name, sw="sw_" + name, ms="ms_" + name, counted=self.counted[name],
                         tail=self.tail[name])
        raise GenError("%s: type %s%s has no codec in the model (Transaction / PsbtWrapper / StreamedPSBT are only "
                       "supported inside WithSize<>)" % (where, name, "<..>" if args else ""))

    def array(self, e, where="?"):
        if e.tail:
            raise GenError("%s: a TLV option stream cannot be an array element" % where)
        # the count bound follows from MAX_MESSAGE_SIZE iff max < minsize(elem) * 2^16 (checked again by Coq: eq_refl)
        if self.src["max_message_size"] < e.minsize * 65536:
            ty, sw, counted = "forallb %s" % P(e.ty), "sw_array _ _ _ MAX_MESSAGE_SIZE _ %s %s eq_refl" % (e.swT(), e.msT()), e.counted
        else:
            ty, sw, counted = "wf_array %s" % P(e.ty), "sw_array_counted _ _ _ _ %s" % e.swT(), e.counted + [where]
        return Codec("list %s" % P(e.coq), "enc_array %s" % P(e.enc), "dec_array %s" % P(e.dec), "wf_array %s" % P(e.wf),
                     "rt_array _ _ _ %s" % P(e.rt), e.uses_b, e.blob, 2, e.streamed,
                     ty=ty, sw=sw, ms="ms_array _ _", counted=counted)

    # codec of a struct field as the Encodable/Decodable derive emits it
    def field(self, ty, where):
        name, args = ty
        if name == "u8arr":
            return self.consensus(ty, where)    # element-wise u8 = raw bytes
        if name in BE and not args:             # derive: to_be_bytes
            return Codec("N", "enc_" + name, "dec_" + name, "wf_" + name, "rt_" + name, minsize=BE[name], ms="ms_be %d" % BE[name])
        if name in ("u128", "i8", "i16", "i32", "i64", "i128"):
            raise GenError("%s: numeric type %s not modelled" % (where, name))
        if name == "Option" and len(args) == 1:
            e = self.field(args[0], where)
            if e.tail:
                raise GenError("%s: a TLV option stream cannot be optional" % where)
            return Codec("option %s" % P(e.coq), "enc_option %s" % P(e.enc), "dec_option %s" % P(e.dec),
                         "wf_option %s" % P(e.wf), "rt_option _ _ _ %s" % P(e.rt), e.uses_b, e.blob, 1, e.streamed,
                         ty="wf_option %s" % P(e.ty), sw="sw_option _ _ _ _ %s" % e.swT(), ms="ms_option _ _", counted=e.counted)
        return self.consensus(ty, where)

    def struct_info(self, name):
        if name in self.uses_b:
            return
        it = self.structs[name]
        self.uses_b[name] = False   # (recursive structs do not occur; a cycle would loop in Coq anyway)
        self.has_blob[name] = False
        self.has_streamed[name] = False
        self.counted[name] = []
        self.tail[name] = False
        if it.get("tlv"):
            # #[derive(SerBoltTlvOptions)]: every field is Option<T> with a #[tlv_tag]; the value is written by
            # T::consensus_encode (SerBoltTlvWriteWrap), records in ascending tag order
            cs = []
            for f, t in it["fields"]:
                if t[0] != "Option" or len(t[1]) != 1 or f not in it["tags"]:
                    raise GenError("%s.%s: a TLV options field must be Option<T> with #[tlv_tag = N]" % (name, f))
                c = self.consensus(t[1][0], "%s.%s" % (name, f))
                if c.tail or c.uses_b:
                    raise GenError("%s.%s: unsupported TLV value type" % (name, f))
                cs.append(c)
            tl = [it["tags"][f] for f, _ in it["fields"]]
            if len(set(tl)) != len(tl):
                raise GenError("%s: duplicate tlv_tag (the derive's encoder asserts)" % name)
            it["codecs"] = cs
            self.minsz[name] = 0
            self.tail[name] = True
            self.counted[name] = ["%s.%s" % (name, f) for (f, t), c in zip(it["fields"], cs) if c.coq.startswith("list")]
            return
        cs = [self.field(t, "%s.%s" % (name, f)) for f, t in it["fields"]]
        for k, c in enumerate(cs):
            if c.tail and k != len(cs) - 1:
                raise GenError("%s.%s: a TLV option stream reads to the end of the message and must be the last field" % (name, it["fields"][k][0]))
        self.tail[name] = bool(cs) and cs[-1].tail
        it["codecs"] = cs
        self.uses_b[name] = any(c.uses_b for c in cs)
        self.has_blob[name] = any(c.blob for c in cs)
        self.has_streamed[name] = any(c.streamed for c in cs)
        self.minsz[name] = sum(c.minsize for c in cs)
        self.counted[name] = [w for c in cs for w in c.counted]

    def run(self):
        for n in self.order:
            self.struct_info(n)
        msgs = []
        for n in self.order:
            it = self.structs[n]
            if "SerBolt" in it["attrs"]["derive"]:
                if it["attrs"]["message_id"] is None:
                    raise GenError("%s derives SerBolt without #[message_id]" % n)
                if not 0 <= it["attrs"]["message_id"] < 65536:
                    raise GenError("%s: message id out of u16 range" % n)
                if n != "UnknownPlaceholder":
                    msgs.append(n)
        self.msgs = msgs
        # bolt-derive's ReadMessage, as written (bolt-derive/src/lib.rs derive_read_message): for a
        # variant `V(T)` it emits the arm  `V::TYPE => Message::T(Decodable::consensus_decode(reader)?)`
        # i.e. the type id is that of the STRUCT NAMED LIKE THE VARIANT, the constructor is the VARIANT
        # NAMED LIKE THE PAYLOAD TYPE, and what is decoded is that variant's payload type.  With V = T
        # (every variant today) this is the obvious arm; with V != T it is not.
        payload_of = {v["variant"]: v["type"] for v in self.src["variants"]}
        arms = []
        for v in self.src["variants"]:
            V, T = v["variant"], v["type"]
            if V == "Unknown":
                continue    # bolt-derive skips it: the `_` arm
            if V not in msgs:
                raise GenError("Message::%s: `%s::TYPE` needs a SerBolt struct named %s (rustc would refuse)" % (V, V, V))
            if T not in payload_of:
                raise GenError("Message::%s(%s): the derive builds `Message::%s(..)`, no such variant (rustc would refuse)" % (V, T, T))
            built = payload_of[T]
            if built not in msgs or T not in msgs:
                raise GenError("Message::%s(%s): %s / %s is not a SerBolt struct" % (V, T, T, built))
            arms.append(dict(variant=V, payload=T, id=self.structs[V]["attrs"]["message_id"], built=built))
        self.arms = arms
        # a message struct n is served when some arm under n's own id builds an n
        self.arm_of = {}
        for k, a in enumerate(arms):
            n = a["built"]
            if a["id"] == self.structs[n]["attrs"]["message_id"] and n not in self.arm_of:
                self.arm_of[n] = k
        self.table = [n for n in msgs if n in self.arm_of]
        table = arms
        ids = {}
        for a in arms:
            ids.setdefault(a["id"], []).append(a["variant"])
        self.report = dict(
            structs=len(self.order), messages=len(msgs), dispatch_arms=len(table),
            max_message_size=self.src["max_message_size"],
            duplicate_ids=[dict(id=i, types=ns) for i, ns in sorted(ids.items()) if len(ns) > 1],
            undispatched=[n for n in msgs if n not in self.arm_of],
            misnamed_variants=[dict(variant=a["variant"], payload=a["payload"], id=a["id"], builds=a["built"])
                               for a in arms if not (a["variant"] == a["payload"] == a["built"])],
            blob_types=[n for n in msgs if self.has_blob[n]],
            ids={n: self.structs[n]["attrs"]["message_id"] for n in msgs},
            count_hypothesis_fields=sorted({w for n in msgs for w in self.counted[n]}),
        )
        return self

    # -------------------------------------------------------------- Coq
    def coq(self, repo):
        o = []
        w = o.append
        w("(** GENERATED by tools/gen_wire.py from <repo>/vls-protocol/src/{model,msgs}.rs — do not edit.\n"
          "    Regenerated and re-proved on every run of `verif.py check C19` (<repo> = $VERIF_REPO or /repo). *)")
        w("From Coq Require Import List Arith NArith Bool Lia.")
        w("From VLS Require Import Base.Codec Base.Tlv Model.Wire Proofs.WireProofs.")
        w("Import ListNotations.\nOpen Scope N_scope.\n")
        w("Definition MAX_MESSAGE_SIZE : N := %d.\n" % self.src["max_message_size"])
        w("Section Gen.\nVariable B : blob_ops.\nHypothesis HB : blob_laws B.\n")
        for n in self.order:
            it = self.structs[n]
            cs = it["codecs"]
            if it["tuple"]:
                if len(cs) != 1:
                    raise GenError("tuple struct %s with %d fields unsupported" % (n, len(cs)))
                c = cs[0]
                w("(* %s: pub struct %s(..) *)" % (it["file"], n))
                w("Definition T_%s : Type := %s." % (n, c.coq))
                w("Definition enc_%s : T_%s -> bytes := %s." % (n, n, c.enc))
                w("Definition dec_%s : dec_t T_%s := %s." % (n, n, c.dec))
                w("Definition wf_%s : T_%s -> bool := %s." % (n, n, c.wf))
                w("Lemma rt_%s : roundtrip enc_%s dec_%s wf_%s.\nProof. exact (%s). Qed." % (n, n, n, n, c.rt))
                w("Definition ty_%s : T_%s -> bool := %s." % (n, n, c.ty))
                w("Lemma sw_%s : size_wf enc_%s ty_%s wf_%s MAX_MESSAGE_SIZE.\nProof. exact (%s). Qed." % (n, n, n, n, c.sw))
                w("Lemma ms_%s : min_size enc_%s ty_%s %d.\nProof. exact (%s). Qed.\n" % (n, n, n, c.minsize, c.ms))
                continue
            fs = [f for f, _ in it["fields"]]
            mid = it["attrs"]["message_id"]
            if it.get("tlv"):
                self.coq_tlv(w, n, it, fs, cs)
                continue
            w("(* %s: struct %s%s *)" % (it["file"], n, "" if mid is None else "  #[message_id(%d)]" % mid))
            if fs:
                w("Record T_%s : Type := Build_%s {\n%s\n}." % (n, n, ";\n".join(
                    "  %s_%s : %s" % (n, f, c.coq) for f, c in zip(fs, cs))))
            else:
                w("Record T_%s : Type := Build_%s { }." % (n, n))
            w("Definition enc_%s (x : T_%s) : bytes :=\n  %s[]." % (n, n, "".join(
                "%s (%s_%s x) ++\n  " % (c.enc, n, f) for f, c in zip(fs, cs))))
            body = "Some (Build_%s%s, bs%d)" % (n, "".join(" v_" + f for f in fs), len(fs))
            for k in range(len(fs) - 1, -1, -1):
                body = "bind (%s bs%d) (fun '(v_%s, bs%d) =>\n  %s)" % (cs[k].dec, k, fs[k], k + 1, body)
            w("Definition dec_%s : dec_t T_%s := fun bs0 =>\n  %s." % (n, n, body))
            wfe = "true"
            for f, c in reversed(list(zip(fs, cs))):
                wfe = "%s (%s_%s x) &&\n  (%s)" % (c.wf, n, f, wfe)
            w("Definition wf_%s (x : T_%s) : bool :=\n  %s." % (n, n, wfe))
            projs = " ".join("%s_%s" % (n, f) for f in fs)
            if self.tail[n]:
                w("(* closed by a TLV option stream: decodes its own encoding, consuming the reader to the end *)")
                w("Lemma rt_%s : roundtrip_end enc_%s dec_%s wf_%s.\nProof.\n  intros [%s] Hw. unfold enc_%s, dec_%s, wf_%s in *.%s rewrite ?app_nil_r. rt_begin.\n%s  rt_last (%s).\n  rt_end.\nQed.\n" % (
                    n, n, n, n, " ".join("v_" + f for f in fs), n, n, n,
                    (" cbn [%s] in *." % projs) if fs else "",
                    "".join("  rt_one (%s).\n" % c.rt for c in cs[:-1]), cs[-1].rt))
            else:
                w("Lemma rt_%s : roundtrip enc_%s dec_%s wf_%s.\nProof.\n  intros [%s] rest Hw. unfold enc_%s, dec_%s, wf_%s in *.%s rt_begin.\n%s  rt_end.\nQed.\n" % (
                    n, n, n, n, " ".join("v_" + f for f in fs), n, n, n,
                    (" cbn [%s] in *." % projs) if fs else "",
                    "".join("  rt_one (%s).\n" % c.rt for c in cs)))
            tye = "true"
            for f, c in reversed(list(zip(fs, cs))):
                tye = "%s (%s_%s x) &&\n  (%s)" % (c.ty, n, f, tye)
            w("Definition ty_%s (x : T_%s) : bool :=\n  %s." % (n, n, tye))
            intro = "  intros [%s] Ht%s. unfold ty_%s in Ht.%s\n%s" % (
                " ".join("v_" + f for f in fs), "%s", n, (" cbn [%s] in Ht." % projs) if fs else "",
                "".join("  apply andb_true_iff in Ht; destruct Ht as [Ht%d Ht].\n" % k for k in range(len(fs))))
            w("Lemma sw_%s : size_wf enc_%s ty_%s wf_%s MAX_MESSAGE_SIZE.\nProof.\n%s  unfold enc_%s in Hs. unfold wf_%s.%s rewrite ?lenN_app in Hs.\n%s  reflexivity.\nQed." % (
                n, n, n, n, intro % " Hs", n, n, (" cbn [%s] in *." % projs) if fs else "",
                "".join("  sw_one %s.\n" % c.swT() for c in cs)))
            w("Lemma ms_%s : min_size enc_%s ty_%s %d.\nProof.\n%s%s  unfold enc_%s.%s rewrite ?lenN_app. lia.\nQed.\n" % (
                n, n, n, self.minsz[n], intro % "",
                "".join("  pose proof (%s v_%s Ht%d).\n" % (c.msT(), f, k)
                        for k, (f, c) in enumerate(zip(fs, cs))),
                n, (" cbn [%s]." % projs) if fs else ""))
        # messages
        w("(** ** the messages (every SerBolt struct) and the dispatch table (enum Message, in order) *)")
        w("Inductive msg : Type :=\n%s." % "\n".join("| M_%s (x : T_%s)" % (n, n) for n in self.msgs))
        w("Definition msg_id (m : msg) : N :=\n  match m with\n%s\n  end." % "\n".join(
            "  | M_%s _ => %d" % (n, self.structs[n]["attrs"]["message_id"]) for n in self.msgs))
        w("Definition enc_msg (m : msg) : bytes :=\n  match m with\n%s\n  end." % "\n".join(
            "  | M_%s x => enc_%s x" % (n, n) for n in self.msgs))
        w("Definition wf_msg (m : msg) : bool :=\n  match m with\n%s\n  end." % "\n".join(
            "  | M_%s x => wf_%s x" % (n, n) for n in self.msgs))
        w("Definition ty_msg (m : msg) : bool :=\n  match m with\n%s\n  end." % "\n".join(
            "  | M_%s x => ty_%s x" % (n, n) for n in self.msgs))
        w("Definition msg_index (m : msg) : N :=\n  match m with\n%s\n  end." % "\n".join(
            "  | M_%s _ => %d" % (n, k) for k, n in enumerate(self.msgs)))
        w("Definition table : list (entry msg) := [\n%s\n]." % ";\n".join(
            "  {| e_id := %d; e_dec := dec_map M_%s dec_%s |}%s" % (
                a["id"], a["built"], a["built"],
                "" if a["variant"] == a["payload"] == a["built"] else
                "   (* variant %s(%s): id of struct %s, builds Message::%s *)" % (a["variant"], a["payload"], a["variant"], a["payload"]))
            for a in self.arms))
        w("Definition table_ids : list N := [%s]." % "; ".join(str(a["id"]) for a in self.arms))
        w("Lemma table_ids_ok : map e_id table = table_ids.\nProof. reflexivity. Qed.\n")
        w("Definition as_vec : msg -> bytes := as_vec_of msg_id enc_msg.\n")
        for n in self.msgs:
            mid = self.structs[n]["attrs"]["message_id"]
            if n in self.arm_of:
                k = self.arm_of[n]
                w("Lemma arm_%s : forall x, wf_%s x = true -> exists e, In e table /\\ e_id e = %d /\\\n"
                  "  e_dec e (enc_%s x) = Some (M_%s x, []).\n"
                  "Proof.\n  intros x Hw. exists {| e_id := %d; e_dec := dec_map M_%s dec_%s |}.\n"
                  "  split; [exact (nth_error_In table %d eq_refl)|]. split; [reflexivity|].\n"
                  "  cbn [e_dec]. unfold dec_map. rewrite (%s x Hw). reflexivity.\nQed."
                  % (n, n, mid, n, n, mid, n, n, k,
                     ("rt_%s" % n) if self.tail[n] else ("roundtrip_to_end _ _ _ rt_%s" % n)))
            else:
                # kept as a hypothesis so that the definitions above stay usable (the executable
                # comparison still runs); every theorem below then carries it as a premise and
                # Props/C19.v, which states them without it, no longer builds
                w("(* OPEN OBLIGATION (cannot hold): %s derives SerBolt (id %d) but no arm of the dispatch generated for\n"
                  "   enum Message builds a %s under that id, so msgs::from_vec cannot return it. *)\n"
                  "Hypothesis arm_%s : forall x, wf_%s x = true -> exists e, In e table /\\ e_id e = %d /\\\n"
                  "  e_dec e (enc_%s x) = Some (M_%s x, [])." % (n, mid, n, n, n, mid, n, n))
        w("\nLemma table_complete : forall m, wf_msg m = true ->\n  fits 2 (msg_id m) = true /\\\n"
          "  exists e, In e table /\\ e_id e = msg_id m /\\ e_dec e (enc_msg m) = Some (m, []).\n"
          "Proof.\n  intros m Hw. destruct m; (split; [reflexivity|]); cbn [wf_msg msg_id enc_msg] in *.\n%s\nQed.\n"
          % "\n".join("  - exact (arm_%s x Hw)." % n for n in self.msgs))
        w("(** every bound in [wf_msg] that is not a typing fact follows from the encoding fitting MAX_MESSAGE_SIZE%s *)" % (
            "" if not self.report["count_hypothesis_fields"] else
            "\n    (except the element count of: %s — elements may be shorter than 3 bytes, so [ty_msg] keeps that count bound)"
            % ", ".join(self.report["count_hypothesis_fields"])))
        w("Lemma wf_from_size : forall m, ty_msg m = true -> lenN (as_vec m) <= MAX_MESSAGE_SIZE -> wf_msg m = true.\n"
          "Proof.\n  intros m Ht Hs. unfold as_vec, as_vec_of in Hs. rewrite lenN_app in Hs.\n"
          "  destruct m; cbn [ty_msg wf_msg enc_msg] in *.\n%s\nQed.\n"
          % "\n".join("  - apply (sw_%s x Ht). lia." % n for n in self.msgs))
        w("End Gen.")
        return "\n".join(o) + "\n"

    def coq_tlv(self, w, n, it, fs, cs):
        """a #[derive(SerBoltTlvOptions)] struct: Base/Tlv.v does the work"""
        tags = it["tags"]
        by_tag = sorted(zip(fs, cs), key=lambda fc: tags[fc[0]])
        projs = " ".join("%s_%s" % (n, f) for f in fs)
        w("(* %s: struct %s  #[derive(SerBoltTlvOptions)]  tags %s *)" % (
            it["file"], n, ", ".join("%s=%d" % (f, tags[f]) for f, _ in by_tag)))
        w("Record T_%s : Type := Build_%s {\n%s\n}." % (n, n, ";\n".join(
            "  %s_%s : option %s" % (n, f, P(c.coq)) for f, c in zip(fs, cs))))
        w("Definition tlvf_%s (x : T_%s) : tlv_fields :=\n  [%s]." % (n, n, ";\n   ".join(
            "(%d, option_map %s (%s_%s x))" % (tags[f], P(c.enc), n, f) for f, c in by_tag)))
        w("Definition enc_%s (x : T_%s) : bytes := enc_tlv (tlvf_%s x)." % (n, n, n))
        body = "Some (Build_%s%s, [])" % (n, "".join(" v_" + f for f in fs))
        for f, c in reversed(by_tag):
            body = "bind (dec_tlv_field %s (tlv_lookup %d recs)) (fun v_%s =>\n    %s)" % (P(c.dec), tags[f], f, body)
        w("Definition dec_%s : dec_t T_%s := fun bs =>\n  bind (parse_tlv (length bs) None bs) (fun recs =>\n"
          "    if tlv_unknown_ok [%s] recs then\n    %s\n    else None)." % (
              n, n, "; ".join(str(tags[f]) for f, _ in by_tag), body))
        wfe = "true"
        for f, c in reversed(by_tag):
            wfe = "wf_option %s (%s_%s x) &&\n  (%s)" % (P(c.wf), n, f, wfe)
        w("Definition wf_%s (x : T_%s) : bool :=\n  tags_above None (tlvf_%s x) &&\n  (%s)." % (n, n, n, wfe))
        steps = "".join(
            "  match goal with Hw : (_ && _) = true |- _ => apply andb_true_iff in Hw; destruct Hw as [Hf Hw] end.\n"
            "  rewrite (lookup_present L None %d (option_map %s v_%s) Htags ltac:(cbn [In]; repeat (first [left; reflexivity | right]))).\n"
            "  rewrite (dec_tlv_field_rt %s %s %s v_%s (%s) Hf). cbn [bind]. clear Hf.\n"
            % (tags[f], P(c.enc), f, P(c.enc), P(c.dec), P(c.wf), f, c.rt) for f, c in by_tag)
        w("Lemma rt_%s : roundtrip_end enc_%s dec_%s wf_%s.\nProof.\n"
          "  intros [%s] Hw. unfold wf_%s, dec_%s, enc_%s, tlvf_%s in *. cbn [%s] in *.\n"
          "  apply andb_true_iff in Hw. destruct Hw as [Htags Hw].\n"
          "  match goal with |- context [parse_tlv _ None (enc_tlv ?L0)] => set (L := L0) in * end.\n"
          "  rewrite (parse_enc_tlv L _ None Htags (Nat.le_refl _)). cbn [bind].\n"
          "  pose proof (unknown_ok_present L) as Hu. unfold L in Hu at 1. cbn [map fst] in Hu. rewrite Hu. clear Hu.\n"
          "%s  reflexivity.\nQed." % (n, n, n, n, " ".join("v_" + f for f in fs), n, n, n, n, projs, steps))
        w("Definition ty_%s : T_%s -> bool := wf_%s." % (n, n, n))
        w("Lemma sw_%s : size_wf enc_%s ty_%s wf_%s MAX_MESSAGE_SIZE.\nProof. exact (sw_same _ _ _). Qed." % (n, n, n, n))
        w("Lemma ms_%s : min_size enc_%s ty_%s 0.\nProof. exact (ms_zero _ _). Qed.\n" % (n, n, n))

    # -------------------------------------------------------------- Rust
    def rust(self, repo):
        o = []
        w = o.append
        w("// GENERATED by tools/gen_wire.py from <repo>/vls-protocol/src/{model,msgs}.rs - do not edit.\n"
          "// Included by harness/src/bin/wire.rs; regenerated before every build of the `wire` domain.")
        for n in self.order:
            it = self.structs[n]
            fs = [f for f, _ in it["fields"]]
            barg = " B0" if self.uses_b[n] else ""
            if it["tuple"]:
                w("impl Arb for %s { fn arb(g: &mut Gen) -> Self { %s(Arb::arb(g)) } }" % (n, n))
                w("impl ToCoq for %s { fn coq(&self) -> String { self.0.coq() } fn canon(&self, r: bool) -> String { self.0.canon(r) } }" % n)
                continue
            w("impl Arb for %s { fn arb(g: &mut Gen) -> Self { %s { %s } } }" % (
                n, n, ", ".join("%s: Arb::arb(g)" % f for f in fs)))
            if fs:
                w('impl ToCoq for %s { fn coq(&self) -> String { format!("(Build_%s%s%s)", %s) } '
                  'fn canon(&self, r: bool) -> String { format!("(%s%s)", %s) } }' % (
                    n, n, barg, " {}" * len(fs), ", ".join("self.%s.coq()" % f for f in fs),
                    n, " {}" * len(fs), ", ".join("self.%s.canon(r)" % f for f in fs)))
            else:
                w('impl ToCoq for %s { fn coq(&self) -> String { "(Build_%s%s)".to_string() } }' % (n, n, barg))
        for n in self.msgs:
            w("impl AnyMsg for %s {\n"
              "    fn name(&self) -> &'static str { \"%s\" }\n"
              "    fn bytes(&self) -> Vec<u8> { SerBolt::as_vec(self) }\n"
              "    fn coq_msg(&self) -> String { format!(\"(M_%s B0 {})\", self.coq()) }\n"
              "    fn canon_msg(&self, r: bool) -> String { self.canon(r) }\n"
              "    fn write_framed(self: Box<Self>) -> Result<Vec<u8>, String> { write_framed_as(*self) }\n"
              "    fn read_typed(&self, stream: &[u8]) -> Result<(String, usize), String> { read_typed_as::<%s>(stream) }\n"
              "    fn typed_from_vec(&self, bytes: Vec<u8>) -> Result<String, String> { typed_from_vec_as::<%s>(bytes) }\n"
              "}" % (n, n, n, n, n))
        w("pub const TYPES: &[TypeInfo] = &[")
        for n in self.msgs:
            w('    TypeInfo { name: "%s", id: %d, has_blob: %s, has_streamed: %s, has_tlv: %s, dispatched: %s, gen: |g| Box::new(<%s as Arb>::arb(g)) },' % (
                n, self.structs[n]["attrs"]["message_id"], "true" if self.has_blob[n] else "false",
                "true" if self.has_streamed[n] else "false", "true" if self.tail[n] else "false",
                "true" if n in self.table else "false", n))
        w("];")
        w("/// variant name, canonical structure (as received), re-encoded bytes of a decoded message")
        w("pub fn describe(m: &Message) -> (String, String, Vec<u8>) {\n    match m {")
        for a in self.arms:
            w('        Message::%s(i) => ("%s".to_string(), AnyMsg::canon_msg(i, true), AnyMsg::bytes(i)),' % (a["variant"], a["variant"]))
        w('        Message::Unknown(u) => ("Unknown".to_string(), format!("{}", u.message_type), vec![]),')
        w("    }\n}")
        return "\n".join(o) + "\n"


# the harness builds vls-protocol with its `developer` feature (harness/Cargo.toml.in), as the crate's own
# tests do, so that HsmdDevPreinit / HsmdDevPreinit2 (TLV options) / HsmdDevPreinitReply are in the registry
FEATURES = ("developer",)


def generate(repo=None, features=FEATURES, write=True, only_rust=False):
    repo = repo or os.environ.get("VERIF_REPO", "/repo")
    t = Translator(read_source(repo, features)).run()
    coq, rust = t.coq(repo), t.rust(repo)
    if write:
        targets = [(os.path.join(ROOT, "coq", "theories", "Gen", "WireGen.v"), coq),
                   (os.path.join(ROOT, "harness", "src", "gen", "wire_gen.rs"), rust)]
        if only_rust:
            targets = targets[1:]
        for path, text in targets:
            os.makedirs(os.path.dirname(path), exist_ok=True)
            tmp = path + ".tmp"
            open(tmp, "w").write(text)
            os.replace(tmp, path)     # always rewritten: the generated model is rebuilt on every run
    return t.report


if __name__ == "__main__":
    try:
        rep = generate(features=tuple(a for a in sys.argv[1:] if not a.startswith("-")) or FEATURES)
    except GenError as e:
        print("gen_wire: " + str(e), file=sys.stderr)
        sys.exit(1)
    print(json.dumps({k: v for k, v in rep.items() if k != "ids"}, indent=1))
