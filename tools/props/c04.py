"""C04 — commitment signatures bind to the BOLT-3 transaction of the validated content."""
import json, os, re, time
from concurrent.futures import ThreadPoolExecutor
import lib

MANIFEST = dict(
    text="Coq theorems over Model/Commitment.v (BOLT-3 assembly canon_tx / canon_ws / htlc_txs in Gallina incl. script "
         "builders, output presence, BIP69+CLTV ordering, consensus serialisation, BIP143; decode = handle_output with "
         "its five script templates over a model of rust-bitcoin's script lexer and read_scriptint; sign_phase1 / "
         "sign_phase2 over an abstract signer and an abstract validation of the semantic content), for ALL setups, keys "
         "and contents (unbounded HTLC lists): C04_phase1_canonical (a phase-1 signature exists only for a transaction "
         "that is structurally and byte for byte canon_tx of a validated content, and it is the signature of that "
         "transaction's BIP143 digest), C04_phase2_sig (phase 2 signs canon_tx of the validated content and one HTLC "
         "transaction per HTLC output, in output order), C04_entry_points_agree (on every content phase 2 signs, phase 1 "
         "accepts canon_tx with canon_ws and returns the same signature; needs the parse-after-build round trip of every "
         "script template, proved once for a template interpreter), C04_no_foreign_tx (under injectivity of the digest and "
         "of signature verification no other transaction verifies), C04_bolt3_trimming (the signed transaction is bolt3_tx - "
         "no output for an HTLC below dust + second-stage fee - because accepted contents carry no trimmed HTLC; "
         "C04_validated_contents_untrimmed discharges that premise from C05's validator theorem), "
         "C04_htlc_phase1_recomposed (raw HTLC entry point: a signature exists only when the supplied digest equals the digest "
         "of the second-stage transaction rebuilt from the channel's parameters, and it signs that rebuilt digest, for every "
         "validate_htlc_tx verdict, i.e. under every policy filter), C04_wire_binding (the same at the protocol handler: "
         "SignRemoteCommitmentTx2 signs canon_tx of wire_content = the glue that truncates msat amounts to satoshis and maps "
         "the wire sides, and SignRemoteCommitmentTx accepts that transaction with the same signature), C04_validated_contents_bounded (the expiry premise of "
         "the round trip follows from C05's validator theorem), C04_hash_lengths (the executable SHA-256 / RIPEMD-160 "
         "meet the length premises). The model describes the code with setup_channel refusing a funding output index "
         "above 65535 (notes/fixes/C04-funding-vout-16-bits.patch; C04_old_vout_truncation_refuted keeps the witness "
         "against `vout as u16`); the deprecated non-zero-fee Anchors type is outside the agreement theorem "
         "(C04_anchors_type_refuted). Tie: per run the model's bytes are computed by "
         "vm_compute for generated setups x contents (4 commitment types, both funder directions, delays, outpoints, HTLC "
         "multisets with duplicates, zero outputs, dust edges) with keys and obscuring factor derived independently in the "
         "harness (BOLT-3 formulas on libsecp256k1 / SHA-256); those bytes are fed to the real raw entry point, every "
         "returned signature (both entry points, HTLC signatures) is verified with libsecp256k1 against the BIP143 digest "
         "of the MODEL's bytes, and every single-field mutation of the transaction and of each witness script is fed to "
         "decode_commitment_tx and phase 1 and compared with the model's decode / sign_phase1.",
    design="§4 C04",
    note=lib.TB + "Outside the theorem (parameters, covered differentially): EC key tweaks and PublicKey::from_slice "
         "(oracle table per case), LDK's CommitmentTransaction builder and rust-bitcoin's Builder/Instructions/sighash "
         "(modelled in Gallina, compared byte for byte), ECDSA. SHA-256 and RIPEMD-160 are Gallina functions validated "
         "against the standard vectors; a per-run sample of txids and BIP143 digests computed entirely in Coq is compared "
         "with rust-bitcoin's.",
    technique="Coq proof (round-trip / refinement over byte lists, all contents) + translation-validation style "
              "correspondence: model bytes drive the implementation, signatures verified against model bytes",
)

PINNED = ["C04_phase1_canonical", "C04_phase2_sig", "C04_decode_roundtrip", "C04_canon_order_independent",
          "C04_entry_points_agree", "C04_hash_lengths", "C04_entry_points_agree_sha256", "C04_no_foreign_tx",
          "C04_htlc_sigs_bind", "C04_wire_binding", "C04_bolt3_trimming", "C04_validated_contents_untrimmed",
          "C04_htlc_phase1_recomposed",
          "C04_nonvacuous", "C04_anchors_type_refuted", "C04_old_vout_truncation_refuted",
          "C04_validated_contents_bounded"]

IMPORTS = "From Coq Require Import String List NArith.\nFrom VLS Require Import Base.Codec Model.Commitment Model.CommitmentCheck.\nImport List.ListNotations.\nOpen Scope N_scope.\n"


def _lists(out):
    """every `= [...] : list N` answer of a coqc run, in order"""
    res = []
    for m in re.finditer(r"=\s*(\[[^\]]*\])\s*(?:%N|%list)?\s*:\s*list N", out, flags=re.S):
        inner = re.sub(r"%N|\s", "", m.group(1))[1:-1]
        res.append([int(x) for x in inner.split(";") if x])
    return res


def _unframe(flat):
    """inverse of CommitmentCheck.frame_sec, repeated: list of sections, each a list of byte strings"""
    secs, i = [], 0
    while i < len(flat):
        n = flat[i]
        i += 1
        items = []
        for _ in range(n):
            ln = flat[i]
            i += 1
            items.append(bytes(flat[i:i + ln]))
            i += ln
        secs.append(items)
    return secs


def _eval_many(terms, name, timeout=1500):
    """Evaluate `term_i : list N` for every i with vm_compute, sharded over coqc processes."""
    if not terms:
        return []
    shards = min(4 * lib.NCPU, max(1, len(terms) // 4))
    chunks = [list(range(k, len(terms), shards)) for k in range(shards)]

    def one(arg):
        k, idxs = arg
        body = IMPORTS + "".join("Eval vm_compute in (%s).\n" % terms[i] for i in idxs)
        for attempt in range(3):
            try:
                rc, out = lib.coqc_snippet(body, "%s_%d" % (name, k), timeout=timeout)
            except Exception as e:  # subprocess.TimeoutExpired
                raise lib.Fail("evaluating case file %s_%d: %r" % (name, k, e))
            if rc == 0:
                break
            # a .vo of the shared development may be half-written by a concurrent build: try again
            time.sleep(5 + 10 * attempt)
        if rc != 0:
            errs = [l for l in out.splitlines() if "Error" in l or "rror:" in l]
            raise lib.Fail("case file %s_%d did not compile:\n%s\n%s" % (name, k, "\n".join(errs[:5]), out[-1500:]))
        ls = _lists(out)
        if len(ls) != len(idxs):
            raise lib.Fail("could not parse the answers of %s_%d (%d of %d):\n%s" % (name, k, len(ls), len(idxs), out[-1500:]))
        return list(zip(idxs, ls))

    with ThreadPoolExecutor(max_workers=max(2, lib.NCPU // 2)) as ex:
        res = [x for r in ex.map(one, enumerate(chunks)) for x in r]
    res.sort()
    return [l for _, l in res]


def _merge_stats(ss):
    """sum the numeric fields of the per-shard statistics (dicts are merged recursively)"""
    def merge(a, b):
        for k, v in b.items():
            if isinstance(v, dict):
                a[k] = merge(a.get(k, {}), v)
            elif isinstance(v, (int, float)) and not isinstance(v, bool):
                a[k] = a.get(k, 0) + v
            else:
                a[k] = v
        return a
    out = {}
    for s in ss:
        merge(out, s)
    return out


def run(res):
    quick = res.tier == "quick"
    cov = res.coverage
    proved = lib.proof_stage(res, "C04.v", "Props.C04", PINNED)
    ok, out = lib.build_coq(["theories/Model/CommitmentCheck.vo"])
    if not ok:
        raise lib.Fail("Model/CommitmentCheck.v does not build:\n" + out[-2000:])
    n = int(os.environ.get("VERIF_C04_N", "80" if quick else "240"))
    n_digest = 6 if quick else 24
    t0 = time.time()
    gen = lib.run_harness("commit", "gen", res.seed, n, res.tier)
    gens = [g for g in gen["GEN"] if "coq" in g]
    # pass A: the model's bytes
    outs = _eval_many(["model_out %s" % g["coq"] for g in gens], "c04_a")
    digs = _eval_many(["model_digests %s" % g["coq"] for g in gens[:n_digest]], "c04_d")
    model = {}
    for j, (g, flat) in enumerate(zip(gens, outs)):
        secs = _unframe(flat)
        e = {"tx": secs[0][0].hex(), "fs": secs[1][0].hex(), "ws": [w.hex() for w in secs[2]],
             "htx": [h.hex() for h in secs[3]], "htx_ok": secs[4][0] == b"\x01", "digests": None}
        if j < len(digs):
            d = _unframe(digs[j])
            e["digests"] = {"txid": d[0][0].hex(), "sighash": d[1][0].hex(), "htlc": [x.hex() for x in d[2]]}
        model[str(g["idx"])] = e
    os.makedirs(lib.OUT, exist_ok=True)
    mpath = os.path.join(lib.OUT, "c04-model-%s-%d.json" % (res.tier, res.seed))
    json.dump(model, open(mpath, "w"))
    t1 = time.time()
    # the implementation, driven by the model's bytes (case shards in parallel processes)
    lib.build_harness("commit")
    nsh = 8
    with ThreadPoolExecutor(max_workers=nsh) as ex:
        parts = list(ex.map(lambda k: lib.run_harness("commit", "run", res.seed, n, res.tier,
                                                      extra=["--model", mpath, "--shard", str(k), str(nsh)]), range(nsh)))
    cases = sorted((c for p in parts for c in p.get("CASE", [])), key=lambda c: c["idx"])
    herr = [h for p in parts for h in p.get("HARNESS_ERROR", [])]
    stats = _merge_stats([p["STATS"][0] for p in parts if p.get("STATS")])
    hrecs = sorted((h for p in parts for h in p.get("HTLC", [])), key=lambda h: h["idx"])
    t2 = time.time()
    # pass B: decode / sign_phase1 of the model on every mutant
    chunk = 150
    hx = lambda h: '(hx "%s")' % h
    terms, owner = [], []
    for ci, c in enumerate(cases):
        ms = c["coq_mutants"]
        for off in range(0, len(ms), chunk):
            part = ms[off:off + chunk]
            keys = sorted({k for m in part for k in m["keys"]})
            same = [k for k in keys if c["coq_oracle"][k] == k]
            other = [k for k in keys if c["coq_oracle"][k] != k]
            obs = sorted({m["obs"] for m in part if m["obs"] is not None})
            oi = {o: i for i, o in enumerate(obs)}
            mt = ["(%s, %s, %s, %s)" % (m["m"], "None" if m["obs"] is None else "Some %d%%nat" % oi[m["obs"]],
                                        "true" if m["acc"] else "false", "true" if m["ok"] else "false") for m in part]
            terms.append("bad_mutants (%s (oracle_of [%s] [%s]) [%s] [%s])" % (
                c["coq_head"], "; ".join(hx(k) for k in same),
                "; ".join("(%s, %s)" % (hx(k), hx(c["coq_oracle"][k])) for k in other),
                "; ".join(obs), "; ".join(mt)))
            owner.append((ci, off))
    # pass C: the raw HTLC-transaction entry point (decode_and_validate_htlc_tx) against decode_htlc_tx
    hterms, howner = [], []
    for hi, h in enumerate(hrecs):
        for side, key in (("counterparty", "cp"), ("holder", "holder")):
            reqs = h["reqs_" + key]
            sk = h["coq_" + key]
            for off in range(0, len(reqs), 40):
                part = reqs[off:off + 40]
                scripts = sorted({m.group(1) for r in part for m in re.finditer(r"@R([0-9a-f]*)@", r)})
                pos = {sc: i for i, sc in enumerate(scripts)}
                part = [re.sub(r"@R([0-9a-f]*)@", lambda m: "%d%%nat" % pos[m.group(1)], r) for r in part]
                hterms.append("bad_hreqs %s %s [%s] [%s]" % (sk[0], sk[1], "; ".join('(hx "%s")' % sc for sc in scripts),
                                                             "; ".join(part)))
                howner.append((hi, side, off))
    answers = _eval_many(terms + hterms, "c04_b")
    hanswers = answers[len(terms):]
    answers = answers[:len(terms)]
    hbad = [(hrecs[hi], side, [off + i for i in a]) for (hi, side, off), a in zip(howner, hanswers) if a]
    bad = [[] for _ in cases]
    for (ci, off), a in zip(owner, answers):
        bad[ci].extend(off + i for i in a)
    t3 = time.time()
    lib.log("[c04: gen+model %.1fs, run %.1fs, check %.1fs]" % (t1 - t0, t2 - t1, t3 - t2))

    strip = lambda c: {k: v for k, v in c.items() if not k.startswith("coq")}
    # the deprecated non-zero-fee Anchors type exists only under a setup policy downgraded to a warning
    # (policy-channel-safe-type); LDK 0.1 builds a non-anchor transaction for it, which the raw entry point's
    # decoder refuses.  The model reproduces this (C04_anchors_type_refuted) and the theorems exclude the
    # type; it is reported as a finding, not as a failure of this check.
    AGREE = "semantic entry point signed, raw entry point refused the canonical transaction"
    anchors_div = [c for c in cases if c["case"]["ctype"] == "Anchors"
                   and any(v["what"] == AGREE for v in c["violations"])]
    if anchors_div:
        what = ("deprecated commitment type Anchors (setup admitted only with policy-channel-safe-type downgraded): "
                "phase 2 signs LDK's non-anchor transaction, phase 1 refuses it (%d cases this run)" % len(anchors_div))
        if any("Anchors" in json.dumps(f) for f in lib.known_findings(res.pid)):
            res.known.append(what)
        else:
            lib.log("[c04 finding, not failing the check] " + what)
    n_viol = 0
    for c in cases:
        vs = [v for v in c["violations"] if not (c["case"]["ctype"] == "Anchors" and v["what"] == AGREE)]
        vout = int(c["case"]["funding"].split(":")[1])
        for v in vs[:2]:
            if n_viol < 4:
                what = v["what"]
                if vout > 65535 and c.get("builder_agrees") is False:
                    what += (" [funding output index %d does not fit the 16-bit LDK channel parameter (`vout as u16` in "
                             "make_channel_parameters): the transaction that is built and signed spends %s:%d instead of "
                             "the channel's funding outpoint; repair: notes/fixes/C04-funding-vout-16-bits.patch]"
                             % (vout, c["case"]["funding"].split(":")[0][:8] + "..", vout % 65536))
                res.violation(what, {"domain": "commit", "seed": res.seed, "tier": res.tier, "case": strip(c), "detail": v})
            n_viol += 1
    for h in herr[:2]:
        res.violation("harness error: " + h["what"], h, has_input=False)
    builder_bad = [c for c in cases if c.get("builder_agrees") is False]
    if not n_viol:
        for c in builder_bad[:2]:
            res.violation("the transaction built by make_counterparty_commitment_tx differs from the model's canon_tx "
                          "(correspondence commit-builder)", {"correspondence": "commit-builder", "case": strip(c)}, has_input=False)
        k = 0
        for c, b in zip(cases, bad):
            if b and k < 2:
                k += 1
                res.violation("decode_commitment_tx / sign_counterparty_commitment_tx disagree with Model.Commitment.decode / "
                              "sign_phase1 on mutant(s) %s (correspondence commit-mutants)" % b[:5],
                              {"correspondence": "commit-mutants", "theorem": "C04_phase1_canonical", "case": strip(c),
                               "mutant_indices": b[:20], "mutants": [c["coq_mutants"][i] for i in b[:5]]}, has_input=False)
    if not n_viol:
        for h, side, idxs in hbad[:2]:
            res.violation("decode_and_validate_htlc_tx (%s entry point) disagrees with Model.Commitment.decode_htlc_tx on "
                          "request(s) %s: fee rate / direction / expiry / the digest handed back for signing "
                          "(correspondence commit-htlc-p1)" % (side, idxs[:5]),
                          {"correspondence": "commit-htlc-p1", "theorem": "C04_htlc_phase1_recomposed", "case": h["case"],
                           "side": side, "request_indices": idxs[:20],
                           "requests": [h["reqs_" + ("cp" if side == "counterparty" else "holder")][i][:1500] for i in idxs[:3]]},
                          has_input=False)
    signed = [c for c in cases if c["phase2"] == "signed"]
    nontrivial = set()
    for c in signed:
        cs = c["case"]
        if cs["offered"] or cs["received"]:
            nontrivial.add(json.dumps(cs, sort_keys=True))
    cov.update({
        "evaluations": len(cases) + stats.get("mutants", 0),
        "distinct_nontrivial": len(nontrivial),
        "rule": "cases: commitment type cycles over the 4 types (deprecated ones under a downgraded setup policy), funder "
                "direction, channel value, funding outpoint (vout up to 65535), to_self_delay at the script-number "
                "boundaries (16/17, 127/128, 255/256, 2016), commitment numbers up to 2^48-1, feerates 253..15000, HTLC values "
                "at the dust limit (+0,+1) and above, expiries at the script-number boundaries, duplicated HTLCs / same hash "
                "both ways / same output with another expiry, zero to_local or to_remote, plus contents the validator refuses; "
                "a case is non-trivial when phase 2 signed and it carries HTLCs; distinct by full case. Mutants: every field "
                "of the serialised tx (version, locktime, sequence, outpoint bytes, script_sig, witness, input count, output "
                "count/order, every value, every script_pubkey byte) and of every witness script (every byte, alone and with "
                "the script_pubkey recomputed; truncation, extension, non-minimal / uncompressed / foreign key pushes; malformed "
                "scripts: cut push headers, a PUSHDATA4 of 2^32-1 bytes, random bytes) and of the semantic arguments of the raw "
                "entry point (commitment number, fee rate, HTLC dropped / duplicated / expiry or value changed, lists swapped), all "
                "of them for the full-mutation cases and three per class for the others; every call is judged in the same channel "
                "state (fresh node after each accepted call); the model's accept at a mutant's content is the semantic entry "
                "point's answer on a fresh node. Restart stage: every second signed case is restored from the store "
                "(Node::restore_node) and both entry points are retried, compared with a not-restarted control; every third channel "
                "is readied under a permanent id different from its initial id (requests through either id, the other one after "
                "the restart; the harness derives from the basepoints of the initial id's stub). Handler level: every signed case is "
                "sent again as wire messages (SignRemoteCommitmentTx2 and, on another node, SignRemoteCommitmentTx with the witness "
                "scripts in the PSBT; as_vec -> from_vec -> ChannelHandler::handle at protocol 4/5/6) whose HTLC amounts are msat "
                "values x*1000 + {0, 1, 500, 999}, sides interleaved; the expected BOLT-3 transaction is built with LDK directly "
                "from the harness's own reading of the wire fields (msat / 1000 rounded down, side 1 = offered by the "
                "counterparty, no output below the trimming threshold of its direction), compared with the model's bolt3_tx "
                "(wire_content ...) for every case and used to verify the replies. HTLC amounts: a quarter of them sit at "
                "threshold-1 / threshold / threshold+1 of BOTH trimming thresholds (330 + feerate*663/1000 and "
                "330 + feerate*703/1000; 354 on zero-fee-anchor channels) on BOTH sides, so a received HTLC between the two "
                "thresholds (trimmed by BOLT-3, to be refused by the validator) occurs in several cases per run. Raw HTLC entry "
                "points (sign_counterparty_htlc_tx, sign_holder_htlc_tx): for up to two HTLC transactions per case (the model's "
                "BOLT-3 ones; offered and received; all types but the deprecated Anchors) the canonical transaction and ~25 "
                "single-field changes (version, locktime, sequence, outpoint, output value / script / count, input count, "
                "script_sig, amount, redeemscript) are submitted on four nodes: default filter, warn on policy-htlc-other, warn "
                "on the prefix policy-htlc-, permissive filter; every returned signature must verify under the channel's "
                "tweaked HTLC key on the second-stage transaction the harness rebuilds with LDK's build_htlc_transaction from "
                "the channel's own delay/keys, and none may be returned when the supplied digest differs from it; "
                "decode_and_validate_htlc_tx's answer must be the same under all four filters and equal the model's "
                "decode_htlc_tx (digest computed in Coq)",
        "samples": [strip(c) for c in cases[:2]],
        "cases": len(cases),
        "phase2_signed": len(signed),
        "traces_validated_against_impl": len(cases),
        "correspondence_disagreements": sum(1 for b in bad if b) + len(builder_bad) + len(hbad),
        "htlc_raw_requests": sum(len(h["reqs_cp"]) + len(h["reqs_holder"]) for h in hrecs),
        "monitor_failures": n_viol,
        "anchors_type_divergence_cases": len(anchors_div),
        "digests_cross_checked": sum(1 for c in cases if c.get("digest_checked")),
        "harness_stats": [stats] + gen.get("STATS", []),
        "timing_s": {"gen_and_model": round(t1 - t0, 1), "implementation": round(t2 - t1, 1), "model_on_mutants": round(t3 - t2, 1)},
    })
    res.assumptions = [
        "SHA-256 / RIPEMD-160 outputs are 32 / 20 bytes; PublicKey::from_slice accepts the serialised channel keys (premises of C04_entry_points_agree)",
        "the validator accepts only contents whose received-HTLC expiries are < 2^31 (premise accept_bounded; proved from C05's validator model in C04_validated_contents_bounded)",
        "to_self_delay <= 2016 and the commitment type is not the deprecated non-zero-fee Anchors (premises of C04_entry_points_agree; see known finding)",
        "funding output index <= 65535 (setup_channel refuses wider ones since b5e2d35; before, the index was truncated: C04_old_vout_truncation_refuted)",
        "HTLC amounts in msat fit u64 (htlc_amount_exact; implied by the in-flight limit) - otherwise canon_tx carries the wrapped amount the release build computes",
        "ECDSA: a signature verifies for one digest only; BIP143 digest injective on transactions (premises of C04_no_foreign_tx)",
        "the correspondence is differential testing: bounded by the generator described in coverage.rule",
    ]
