"""C08 — on-chain spends lose at most a bounded fee and fund only validated channels."""
import lib
import gen_rustfn

MANIFEST = dict(
    text="Coq theorem C08_ok_implies: for every transaction (any number of inputs / outputs, amounts unbounded naturals "
         "with the code's checked and plain operations modelled, so every u64 overflow candidate is inside the "
         "quantifier), every wallet / allowlist classification of its outputs, every set of channels whose funding "
         "outpoints designate them, every policy and every state of the fee velocity control: if Node::check_onchain_tx "
         "answers Ok under a non-permissive filter then every output is returned to the wallet, to an allowlisted script "
         "or xpub, or funds a channel that passed all channel checks; inputs minus all outputs equals the non-beneficial "
         "value, which is below the fee at max_feerate_per_kw+1 for the weight lower bound; every output funding a "
         "channel has the exact channel value and funding script, the channel is outbound, pushes no satoshi and has "
         "next_holder_commit_num = 1; if any channel is pointed at, every input is segwit; and the value*1000 "
         "(saturating, exact whenever the control has a finite limit) was inserted into, and approved by, the fee "
         "velocity control.  C08_ok_per_tag / C08_funded_checked give each "
         "conjunct for an arbitrary filter unless its own tag is downgraded.  C08_unknown_exact / _never_ok / _reported: "
         "an UnknownDestinations answer lists exactly the unclassified output indices, such a transaction is never "
         "accepted, and when nothing else refuses that answer is returned; C08_approval_needed: the approver passes a "
         "transaction only if the check passed or it approved exactly that index list.  C08_memo_exact_once: the memorizing approver over a declining delegate says yes only when "
         "the operation right before the request is an approve naming this very transaction (used once).  "
         "C08_overflow_refused (checked sums).  C08_fee_velocity instantiates C12_window for the fee control: for every policy (any maximum "
         "feerate), every finite fee limit and every history of on-chain requests, node-entry writes and restarts, "
         "the true non-beneficial values accepted in any window sum to at most the limit.  The fee control is the configured one under either validator factory: sequences of "
         "spends whose fees reach the configured limit exactly and then pass it are run against the history model "
         "started from the configured spec, with a window monitor over the harness's own record.  "
         "C08_msat_wrap_refuted keeps the witness against check_onchain_tx as found (value*1000 in plain u64; repaired in /repo by 06905f5) and the "
         "witness is replayed on the real code in debug and release on every run.  The glue from the wire is inside the check: SignWithdrawal requests go "
         "through as_vec / from_vec and RootHandler::handle, and the monitor judges the reply by the TRUE values of the "
         "previous outputs (consensus-verified signatures).  The model is run against the real Node::check_onchain_tx, "
         "Approve::handle_proposed_onchain, unchecked_sign_onchain_tx and (through the Validator trait) "
         "SimpleValidator::validate_onchain_tx on generated nodes with real channels on every run; the wallet / "
         "allowlist answers come from a reference BIP32 derivation in the harness, and the property itself is "
         "recomputed in u128 from the description of each case.  C08_feerate_estimate_is_source: the feerate estimate of the model IS the source's (estimate_feerate_per_kw translated on every run by tools/gen_rustfn.py into Gen/TxUtilGen.v and proved equal to the model's definition for every u64 fee and non-zero weight, both build profiles).  C08_beneficial_value_rule_is_source / C08_onchain_rules_are_source: the numeric rules ARE the source's - SimpleValidator::validate_beneficial_value (whole body, with DEFAULT_DEV_FLAGS read from the file) and the fee tail of ::validate_onchain_tx (from `let mut sum_inputs: u64 = 0;` to the end: checked sum of the input values, the call, Ok(non_beneficial)) are translated statement by statement on every run (Gen/OnchainGen.v) and proved equal to the model's validate_beneficial and the last two steps of validate_onchain for every policy, filter and both build profiles, value / tag / panic (the per-output loop and Node::check_onchain_tx are outside the translator's fragment).",
    design="§4 C08",
    note=lib.TB + "Additionally trusted: tools/gen_rustfn.py and the meaning Base/Rust.v gives to the Rust constructs it reads.  Side conditions of the rate conjunct: max_feerate_per_kw < u32::MAX (u32::MAX = no maximum once the "
         "estimate saturates) and dev flag disable_beneficial_balance_checks off; the fee velocity theorem needs only "
         "that the fee-range tag is not downgraded and the limit is finite.  'Funds a channel' = the branch of validate_onchain_tx that counts the value as going into a "
         "channel (no wallet path, script not allowlisted); an output the wallet can spend or whose script is "
         "allowlisted is classified as such whatever channel points at it (C08_allowlisted_shadows_channel).  A push "
         "below 1000 msat is not a push for the check (push_value_msat / 1000).  After an explicit approval of unknown "
         "destinations the fee rate and fee velocity are not evaluated (the check returned before them).  Modelled, not "
         "verified: rust-bitcoin's Transaction::weight / base_size / txid, SpendType::from_script_pubkey, BIP32 and "
         "address construction (exercised through the reference derivation), LDK's funding redeemscript.",
    technique="Coq proof (implication over unbounded integers and induction over the output list; simulation into the "
              "velocity model) + vm_compute correspondence with the Rust implementation + u128 reference monitor",
)

PINNED = ["C08_memo_exact_once", "C08_memo_nonvacuous", "C08_msat_wrap_refuted", "C08_ok_implies", "C08_ok_per_tag", "C08_funded_checked", "C08_unknown_exact", "C08_unknown_never_ok",
          "C08_unknown_reported", "C08_approval_needed", "C08_overflow_refused", "C08_fee_velocity",
          "C08_nonvacuous", "C08_unknown_nonvacuous", "C08_fee_velocity_nonvacuous", "C08_rate_truncation_refuted"]

IMPORTS = ["Model.OnchainCheck"]


def _strip(c):
    return {k: v for k, v in c.items() if k != "coq"}


def run(res):
    quick = res.tier == "quick"
    # the translator regenerates Gen/TxUtilGen.v from /repo's transaction_utils.rs under the build lock, right before
    # the theorem that relates it to the model's feerate estimate is re-checked
    tx_report = {}

    def regen():
        tx_report.update(gen_rustfn.generate_txutil(lib.REPO))
        stage["at"] = "onchain"
        # Gen/OnchainGen.v (validate_beneficial_value, the fee tail of validate_onchain_tx) over the policy record of
        # Gen/CommitmentPolicyGen.v
        tx_report["commitment_policy"] = gen_rustfn.generate_commitment_policy(lib.REPO)["translated"]
        tx_report["onchain"] = gen_rustfn.generate_onchain(lib.REPO)
    stage = {"at": "txutil"}
    try:
        lib.proof_stage(res, "C08.v", "Props.C08", PINNED + ["C08_feerate_estimate_is_source",
                                                            "C08_beneficial_value_rule_is_source",
                                                            "C08_onchain_rules_are_source"], pre=regen)
    except gen_rustfn.GenError as e:
        if stage["at"] == "txutil":
            res.violation("the translator cannot read estimate_feerate_per_kw (a construct outside its fragment): %s" % e,
                          {"translator": "tools/gen_rustfn.py", "source": "vls-core/src/util/transaction_utils.rs",
                           "error": str(e), "theorem": "C08_feerate_estimate_is_source"}, has_input=False)
        else:
            res.violation("the translator cannot read validate_beneficial_value or the fee tail of validate_onchain_tx, or a "
                          "declaration or constant they use (a construct outside its fragment): %s" % e,
                          {"translator": "tools/gen_rustfn.py", "source": "vls-core/src/policy/simple_validator.rs (+ policy/error.rs, "
                                                                          "util/transaction_utils.rs)",
                           "error": str(e), "theorem": "C08_onchain_rules_are_source"}, has_input=False)
    res.coverage["translated_from_source"] = tx_report
    ok, out = lib.build_coq(["theories/Model/OnchainCheck.vo"])     # the executable comparison used below
    if not ok:
        raise lib.Fail("Model/OnchainCheck.v did not build:\n" + out[-2000:])
    cov = res.coverage
    profiles = ["debug"] if quick else ["debug", "release"]
    n_node = 1500 if quick else 15000
    n_val = 2400 if quick else 25000
    n_handler = 900 if quick else 12000
    n_memo = 300 if quick else 4000
    n_fee = 480 if quick else 6000
    node, val, hand, memo, feer, stats, aborted = [], [], [], [], [], [], []
    chunks = 6 if quick else 25
    for prof in profiles:
        # in chunks: a panic inside check_onchain_tx while the state lock is held turns into a process abort
        # (second panic in the deferred trace), which must not hide what the other cases show
        for k in range(chunks):
            for sub, n, sink in (("node", n_node, node), ("val", n_val, val), ("handler", n_handler, hand),
                                 ("memo", n_memo, memo), ("feerun", n_fee, feer)):
                try:
                    r = lib.run_harness("onchain", sub, res.seed * 1000 + k, n // chunks, res.tier, profile=prof)
                except lib.Fail as e:
                    if "build failed" in str(e):
                        raise       # not a behaviour of the code under test
                    aborted.append({"sub": sub, "profile": prof, "seed": res.seed * 1000 + k, "n": n // chunks,
                                    "error": str(e)[-600:]})
                    continue
                for c in r["CASE"]:
                    c["chunk"] = k
                sink += r["CASE"]
                stats += r.get("STATS", [])

    # the witness against `non_beneficial_sat * 1000` in plain u64 (C08_msat_wrap_refuted): a debug build panics
    # (and, the state lock being held, aborts), a release build wraps
    witness_desc = {"policy": {"max_feerate_per_kw": 4294967295, "fee_velocity": "hourly", "fee_velocity_limit_msat": 10000000},
                    "transaction": {"inputs": [{"kind": "foreign-empty-script", "value_sat": 18446744073709552}], "outputs": []},
                    "call": "Node::check_onchain_tx(tx, [], prev_outs, [None], []) at clock 161398",
                    "harness": "onchain witness"}
    witness_obs = []
    for prof in ["debug", "release"]:
        try:
            r = lib.run_harness("onchain", "witness", res.seed, 1, res.tier, profile=prof)
        except lib.Fail as e:
            if "build failed" in str(e):
                raise
            res.violation("Node::check_onchain_tx brings the process down on a non-beneficial value of 2^64/1000 sat "
                          "(`non_beneficial_sat * 1000` overflows with the state lock held; %s build)" % prof,
                          {"domain": "onchain-witness", "profile": prof, "case": witness_desc, "error": str(e)[-400:]})
            witness_obs.append({"profile": prof, "observed": "process abort"})
            continue
        for c in r["CASE"]:
            c["chunk"] = "witness"
            witness_obs.append({"profile": prof, "check_code": c["steps"][0]["check_onchain_tx"]["code(0 ok,1 panic,2 unknown,100+tag)"]})
        node += r["CASE"]

    steps = [(c, i) for c in node for i in range(len(c["coq"]))]
    nterms = [c["coq"][i] for c, i in steps]
    vterms = [c["coq"] for c in val]
    fn = lib.coq_failures(IMPORTS, "node_case", "check_node", nterms, "c08_node")
    fv = lib.coq_failures(IMPORTS, "val_case", "check_val", vterms, "c08_val")
    fsteps = [c for c in feer if c["coq"]]
    fterms = [c["coq"] for c in fsteps]
    ff = lib.coq_failures(IMPORTS, "hist_case", "check_hist", fterms, "c08_hist")
    mterms = [c["coq"] for c in memo]
    fm = lib.coq_failures(IMPORTS, "memo_case", "check_memo", mterms, "c08_memo")
    hsteps = [c for c in hand if c["coq"]]
    hterms = [c["coq"][0] for c in hsteps]
    fh = lib.coq_failures(IMPORTS, "handler_case", "check_handler", hterms, "c08_handler")

    # the property itself on the implementation's answers (u128 reference in the harness)
    mon_node = [c for c in node if c["monitor_violation"]]
    mon_val = [c for c in val if c["monitor_violation"]]
    # a spend that went through first, a wrong report after
    mon_node.sort(key=lambda c: 0 if any("without asking" in m or "accepted although" in m for m in c["monitor_violation"]) else 1)
    mon_hand = [c for c in hand if c["monitor_violation"]]
    # a hidden loss first, a merely unverifiable claim after
    mon_hand.sort(key=lambda c: 0 if any("signed away" in m or "above the fee" in m for m in c["monitor_violation"]) else 1)
    for c in mon_hand[:2]:
        res.violation("SignWithdrawal through the wire codec and RootHandler::handle (true input values from the previous "
                      "transactions): " + "; ".join(c["monitor_violation"][:3]),
                      {"domain": "onchain-handler", "seed": res.seed, "case": _strip(c)})
    for c in mon_node[:2]:
        res.violation("Node::check_onchain_tx / handle_proposed_onchain: " + "; ".join(c["monitor_violation"][:3]),
                      {"domain": "onchain-node", "seed": res.seed, "case": _strip(c)})
    for c in mon_val[:2]:
        res.violation("SimpleValidator::validate_onchain_tx / wallet oracle: " + "; ".join(c["monitor_violation"][:3]),
                      {"domain": "onchain-val", "seed": res.seed, "case": _strip(c)})

    for a in aborted[:2]:
        res.violation("harness onchain %s did not survive the code under test (process abort / crash); replay with "
                      "`onchain %s --seed %d --n %d`" % (a["sub"], a["sub"], a["seed"], a["n"]),
                      {"domain": "onchain-" + a["sub"], "harness_args": a}, has_input=False)
    # say whether the disagreements are those of the code as found (value * 1000 trapping / wrapping)
    explained_old = None
    if fn:
        bad = [nterms[j] for j in fn]
        still = lib.coq_failures(IMPORTS, "node_case", "check_node_old", bad, "c08_node_old")
        explained_old = len(bad) - len(still)
    shown = 0
    for j in fn:
        c, i = steps[j]
        if c["monitor_violation"]:
            continue    # already reported with its input
        if shown >= 2:
            break
        shown += 1
        model = lib.coq_eval(IMPORTS, "(node_model (%s), node_model_old (%s))" % (nterms[j], nterms[j]), "c08_show")
        res.violation("check_onchain_tx / handle_proposed_onchain disagree with Model.Onchain (correspondence onchain-node); "
                      "observation = ((check code, unknown indices), fee control, (handler code, asked indices), fee control); "
                      "codes: 0 ok, 1 panic, 2 unknown destinations, 100+k refused with tag k",
                      {"correspondence": "onchain-node", "theorem": "C08_ok_implies", "case": _strip(c),
                       "step": c["steps"][i] if i < len(c["steps"]) else None,
                       "model(repaired, as-found)": model[-900:]}, has_input=False)
    shown = 0
    for j in fv:
        c = val[j]
        if c["monitor_violation"]:
            continue
        if shown >= 2:
            break
        shown += 1
        model = lib.coq_eval(IMPORTS, "val_model (%s)" % vterms[j], "c08_show")
        res.violation("validate_onchain_tx disagrees with Model.Onchain.validate_onchain (correspondence onchain-val); "
                      "observation = (code, unknown indices, non-beneficial value)",
                      {"correspondence": "onchain-val", "theorem": "C08_ok_per_tag", "case": _strip(c),
                       "model": model[-400:]}, has_input=False)

    mon_fee = [c for c in feer if c["monitor_violation"]]
    mon_fee.sort(key=lambda c: 0 if any("sum to" in m for m in c["monitor_violation"]) else 1)
    for c in mon_fee[:2]:
        res.violation("fee velocity over a sequence of spends (%s): " % c["validator_factory"] + "; ".join(c["monitor_violation"][-2:]),
                      {"domain": "onchain-feerun", "seed": res.seed, "case": _strip(c)})
    shown = 0
    for j in ff:
        c = fsteps[j]
        if c["monitor_violation"]:
            continue
        if shown >= 2:
            break
        shown += 1
        model = lib.coq_eval(IMPORTS, "hist_model (%s)" % fterms[j], "c08_show")
        res.violation("a history of on-chain requests and restarts disagrees with Model.Onchain.ostep run from the configured "
                      "fee velocity spec (correspondence onchain-feerun); per operation (check code, control in memory)",
                      {"correspondence": "onchain-feerun", "theorem": "C08_fee_velocity", "case": _strip(c),
                       "model": model[-900:]}, has_input=False)
    mon_memo = [c for c in memo if c["monitor_violation"]]
    mon_memo.sort(key=lambda c: 0 if any("larger input" in m for m in c["monitor_violation"]) else 1)
    for c in mon_memo[:2]:
        res.violation("SignWithdrawal under the repository's approver %s: " % c["approver"] + "; ".join(c["monitor_violation"][:2]),
                      {"domain": "onchain-memo", "seed": res.seed, "case": _strip(c)})
    shown = 0
    for j in fm:
        c = memo[j]
        if c["monitor_violation"]:
            continue
        if shown >= 2:
            break
        shown += 1
        model = lib.coq_eval(IMPORTS, "memo_model (%s)" % mterms[j], "c08_show")
        res.violation("the approver's answers over a history of approve / request disagree with Model.Onchain.mrun "
                      "(correspondence onchain-memo)",
                      {"correspondence": "onchain-memo", "theorem": "C08_memo_exact_once", "case": _strip(c),
                       "model": model[-300:]}, has_input=False)
    shown = 0
    for j in fh:
        c = hsteps[j]
        if c["monitor_violation"]:
            continue
        if shown >= 2:
            break
        shown += 1
        model = lib.coq_eval(IMPORTS, "handler_model (%s)" % hterms[j], "c08_show")
        res.violation("RootHandler::handle(SignWithdrawal) disagrees with Model.Onchain.handle_proposed on the view the "
                      "request gives of the transaction (correspondence onchain-handler); observation = (0 reply / 2 error / "
                      "3 panic, indices the approver was asked about, fee control after)",
                      {"correspondence": "onchain-handler", "theorem": "C08_approval_needed", "case": _strip(c),
                       "model": model[-500:]}, has_input=False)
    dec_dis = [c for c in hand if c["decode_disagreement"] and not c["monitor_violation"]]
    for c in dec_dis[:2]:
        res.violation("StreamedPSBT decoding disagrees with its reference reading: a previous transaction must agree with the "
                      "claimed witness_utxo, and a legacy output cannot be claimed without its previous transaction "
                      "(correspondence onchain-handler-decode)",
                      {"correspondence": "onchain-handler-decode", "case": _strip(c)}, has_input=False)

    dist_node, dist_val = {}, {}
    for c in node:
        for s in c["steps"]:
            k = str(s.get("check_onchain_tx", {}).get("code(0 ok,1 panic,2 unknown,100+tag)", "skipped"))
            dist_node[k] = dist_node.get(k, 0) + 1
    for c in val:
        dist_val[str(c["code"])] = dist_val.get(str(c["code"]), 0) + 1
    # non-trivial: a case with at least two outputs or a channel, whose answer is ok / unknown / a policy refusal
    nontrivial = set()
    for c, i in steps:
        t = c["transaction"]
        if len(t["outputs"]) >= 2 or c["n_funded"] > 0:
            nontrivial.add(c["coq"][i])
    for c in val:
        if len(c["transaction"]["outputs"]) >= 2 and c["code"] != 1:
            nontrivial.add(c["coq"])
    for c in hand:
        if c["coq"]:
            nontrivial.add(c["coq"][0])
    for c in memo:
        nontrivial.add(c["coq"] + c["transactions"][0]["txid"])
    for c in fsteps:
        nontrivial.add(c["coq"])
    cov.update({
        "evaluations": len(nterms) + len(vterms) + len(hand) + len(memo) + len(feer),
        "distinct_nontrivial": len(nontrivial),
        "rule": "node: a fresh real node per case (own policy: max_feerate_per_kw in {253, 1000, 25000, 333333, 4e9, "
                "2^32-2, 2^32-1}, fee velocity hourly/daily/unlimited with limits 1e7..1e15 msat, filter rule sets, dev "
                "flag), allowlist of scripts and 0-2 xpubs, 0-3 real channels (setup_channel with the transaction's "
                "outpoint; initial holder commitment really validated, or next_holder_commit_num forced to 0/1/2; "
                "inbound, push 1/999/1000/5e6 msat, value +-1) designating outputs (funding script, wrong script, a "
                "wallet output, an allowlisted script, another vout), 0-5 further outputs of 12 classes (wallet "
                "p2wpkh/p2sh/p2tr, other key, p2pkh, allowlisted script with and without path, xpub child "
                "p2wpkh/p2pkh/p2tr with and without path, two-step and hardened paths, unknown), 0-4 inputs (p2wpkh, "
                "p2sh-p2wpkh, p2pkh, p2tr, unilateral-close p2wpkh/p2wsh with stack, foreign scripts), 1-3 requests per "
                "node at times 0 / interval-1 / interval / (nb-1)*interval apart with a restart in between and, half of "
                "the time, 1-2 operations on the allowlist through Node::set_allowlist (empty list, subsets plus new "
                "entries, the same list), remove_allowlist (an entry the spend pays to, all entries) and add_allowlist "
                "(addresses and xpubs) - the allowlist answers of model and monitor follow the harness's own record of the "
                "operator's list (replace = exactly the given list), never the node; input values "
                "chosen so that the non-beneficial value sits at 0, 1, bound-1, bound, bound+1 of the rate bound for the "
                "weight, at limit-1/limit/limit+1 of the fee velocity, at the u32 truncation class, at 2^64/1000 (+1), "
                "at -1 (underflow) or sums past 2^64; 3/5 of the cases mostly valid, 1/8 malformed (flag / opath / "
                "uniclosekey counts, version, input without prev_out, base size at 32768 / 32769). val: the same worlds, "
                "validate_onchain_tx with weight in {0, 1, 4, real, 2^32-1, 2^32, 2^63, 2^64-1}, free values and flags. "
                "handler: SignWithdrawal (1-3 wallet inputs p2wpkh / p2sh-p2wpkh / p2tr / p2pkh spending previous "
                "transactions built by the harness, each given as previous tx + matching witness_utxo, previous tx only, "
                "witness_utxo only, understated / overstated / other-script witness_utxo with and without the previous tx, "
                "or nothing; wallet change with bip32 derivations, allowlisted, unknown and channel outputs; shown fee at "
                "0 / bound-1 / bound / bound+1, hidden value 1 .. 1e8 sat) encoded with as_vec, decoded with from_vec, "
                "handled by RootHandler with a recording approver; the reply is checked for on-chain validity against the "
                "TRUE previous outputs (consensus verification; taproot by rule) and the monitor uses the true values. "
                "feerun: one node per case under SimpleValidatorFactory or OnchainValidatorFactory over it (2/3), fee "
                "velocity hourly 1e6 / 1e7 / 7.7e7 / 1e9, daily 5e6 / 5e7 / 123456000 / 1e9 msat or unlimited, 3-8 plain "
                "spends (check_onchain_tx, unchecked_sign_onchain_tx iff accepted) whose fees are pieces of the limit "
                "(quarters summing to it exactly then 1 sat more; half+1 twice; the limit then 1; limit+1; random), "
                "pauses of 0 / bucket-1 / bucket / window-1 / window / beyond, restarts from the store; the Coq history "
                "model starts from the CONFIGURED spec and the window monitor sums the fees the harness itself recorded "
                "as signed; node and handler sub-domains also run half of their nodes under the on-chain factory and "
                "compare the control's limit and shape with the configuration. "
                "memo: the repository's approvers (MemoApprover over Negative / Velocity<Negative> / Positive, Negative, "
                "WarningPositive) under RootHandler: approve(A), request A, A again, then look-alikes of A (same outputs "
                "with a larger / another / an additional input, another locktime, another sequence, one output value "
                "lowered), then random approve / request operations; every transaction pays an unknown destination. "
                "Non-trivial = at least two outputs or a funded channel (val: and no panic); distinct by full Coq term.",
        "samples": [_strip(node[0]) if node else None, _strip(val[0]) if val else None],
        "traces_validated_against_impl": len(nterms) + len(vterms) + len(hand) + len(memo) + len(feer),
        "correspondence_disagreements": len(fn) + len(fv) + len(fh) + len(dec_dis) + len(fm) + len(ff),
        "disagreements_by_domain": {"node": len(fn), "val": len(fv), "handler": len(fh), "handler-decode": len(dec_dis),
                                    "memo": len(fm), "feerun": len(ff)},
        "monitor_failures": len(mon_node) + len(mon_val) + len(mon_hand) + len(mon_memo) + len(mon_fee),
        "observed_distribution_node_check(0 ok,1 panic,2 unknown,100+tag)": dist_node,
        "observed_distribution_val(0 ok,1 panic,2 unknown,100+tag)": dist_val,
        "profiles": profiles,
        "aborted_harness_chunks": len(aborted),
        "disagreements_matching_unrepaired_code": explained_old,
        "msat_overflow_witness": witness_obs,
        "harness_stats": stats,
    })
    res.assumptions = [
        "max_feerate_per_kw < u32::MAX and dev flag disable_beneficial_balance_checks off (premises of the rate "
        "conjunct of C08_ok_implies; C08_max_feerate_u32max_is_unlimited shows why); C08_fee_velocity: fee-range tag "
        "not downgraded, finite limit",
        "prev_outs carry the true values of the spent outputs (the caller's PSBT witness_utxo), timestamps non-decreasing",
        "rust-bitcoin weight / base_size / txid / script classification and BIP32 derivation are taken as given "
        "(exercised through the reference derivation in the harness, not modelled)",
        "the correspondence is differential testing: bounded by the generator described in coverage.rule",
    ]
