"""C03 — counterparty commitments advance only over properly revoked predecessors."""
import lib
from props import chan_common
from props.chan_common import TIE

MANIFEST = dict(
    text="Coq theorems over every request history (both build profiles): C03_sign_needs_revocations (a counterparty signature "
         "for n is returned only when every number below n-1 was revoked by an accepted revocation), C03_at_most_two_unrevoked, "
         "C03_revocation_matches_signed_point (the accepted secret's point is the point signed for that number), C03_resign_same "
         "(a number is re-signed only for the identical point and content), and for VLS's compact secret store "
         "C03_store_accepts_only_consistent / C03_store_keeps_the_tree (an accepted secret derives every secret stored below it; a "
         "whole BOLT-3 tree fed in order is accepted and retrievable in <= 49 entries).  C03_commit_update_is_source / "
         "C03_revoke_update_is_source: the model's two counterparty-side state updates ARE the source's - "
         "EnforcementState::set_next_counterparty_commit_num / _revoke_num are translated on every run by tools/gen_rustfn.py "
         "(Gen/EnforcementGen.v) and proved equal to set_cp_commit / set_cp_revoke in both build profiles." + TIE +
         "C03_sign_window_is_source (after the content verdict: the window test next_counterparty_revoke_num + 1 < n, the "
         "overflow of n+1, then validate_cp_state - on a retry the same point and the same content; side condition "
         "next_counterparty_revoke_num < 2^64-1) and C03_revocation_checks_are_source (revocation_checks with the overflow "
         "handling of do_revocation; the point of the secret is an uninterpreted function of the secret).  Correspondence and monitor on the chan "
         "domain as for C01 (the store itself is additionally driven against Model/Secrets.v by the C18 check).",
    design="§4 C03",
    note=lib.TB + "Additionally trusted: tools/gen_rustfn.py and the meaning Base/Rust.v gives to the Rust constructs it reads.  Points and secrets are identities in the state-machine model; 'secret s has public point p' and the store's chain "
         "verdict are oracle inputs computed by the harness from libsecp256k1 and the real store; the hash and bit-flip of the store "
         "theorems are universally quantified parameters.",
    technique="Coq proof (state-machine invariant by induction over request histories; store refinement) + vm_compute correspondence with the Rust implementation",
)


def run(res):
    # the translator regenerates Gen/EnforcementGen.v and Gen/EnforcementRulesGen.v from /repo under the build lock, right
    # before the theorems that relate them to the model's state updates and decisions are re-checked
    chan_common.run_tied(res, "C03.v", ["C03_sign_needs_revocations", "C03_at_most_two_unrevoked",
                                        "C03_revocation_matches_signed_point", "C03_resign_same",
                                        "C03_store_accepts_only_consistent", "C03_store_keeps_the_tree",
                                        "C03_commit_update_is_source", "C03_revoke_update_is_source",
                                        "C03_previous_point_lookup_is_source", "C03_previous_info_lookup_is_source",
                                        "C03_sign_window_is_source", "C03_revocation_checks_are_source",
                                        "C03_nonvacuous"],
                         "C03", "C03_commit_update_is_source")
