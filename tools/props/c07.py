"""C07 — mutual close pays the holder its due to an owned or allowlisted destination."""
import lib
import gen_rustfn

MANIFEST = dict(
    text="Coq theorems C07_accept_phase1 / C07_accept_phase2: for every policy, channel setup (funder or fundee, upfront "
         "shutdown script or none), enforcement state, wallet (can_spend oracle), allowlist content at signing time, "
         "signature scheme and request - values unbounded naturals with the code's checked additions and saturating "
         "fee-rate estimate modelled, scripts as byte strings, paths as index lists - a signature returned by "
         "sign_mutual_close_tx_phase2 or by sign_mutual_close_tx under a non-permissive filter implies: both current "
         "commitments exist and hold no HTLC; the true fee lies within the BOLT-3 fees of the closing transaction at "
         "[min, max] feerate; the side that does not pay the fee gets its balance of BOTH commitments within epsilon; a "
         "positive holder value goes to a present script that the wallet can spend under the path supplied for that output "
         "or that is allowlisted, and that equals the upfront shutdown script if one was fixed; the signed message is the "
         "digest of the canonical closing transaction (LDK's builder, modelled: positive outputs ordered by value then "
         "script, one input spending the funding outpoint, final sequence, version 2, lock time 0) for the channel value - "
         "in phase 1 for whichever of the two output assignments passed, and that transaction is the request's; afterwards "
         "the channel is closed in memory and in the store (C07_closed_persisted: a signature is returned only after the "
         "store acknowledged the write).  C07_accept_per_tag gives each conjunct for an arbitrary filter unless its own tag "
         "is downgraded.  The model is run against the real Validator (error tag, chosen assignment) and against real "
         "channels brought to their states by commitment updates, through both entry points - called directly and as "
         "SetupChannel / SignMutualCloseTx / SignMutualCloseTx2 protocol messages through the ChannelHandler - on every run; every returned "
         "signature is verified with libsecp256k1 against the BIP-143 digest of a closing transaction the harness assembles "
         "itself, and an independent u128 monitor evaluates the conjunction on every signature.  C07_feerate_estimate_is_source: the feerate estimate of the model IS the source's (estimate_feerate_per_kw translated on every run by tools/gen_rustfn.py into Gen/TxUtilGen.v and proved equal to the model's definition for every u64 fee and non-zero weight, both build profiles).  C07_close_rules_are_source: the validator IS the source's - SimpleValidator::validate_mutual_close_tx (whole body) with ::outside_epsilon_range and CommitmentInfo2::htlcs_is_empty is translated statement by statement on every run (Gen/MutualCloseGen.v; validate_fee is the translation of Gen/CommitmentPolicyGen.v; the wallet's answers, the policy filter and the weight of LDK's closing transaction are parameters, the weight instantiated with the model's close_weight) and proved equal to the model's validate_mutual_close on the abstraction of every source-level value, for every wallet, filter and both build profiles, tags and panics included (side condition: the values fit u64; decode_and_validate_mutual_close_tx is not translated).",
    design="§4 C07",
    note=lib.TB + "Additionally trusted: tools/gen_rustfn.py and the meaning Base/Rust.v gives to the Rust constructs it reads.  Side condition stated in the theorem: max_feerate_per_kw < u32::MAX (u32::MAX means no maximum, "
         "C07_max_feerate_u32max_is_unlimited).  Modelled, not verified: LDK's ClosingTransaction builder and rust-bitcoin's "
         "transaction weight (both compared with the model on every run by the `build` cases), BIP-143 digest and ECDSA "
         "(parameters of the theorem; exercised by real verification), the wallet's can_spend / allowlist_contains (oracle "
         "parameters; the monitor uses the harness's own record of derived and allowlisted scripts).",
    technique="Coq proof (implication over unbounded integers and all wallets/allowlists/signature schemes) + vm_compute "
              "correspondence with the Rust validator and with real channels + signature verification + u128 monitor",
)

PINNED = ["C07_accept_phase1", "C07_accept_phase2", "C07_accept_per_tag", "C07_signature_validated",
          "C07_closed_persisted", "C07_unsigned_store_unchanged", "C07_canonical_close", "C07_fee_window_equiv",
          "C07_nonvacuous_phase2", "C07_nonvacuous_phase1_second_attempt"]

IMPORTS = ["Model.MutualCloseCheck"]


def _strip(c):
    return {k: v for k, v in c.items() if k != "coq"}


def _script_form(h):
    if h.startswith("5120") and len(h) == 68:
        return "p2tr"
    if h.startswith("0014") and len(h) == 44:
        return "p2wpkh"
    if h.startswith("0020") and len(h) == 68:
        return "p2wsh"
    if h.startswith("a914") and len(h) == 46:
        return "p2sh"
    return "other"


def _upfront_cov(cases):
    d = {}
    for c in cases:
        up = c["setup"]["holder_shutdown_script"]
        if not up:
            continue
        k = d.setdefault("%s/%s" % (c["channel_set_up_by"], _script_form(up)), [0, 0, 0, 0])
        to_up = c["intent"]["holder_script"] == "upfront"
        k[0 if to_up else 2] += 1
        if c["channel_code"] == 0:
            k[1 if to_up else 3] += 1
    return d


def _count_events(cases, what):
    n = 0
    for c in cases:
        n += len([e for e in c["history"]["events_before"] if e == what])
    return n


def _routes(cases):
    d = {}
    for c in cases:
        k = d.setdefault("%s/phase%d/setup-%s" % (c["route"], c["phase"], c["channel_set_up_by"]), [0, 0])
        k[0] += 1
        k[1] += 1 if c["channel_code"] == 0 else 0
    return d


def _entry(c):
    if c["route"] == "direct":
        return "sign_mutual_close_tx" if c["phase"] == 1 else "sign_mutual_close_tx_phase2"
    return "ChannelHandler::handle(%s), protocol %s" % (c["wire"]["message"], c["route"][6:])


def _wallet_dist(cases):
    d = {}
    for c in cases:
        for w in c["wallet_answers"]:
            k = "%s/%s" % (w["can_spend"], w["allowlisted"])
            d[k] = d.get(k, 0) + 1
    return d


def run(res):
    quick = res.tier == "quick"
    # the translator regenerates Gen/TxUtilGen.v from /repo's transaction_utils.rs under the build lock, right before
    # the theorem that relates it to the model's feerate estimate is re-checked
    tx_report = {}

    def regen():
        tx_report.update(gen_rustfn.generate_txutil(lib.REPO))
        stage["at"] = "close"
        # Gen/MutualCloseGen.v (validate_mutual_close_tx, outside_epsilon_range, htlcs_is_empty) over the records and the
        # validate_fee of Gen/CommitmentPolicyGen.v
        tx_report["commitment_policy"] = gen_rustfn.generate_commitment_policy(lib.REPO)["translated"]
        tx_report["mutual_close"] = gen_rustfn.generate_mutual_close(lib.REPO)
    stage = {"at": "txutil"}
    try:
        lib.proof_stage(res, "C07.v", "Props.C07", PINNED + ["C07_feerate_estimate_is_source", "C07_close_rules_are_source"],
                        pre=regen)
    except gen_rustfn.GenError as e:
        if stage["at"] == "txutil":
            res.violation("the translator cannot read estimate_feerate_per_kw (a construct outside its fragment): %s" % e,
                          {"translator": "tools/gen_rustfn.py", "source": "vls-core/src/util/transaction_utils.rs",
                           "error": str(e), "theorem": "C07_feerate_estimate_is_source"}, has_input=False)
        else:
            res.violation("the translator cannot read validate_mutual_close_tx / outside_epsilon_range / validate_fee or a "
                          "declaration or helper they use (a construct outside its fragment): %s" % e,
                          {"translator": "tools/gen_rustfn.py",
                           "source": "vls-core/src/policy/simple_validator.rs (+ tx/tx.rs, policy/validator.rs, channel.rs, "
                                     "wallet.rs, policy/error.rs, util/transaction_utils.rs)",
                           "error": str(e), "theorem": "C07_close_rules_are_source"}, has_input=False)
    res.coverage["translated_from_source"] = tx_report
    ok, out = lib.build_coq(["theories/Model/MutualCloseCheck.vo"])
    if not ok:
        raise lib.Fail("Model/MutualCloseCheck.v does not build:\n" + out[-2000:])
    cov = res.coverage
    profiles = ["debug"] if quick else ["debug", "release"]
    n_chan = 260 if quick else 1500
    n_build = 400 if quick else 4000
    cases, stats, setups = [], [], []
    for prof in profiles:
        r = lib.run_harness("close", "run", res.seed, n_chan, res.tier, profile=prof)
        cases += r.get("CASE", [])
        stats += r.get("STATS", [])
        setups += r.get("SETUP", [])
    r = lib.run_harness("close", "build", res.seed, n_build, res.tier)
    builds = r.get("CASE", [])
    stats += r.get("STATS", [])

    p1 = [c for c in cases if c["phase"] == 1]
    p2 = [c for c in cases if c["phase"] == 2]
    # small case files: Coq's parsing of long list literals is superlinear
    sh = lambda xs: max(1, (len(xs) + 199) // 200)
    f1 = lib.coq_failures(IMPORTS, "close1_case", "check_close1", [c["coq"] for c in p1], "c07_p1", shards=sh(p1))
    f2 = lib.coq_failures(IMPORTS, "close2_case", "check_close2", [c["coq"] for c in p2], "c07_p2", shards=sh(p2))
    fb = lib.coq_failures(IMPORTS, "build_case", "check_build", [c["coq"] for c in builds], "c07_build", shards=sh(builds))
    # coverage probe: phase-1 requests accepted by the second ("unlikely") assignment
    p1_signed = [c for c in p1 if c["channel_code"] == 0]
    second = lib.coq_failures(IMPORTS, "close1_case", "first_attempt_or_refused", [c["coq"] for c in p1_signed], "c07_second",
                               shards=sh(p1_signed))

    # the property itself on the implementation's answers
    mon = [c for c in cases if c["monitor_violation"]]
    for c in mon[:3]:
        res.violation("a cooperative close was signed outside the property: " + "; ".join(c["monitor_violation"][:3]),
                      {"domain": "close-run", "seed": res.seed, "entry_point": _entry(c), "case": _strip(c)})
    # SetupChannel messages: what the channel holds against what the message said; the upfront clause
    bad_setups = [x for x in setups if x["monitor_violation"] or x["mapping_violation"]]
    for x in bad_setups[:2]:
        res.violation("SetupChannel message through the protocol handler: " +
                      "; ".join(x["monitor_violation"] + ["field not carried into the channel: " + m for m in x["mapping_violation"]]),
                      {"domain": "close-run", "seed": res.seed, "entry_point": "ChannelHandler::handle(SetupChannel)", "case": x})
    # the signer's allowlist against the operator's record (initial + adds - removes, or the last replacement)
    diverge = [c for c in cases if c["allowlist_diverges"]]
    if diverge and not mon:
        c = diverge[0]
        res.violation("the signer's allowlist differs from the operator's record of it: " + "; ".join(c["allowlist_diverges"][:2]),
                      {"domain": "close-run", "case": _strip(c)}, has_input=False)
    ledger_bad = [c for c in cases if not c["ledger_matches_state"]]
    for c in ledger_bad[:1]:
        res.violation("the harness's record of accepted commitments differs from the signer's current commitments "
                      "(harness error or a commitment update that did not do what it answered)",
                      {"domain": "close-run", "case": _strip(c)}, has_input=False)
    shown = 0
    for (fl, cs, name, model) in ((f1, p1, "sign_mutual_close_tx / decode_and_validate_mutual_close_tx", "close1_model"),
                                  (f2, p2, "sign_mutual_close_tx_phase2 / validate_mutual_close_tx", "close2_model")):
        for i in fl:
            c = cs[i]
            if c["monitor_violation"] and mon:
                continue   # already reported with its input
            if shown >= 3:
                break
            shown += 1
            m = lib.coq_eval(IMPORTS, "%s (%s)" % (model, c["coq"]), "c07_show")
            res.violation("%s disagrees with Model.MutualClose (correspondence close-run); observation = (validator code "
                          "[0 ok, 1 panic, 100+tag], [chosen assignment,] channel code [0 signed, 1 panic, 2 refused, 3 invalid "
                          "argument, 4 internal], transaction the signature verifies against, state in memory, state in the "
                          "store)" % name,
                          {"correspondence": "close-run", "theorem": "C07_accept_phase%d" % c["phase"], "case": _strip(c),
                           "model": m[-1500:]}, has_input=False)
    for i in fb[:2]:
        c = builds[i]
        m = lib.coq_eval(IMPORTS, "build_model (%s)" % c["coq"], "c07_show")
        res.violation("LDK's ClosingTransaction / rust-bitcoin's weight disagree with canon_close / close_weight "
                      "(correspondence close-build)",
                      {"correspondence": "close-build", "theorem": "C07_canonical_close", "case": _strip(c),
                       "model": m[-1500:]}, has_input=False)
    hb = [c for c in builds if not c["harness_builder_agrees"]]
    for c in hb[:1]:
        res.violation("the harness's own closing-transaction builder disagrees with LDK's (the monitor's reference is off)",
                      {"correspondence": "close-build", "case": _strip(c)}, has_input=False)

    signed = [c for c in cases if c["channel_code"] == 0]
    # non-trivial: a request that was signed, or one refused by the validator proper (not by a malformed
    # transaction / argument) - distinct by full Coq term
    nontrivial = {c["coq"] for c in cases if c["channel_code"] == 0 or 100 <= c["validator_code"] <= 106}
    dist = {}
    for c in cases:
        k = "v%d/c%d" % (c["validator_code"], c["channel_code"])
        dist[k] = dist.get(k, 0) + 1
    kinds = {}
    for c in cases:
        k = kinds.setdefault(c["kind"], [0, 0])
        k[0] += 1
        k[1] += 1 if c["channel_code"] == 0 else 0
    cov.update({
        "evaluations": len(cases) + len(builds),
        "distinct_nontrivial": len(nontrivial),
        "rule": "run: per channel a policy (min/max feerate incl. 100000 and u32::MAX, epsilon 0..1.6M, filter rule sets), a "
                "setup (funder/fundee, channel value 1e5..5e9, pushed value, upfront script wallet/allowlisted/none), then real "
                "commitment updates (initial holder + counterparty commitments, 0-3 payment rounds with the counterparty's "
                "version skewed by 0, +-1, +-eps, +-(eps+1), eps/2; HTLCs either way; validated-but-not-revoked and "
                "missing-commitment states; restarts from the store), then 8-19 close requests with the allowlist (script, "
                "xpub) edited in between: the non-fee-payer's value at both commitments +-eps +-1, 0, far; fee at the edges of "
                "the window of the exact weight (lo-1, lo, lo+1, hi-2, hi-1, hi, hi+1, 0, commitment fee); payer-gets-nothing "
                "and single / zero output forms; u64 overflow candidates; holder script wallet (p2wpkh, p2sh-p2wpkh, p2tr) "
                "with right / wrong / empty / over-long path, xpub-derived, foreign allowlisted or not, upfront, empty, 260 "
                "bytes; phase 1 additionally swapped outputs / paths, 0-3 outputs, path count off by one, version, lock time, "
                "sequence, outpoint, extra input, script_sig, witness, zero-value and duplicated outputs; the store refusing "
                "the write in 1 of 14.  The signer is started and restarted the daemon's way (HandlerBuilder with a mostly non-empty "
                "configured initial allowlist on the same store, HsmdInit, root / channel handler) or by restore_node; the allowlist is "
                "edited at run time by add / remove / set; in 2 of 5 channels an entry is taken off the list, the signer restarted and "
                "closes paying the holder there requested.  'Allowlisted' in the model input and in the monitor is the harness's own "
                "record of the operator's list (initial + adds - removes, or exactly the last replacement; restarts change nothing), "
                "never the node's answer.  The upfront shutdown script takes every form a SetupChannel message can carry (none; wallet "
                "p2wpkh / p2sh-p2wpkh / p2tr; somebody else's p2wpkh / p2wsh / p2tr; allowlisted before the set-up or not) and "
                "the model's holder_shutdown_script and the monitor's upfront clause are the harness's record of what was SENT, not "
                "the signer's stored setup; closes then pay the upfront script (3 of 5) or another wallet / allowlisted / foreign one.  "
                "Half of the channels are set up by a SetupChannel message and half of the requests travel "
                "as SignMutualCloseTx (tx + PSBT whose outputs carry the paths as bip32_derivation or tap_key_origins, own "
                "unsigned tx resized / perturbed, arbitrary remote_funding_key and scripts) or SignMutualCloseTx2 messages, encoded "
                "with as_vec, decoded with from_vec and handled by the ChannelHandler at protocol 4/5/6; the model request and "
                "the monitor's facts come from an independent statement of what each wire field means, not from the channel.  "
                "build: LDK builder + rust-bitcoin weight on script lengths 0..300 and values 0, 1, "
                "equal, 2^64-1.  Non-trivial = signed, or refused by one of the validator's own policy checks; distinct by "
                "full Coq term.",
        "samples": [_strip(signed[0]) if signed else None, _strip(cases[1]) if len(cases) > 1 else None,
                    _strip(builds[0]) if builds else None],
        "traces_validated_against_impl": len(cases) + len(builds),
        "correspondence_disagreements": len(f1) + len(f2) + len(fb),
        "disagreements_by_domain": {"phase1": len(f1), "phase2": len(f2), "build": len(fb)},
        "monitor_failures": len(mon),
        "signatures_returned_and_verified": len([c for c in signed if c["signature_verified_against"]]),
        "signatures_returned": len(signed),
        "observed_distribution(validator/channel code)": dist,
        "request_kinds(requests, signed)": kinds,
        "routes(requests, signed)": _routes(cases),
        "setup_channel_messages": {"sent": len(setups), "accepted": len([x for x in setups if x["accepted"]]),
                                   "with_upfront_script": len([x for x in setups if x["message"]["local_shutdown_script"]]),
                                   "with_upfront_script_accepted": len([x for x in setups if x["message"]["local_shutdown_script"] and x["accepted"]]),
                                   "mapping_or_monitor_failures": len(bad_setups)},
        "allowlist_divergences": len(diverge),
        "restarts_in_histories": _count_events(cases, "restart (HandlerBuilder)"),
        "closes_to_a_script_taken_off_the_allowlist(requests, signed)": [
            len([c for c in cases if c["intent"]["holder_script"] == "taken-off-the-allowlist"]),
            len([c for c in cases if c["intent"]["holder_script"] == "taken-off-the-allowlist" and c["channel_code"] == 0])],
        "closes_on_channels_with_an_upfront_script(set-up route/form: [to upfront, signed, to another script, signed])":
            _upfront_cov(cases),
        "phase1_signed": len(p1_signed),
        "phase1_signed_by_second_attempt": len(second),
        "wallet_answers(can_spend/allowlisted)": _wallet_dist(cases),
        "profiles": profiles,
        "harness_stats": stats,
    })
    res.assumptions = [
        "max_feerate_per_kw < u32::MAX (u32::MAX = no maximum) - a premise of the theorem",
        "BIP-143 digest and ECDSA are parameters of the theorem (every returned signature is verified for real)",
        "can_spend / allowlisted are oracle parameters: the theorem holds for every wallet and allowlist; the "
        "correspondence records the wallet's real can_spend answers and takes 'allowlisted' from the harness's own record of "
        "the operator's allowlist",
        "LDK's ClosingTransaction builder and rust-bitcoin's weight are modelled (compared on every run)",
        "sign_closing_transaction of LDK does not fail (modelled as total)",
        "the correspondence is differential testing: bounded by the generator described in coverage.rule",
    ]
