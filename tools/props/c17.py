"""C17 — externally stored state is authenticated against tampering, swapping and replay."""
import hashlib, hmac as pyhmac, json, os, re
from concurrent.futures import ThreadPoolExecutor
import lib

MANIFEST = dict(
    text="Coq theorems over the exact byte strings that are MACed (Model/Hmac.v: key||be64 version||value; "
         "secret||nonce||records; HMAC a parameter, injectivity a premise): C17_binding_outside_known (two different "
         "(nonce, record list) inputs whose fields have the same extents never share a tag), "
         "C17_fetched_value_is_what_was_written / C17_unmodified_value_bound_to_key_and_version / "
         "C17_value_bitflip_rejected (stored values), C17_fresh_nonce / C17_replayed_response_rejected / "
         "C17_client_server_separated, C17_replayed_reply_refused_in_fresh_history (premise nonces_fresh: every read "
         "nonce of a client is 32 bytes and not used before in the history; evaluated in Coq on the nonces the harness "
         "observes on the wire), C17_init_state_accepted_reply_is_authenticated / "
         "C17_init_state_empty_reply_is_authenticated (start-up read of vls-util init_state: a reply, also one without "
         "records, is accepted only with the tag the server made for exactly that list under this read's nonce; compared "
         "with the real init_state on genuine, replayed and hop-modified replies), C17_returned_records_are_tagged / "
         "C17_signed_version_binding (records coming back to PrivClient::get and in put conflicts, versions i64 of either "
         "sign: nothing is handed back without its own record tag; compared with the real client against a storage server "
         "that fabricates records under correct reply tags), C17_same_shape_modification_detected, C17_truncation_detected, and "
         "C17_collisions_are_known (every collision of the MACed bytes is one of three framing classes).  The "
         "property at full strength is false of the code (nothing is length-delimited): C17_refuted_* give the "
         "witnesses, which the harness replays on the real ExternalPersistHelper / compute_shared_hmac / "
         "prepare_value_for_put / process_value_from_get (equal tags for different inputs -> KNOWN-FINDING per "
         "class listed in KNOWN_FINDINGS.json).  Correspondence on every run: the bytes the model serialises "
         "(vm_compute) through a reference HMAC-SHA256 must equal the tags / stored bytes / accept-reject answers of "
         "the real functions; a monitor applies bit flips, swaps, truncations, reorderings, replays, merges, splits "
         "and boundary shifts to random inputs and requires rejection, classifying every accepted one; the client read "
         "paths (PrivClient::get, Client::get via vls-frontend's lss client, ExternalPersistHelper::new_nonce/check_hmac, "
         "vls-util init_state as called by vlsd's signer) run against an in-process tonic storage service behind a "
         "recording/replaying man in the middle: nonces 32 bytes and pairwise distinct, replayed and other-nonce replies "
         "refused, genuine replies accepted.",
    design="§4 C17, §5 F6",
    note=lib.TB + "Idealisation: HMAC-SHA256 is injective on its message for a fixed key (premise of the binding theorems; the "
         "refutations need no premise); unforgeability is not expressed.  Modelled, not verified: bitcoin_hashes "
         "HmacEngine, tonic transport; the storage service in the harness is an in-memory stand-in for lssd (same tag "
         "computation through the library's compute_shared_hmac); vlsd's private make_external_persist glue is "
         "replicated (keys manager persistence key + ECDH), init_state itself is the real one; unpredictability of "
         "the nonce source is not checked (only length and non-repetition over the run); the 'crypt' feature of the "
         "storage client (off in vls-frontend/vlsd) is not exercised.",
    technique="Coq proof (injectivity of serialisations by induction over record lists) + vm_compute correspondence "
              "with the Rust implementation + refutation witnesses replayed on the implementation",
)

PINNED = ["C17_accepted_value_is_tagged", "C17_value_binding_outside_known", "C17_fetched_value_is_what_was_written",
          "C17_unmodified_value_bound_to_key_and_version", "C17_value_bitflip_rejected", "C17_binding_outside_known",
          "C17_known_classes", "C17_collisions_are_known", "C17_same_shape_modification_detected",
          "C17_truncation_detected", "C17_fresh_nonce", "C17_replayed_response_rejected",
          "C17_client_server_separated", "C17_reply_for_other_nonce_refused",
          "C17_replayed_reply_refused_in_fresh_history", "C17_stale_reply_accepted_without_fresh_nonce",
          "C17_init_state_accepts_only_tagged", "C17_init_state_accepted_reply_is_authenticated",
          "C17_init_state_empty_reply_is_authenticated", "C17_init_state_nonvacuous",
          "C17_returned_records_are_tagged", "C17_short_record_never_returned", "C17_signed_version_binding",
          "C17_negative_version_nonvacuous",
          "C17_refuted_value_key_version_shift", "C17_refuted_set_key_version_shift",
          "C17_refuted_set_merge_split", "C17_refuted_nonce_key_shift", "C17_refuted_put_tag_answers_read",
          "C17_set_binding_refuted", "C17_nonvacuous"]

CLASSES = {0: "none", 1: "nonce-key-boundary-shift", 2: "key-version-boundary-shift", 3: "record-merge-split"}
CLASS_THEOREMS = {
    "nonce-key-boundary-shift": "C17_refuted_nonce_key_shift, C17_refuted_put_tag_answers_read",
    "key-version-boundary-shift": "C17_refuted_value_key_version_shift, C17_refuted_set_key_version_shift",
    "record-merge-split": "C17_refuted_set_merge_split",
}
WITNESS_CLASS = {1: "key-version-boundary-shift", 2: "record-merge-split", 3: "nonce-key-boundary-shift",
                 4: "nonce-key-boundary-shift"}
FALLBACK = os.path.join(lib.ROOT, "notes", "fixes", "C17-known-findings.json")


def listed_classes():
    """classes listed for C17 in KNOWN_FINDINGS.json; until the coordinator has merged them, the proposed file"""
    fs = lib.known_findings("C17")
    src = "KNOWN_FINDINGS.json"
    if not fs and os.path.exists(FALLBACK):
        data = json.load(open(FALLBACK))
        fs = [f for f in data.get("findings", []) if f.get("property") == "C17" and f.get("status") == "known"]
        src = "notes/fixes/C17-known-findings.json (proposed; fallback)"
    return {f.get("class") for f in fs if f.get("class")}, src


def coq_answers(terms, name):
    """[hquery t for t in terms] evaluated inside Coq (vm_compute), as lists of byte strings"""
    if not terms:
        return []
    shards = min(lib.NCPU, max(1, len(terms) // 40))
    size = (len(terms) + shards - 1) // shards
    chunks = [terms[i:i + size] for i in range(0, len(terms), size)]

    def one(arg):
        k, ts = arg
        body = "From VLS Require Import Model.HmacCheck.\n"
        body += "Definition cases : list hcase := [\n%s\n]%%list.\n" % ";\n".join(ts)
        body += "Eval vm_compute in (map hquery cases).\n"
        rc, out = lib.coqc_snippet(body, "%s_%d" % (name, k), timeout=900)
        if rc != 0:
            raise lib.Fail("case file %s_%d did not compile:\n%s" % (name, k, out[-3000:]))
        m = re.search(r"=\s*(\[.*\])\s*:\s*list \(list bytes\)", out, flags=re.S)
        if not m:
            raise lib.Fail("could not parse Coq answer:\n" + out[-2000:])
        txt = re.sub(r"%N|%list|\s", "", m.group(1)).replace(";", ",")
        res = json.loads(txt)
        if len(res) != len(ts):
            raise lib.Fail("Coq answered %d cases for %d terms" % (len(res), len(ts)))
        return [[bytes(b) for b in row] for row in res]

    with ThreadPoolExecutor(max_workers=lib.NCPU) as ex:
        parts = list(ex.map(one, enumerate(chunks)))
    return [r for p in parts for r in p]


def reference_tags(pairs, seed, tier):
    """HMAC-SHA256 of the model's messages: the harness' reference (bitcoin_hashes, one input of the whole
    message) cross-checked against Python's hmac/hashlib"""
    d = os.path.join(lib.CACHE, "snip")
    os.makedirs(d, exist_ok=True)
    path = os.path.join(d, "c17_ref_%s_%d.json" % (tier, seed))
    json.dump([[k.hex(), m.hex()] for k, m in pairs], open(path, "w"))
    recs = lib.run_harness("hmac", "ref", seed, 0, tier, extra=[path])
    tags = [bytes.fromhex(t) for t in recs["REF"][0]["tags"]]
    if len(tags) != len(pairs):
        raise lib.Fail("reference HMAC returned %d tags for %d messages" % (len(tags), len(pairs)))
    for (k, m), t in zip(pairs, tags):
        if pyhmac.new(k, m, hashlib.sha256).digest() != t:
            raise lib.Fail("the two reference HMAC-SHA256 implementations disagree on key=%s msg=%s" % (k.hex(), m.hex()))
    return tags


def strip(c):
    d = {k: v for k, v in c.items() if k != "coq"}
    if isinstance(d.get("ops"), list):
        d["ops"] = [{k: v for k, v in o.items() if k != "coq"} for o in d["ops"]]
    return d


def run(res):
    quick = res.tier == "quick"
    ok = lib.proof_stage(res, "C17.v", "Props.C17", PINNED)
    cov = res.coverage
    n_gen = 600 if quick else 12000
    n_mon = 120 if quick else 3000
    gen = lib.run_harness("hmac", "gen", res.seed, n_gen, res.tier)
    mon = lib.run_harness("hmac", "mon", res.seed, n_mon, res.tier)
    n_net = 60 if quick else 1500
    net = lib.run_harness("hmac", "net", res.seed, n_net, res.tier)
    sessions = net.get("NET", [])
    cases = gen.get("CASE", [])
    colls = mon.get("COLLISION", [])
    stats = [s for s in mon.get("STATS", []) if s.get("domain") == "hmac-mon"][0]
    listed, listed_src = listed_classes()

    # ---- the model's side: what it MACs and what it compares (evaluated inside Coq)
    answers = coq_answers([c["coq"] for c in cases], "c17_gen")
    pair_ans = coq_answers([c["coq"] for c in colls], "c17_pair")
    nonce_ans = coq_answers([c["coq"] for c in sessions], "c17_nonces")
    # the start-up read rule (init_state; new_nonce + get + check_hmac): every delivered reply of the helper paths
    init_reads = [(c, o) for c in sessions for o in c["ops"] if o["op"] == "read" and o.get("coq")]
    init_ans = coq_answers([o["coq"] for _, o in init_reads], "c17_init")
    # records coming back from a (forging) store: remove_and_check_hmacs over i64 versions
    open_ops = [(c, o) for c in sessions for o in c["ops"]
                if o["op"] in ("forged-get", "forged-conflict", "stale-put", "gap-put-new-key") and o.get("coq")]
    open_ans = coq_answers([o["coq"] for _, o in open_ops], "c17_open")
    open_items = []   # per op: list of None (short) | (key, msg, claimed tag, value)
    for a in open_ans:
        items, i = [], 0
        while i < len(a):
            if a[i] == b"\x00":
                items.append(None)
                i += 1
            else:
                items.append((a[i + 1], a[i + 2], a[i + 3], a[i + 4]))
                i += 5
        open_items.append(items)
    open_pairs = [(it[0], it[1]) for items in open_items for it in items if it]
    pairs = [(a[0], a[1]) for a in answers if a]
    init_pairs = [(a[0], a[1]) for a in init_ans]
    all_tags = reference_tags(pairs + init_pairs + open_pairs, res.seed, res.tier)
    tags = iter(all_tags[:len(pairs)])
    init_tags = all_tags[len(pairs):len(pairs) + len(init_pairs)]
    open_tags = iter(all_tags[len(pairs) + len(init_pairs):])

    # ---- correspondence: reference HMAC over the model's bytes vs. what the real functions returned
    bad = []
    reached = set()
    for c, a in zip(cases, answers):
        t = next(tags) if a else None
        kind = c["kind"]
        if kind == "shared":
            good = c["tag_core"] == t.hex() and c["tag_lss"] == t.hex() \
                and c["client"] in (None, t.hex()) and c["server"] in (None, t.hex())
            model = t.hex()
            reached.add(c["coq"])
        elif kind == "check":
            model = (a[2] == t)
            good = a[2].hex() == c["received"] and c["accepted"] == model
            if len(a[2]) == 32:
                reached.add(c["coq"])
        elif kind == "value":
            model = (a[2] + t).hex()
            good = c["stored"] == model
            reached.add(c["coq"])
        else:
            model = None if not a else (a[3].hex() if a[2] == t else None)
            good = c["result"] == model
            if a:
                reached.add(c["coq"])
        if not good:
            bad.append((c, model))

    # ---- the property itself on the implementation: accepted modifications, classified
    known = {}
    violations = []
    machinery = []
    for c, a in zip(colls, pair_ans):
        eq, cls, same, wit = a[0][0], CLASSES.get(a[1][0], "?"), a[2][0], a[3][0]
        if same:
            raise lib.Fail("harness reported a collision between identical inputs: %s" % json.dumps(strip(c))[:600])
        if c["class"] != cls or bool(eq) != c["bytes_equal"]:
            machinery.append(("harness and Coq classify a collision differently (harness %s/%s, Coq %s/%s)"
                              % (c["class"], c["bytes_equal"], cls, bool(eq)), c))
            continue
        if c["origin"].startswith("witness:") and int(c["origin"][8:]) != wit:
            machinery.append(("the harness replayed something else than witness %s of Model/HmacCheck.v" % c["origin"][8:], c))
            continue
        if not eq:
            violations.append(("two different inputs are accepted under one tag although the MACed bytes of the model "
                               "differ: outside every known collision class (modification: %s)" % c["origin"], c))
        elif cls not in listed:
            violations.append(("two different inputs are accepted under one tag (class %s, modification %s) and this "
                               "class is not listed in %s" % (cls, c["origin"], listed_src), c))
        else:
            known.setdefault(cls, []).append(c)
    # ---- reads over the wire: the client read paths behind a recording / replaying man in the middle;
    #      the premise of C17_replayed_reply_refused_in_fresh_history (nonces_fresh, evaluated in Coq on the
    #      nonces seen on the wire) and its conclusion, on the implementation
    NET_INPUT = {"forged-record-returned": "a record fabricated by the storage server (it has the shared secret, not the record "
                                           "secret) is handed back as data: content, key and version are not what the signer wrote",
                 "tampered-reply-accepted": "a reply modified by the hop between signer and storage is accepted: the accepted "
                                            "record list is not the one the server authenticated",
                 "replayed-reply-accepted": "a reply recorded at an earlier read is accepted as the answer to a later read",
                 "reply-under-other-nonce-accepted": "a reply made under another nonce than the one of the request is accepted",
                 "nonce-length": "a read request carries a nonce that is not 32 bytes long",
                 "nonce-reused": "a read request carries a nonce that this client used before",
                 "nonce-not-passed-through": "the nonce on the wire is not the one the caller handed to Client::get",
                 "genuine-reply-wrong-state": "an accepted genuine reply is not the current stored state"}
    net_reads = 0
    net_nontrivial = set()
    net_violations = []
    for c, a in zip(sessions, nonce_ans):
        coq_fresh = bool(a[0][0])
        reads = [o for o in c["ops"] if o["op"] == "read"]
        net_reads += len(reads)
        if any(o["reply"] != "genuine" for o in reads) and any(o["reply"] == "genuine" for o in reads):
            net_nontrivial.add(json.dumps(c["ops"], sort_keys=True))
        if coq_fresh != c["nonces_fresh"]:
            machinery.append(("harness and Coq (nonces_fresh) judge a nonce history differently", c))
        kinds = []
        for f in c["findings"]:
            if f["kind"] in NET_INPUT and f["kind"] not in kinds:
                kinds.append(f["kind"])
        if not coq_fresh and not any(k.startswith("nonce-") for k in kinds):
            kinds.append("nonce-reused")
        # the strongest first: an accepted replay is the rollback itself
        kinds.sort(key=lambda k: list(NET_INPUT).index(k))
        for k in kinds[:1]:
            f = sorted([f for f in c["findings"] if f["kind"] == k], key=lambda f: not f.get("rolled_back"))[:1]
            net_violations.append((0 if f and f[0].get("rolled_back") else 1, len(net_violations), ("%s (client path %s; premise nonces_fresh of C17_replayed_reply_refused_in_fresh_history "
                               "evaluates to %s on the nonces this client sent)" % (NET_INPUT[k], c["path"], str(coq_fresh).lower()),
                               dict(strip(c), finding=f[0] if f else None, origin="net:" + k,
                                    **{"class": c["path"] + ":" + k.split("-")[0]}))))
        for f in c["findings"]:
            if f["kind"] not in NET_INPUT:
                machinery.append(("the genuine reply of the storage service was not accepted / the read failed (%s, client path %s)"
                                  % (f["kind"], c["path"]), dict(strip(c), finding=f)))
    # init_state model vs code on every delivered reply (genuine, replayed, other nonce, tampered)
    init_bad = []
    for (c, o), a, t in zip(init_reads, init_ans, init_tags):
        model_accepts = (a[2] == t)
        code_accepts = (o["outcome"] == "accepted")
        if o["outcome"].startswith("error"):
            continue
        if model_accepts != code_accepts:
            init_bad.append((c, o, model_accepts))
    for c, o, m in init_bad[:2]:
        if not any(v[2][1].get("session") == c["session"] and v[2][1].get("path") == c["path"] for v in net_violations):
            w = ("the start-up read (client path %s) %s a reply that Model.Hmac.init_state %s: delivered %s for nonce %s "
                 "(reply kind %s)" % (c["path"], "accepts" if not m else "refuses", "refuses" if not m else "accepts",
                                      json.dumps(o["delivered"]), o["wire_nonces"][:1], o["reply"]))
            net_violations.append((0 if not m else 2, len(net_violations),
                                   (w, dict({k: v for k, v in strip(c).items() if k != "ops"}, read=strip(o),
                                            origin="net:init-state-model", **{"class": c["path"] + "/model"}))))
    # remove_and_check_hmacs model vs PrivClient::get / the conflict branch of PrivClient::put
    open_bad = []
    for (c, o), items in zip(open_ops, open_items):
        fail_at = None
        for i, it in enumerate(items):
            if it is None or next(open_tags) != it[2]:
                if fail_at is None:
                    fail_at = i
        out = o["outcome"]
        if out == "stored" or out.startswith("error"):
            if out.startswith("error"):
                machinery.append(("a forged / conflicting reply ended in an unexpected client error", dict(strip(c), read=strip(o))))
            continue
        if fail_at is None:
            model = [it[3].hex() for it in items]
            code = None if o["returned"] is None else [r[2] for r in o["returned"]]
            good = (code == model)
        else:
            k, v, _ = o["delivered"][fail_at]
            good = (out == "InvalidHmac:%s:%s" % (k.encode().hex(), v))
            model = "InvalidHmac at record %d (%s, %s)" % (fail_at, k, v)
        if not good:
            open_bad.append((c, o, model))
    for c, o, model in open_bad[:2]:
        if not any(v[2][1].get("session") == c["session"] and "forged" in v[2][1].get("origin", "") for v in net_violations):
            net_violations.append((2, len(net_violations),
                                   ("%s disagrees with Model.Hmac.remove_and_check_hmacs on the records %s: code %s / %s, model %s"
                                    % ("PrivClient::get" if o["op"] == "forged-get" else "PrivClient::put (conflict branch)",
                                       json.dumps(o["delivered"]), o["outcome"], json.dumps(o["returned"]), json.dumps(model)),
                                    dict({k: v for k, v in strip(c).items() if k != "ops"}, read=strip(o),
                                         origin="net:open-model", **{"class": c["path"] + "/open-model"}))))
    violations = [v for _, _, v in sorted(net_violations, key=lambda x: x[:2])] + violations
    for w in mon.get("WITNESS", []):
        if not w["collides"]:
            machinery.append(("refutation witness %d of Props/C17.v (%s) does not collide on the implementation: the "
                              "format changed and Model/Hmac.v must follow it" % (w["index"], WITNESS_CLASS[w["index"]]), w))
    for cls in sorted(listed):
        if cls in CLASS_THEOREMS and cls not in known:
            machinery.append(("known finding '%s' was not reproduced on the implementation by this run" % cls, {"class": cls}))
    for dgr in mon.get("DISAGREE", [])[:2]:
        violations.append(("the real verifiers (vls-core compute_shared_hmac, storage-client compute_shared_hmac, "
                           "ExternalPersistHelper) disagree whether a tag authenticates an input", dgr))
    for f in mon.get("FORGERY", [])[:2]:
        violations.append(("check_hmac accepts a malformed tag (%s) for a record list" % f["what"], f))
    if stats.get("honest_rejected"):
        machinery.append(("an unmodified value / record list was rejected by the real functions", {"count": stats["honest_rejected"]}))

    shown = set()
    for what, c in violations:
        key = (c.get("class"), c.get("bytes_equal"), c.get("origin", "").split(":")[0])
        if key in shown or len(shown) >= 8:
            continue
        shown.add(key)
        res.violation(what, {"domain": "hmac-net" if str(c.get("origin", "")).startswith("net:") else "hmac-mon",
                             "seed": res.seed, "case": strip(c)})
    if not violations:
        for c, model in bad[:3]:
            res.violation("the real function disagrees with HMAC-SHA256 over the bytes of Model/Hmac.v "
                          "(correspondence hmac-gen, kind %s)" % c["kind"],
                          {"correspondence": "hmac-gen", "case": strip(c), "model": model,
                           "theorem": "C17_binding_outside_known"}, has_input=False)
        for what, c in machinery[:3]:
            res.violation(what, {"domain": "hmac-mon", "seed": res.seed, "case": strip(c)}, has_input=False)

    for cls in sorted(known):
        ex = known[cls][0]
        res.known.append("class=%s pairs=%d (different inputs, one tag, on the real functions; e.g. %s: a=%s b=%s) "
                         "theorems=%s listed_in=%s"
                         % (cls, len(known[cls]), ex["origin"], json.dumps(ex["a"]), json.dumps(ex["b"]),
                            CLASS_THEOREMS[cls], listed_src.split(" ")[0]))

    tried = sum(stats["tried"].values())
    net_stats = [x for x in net.get("STATS", []) if x.get("domain") == "hmac-net"]
    cov.update({
        "evaluations": len(cases) + tried + net_reads,
        "distinct_nontrivial": len(reached) + len({c["coq"] for c in colls}) + len(net_nontrivial),
        "rule": "gen: per case a secret (0,1,31,32,33,64,65 bytes), nonce ([1],[2],empty,31,32,33 bytes, zeros), 0-5 "
                "records with UTF-8 keys (0,1,2,31,32,33,40-80 bytes, multi-byte chars, NUL), versions (0,1,255,256,2^32-1,"
                "2^32,2^63-1,2^63,2^64-2,2^64-1, ASCII-looking), values around SHA-256 block boundaries; kinds: shared tag "
                "(vls-core + storage client + client_hmac/server_hmac), check_hmac after 0-2 new_nonce calls with good / "
                "truncated / extended / stale / bit-flipped / other-domain tags, prepare_value_for_put, "
                "process_value_from_get on honest / short / mutated / re-framed bytes.  Non-trivial: the case reaches a tag "
                "comparison (stored >= 32 bytes, received tag of 32 bytes) or produces a tag; distinct by full input. "
                "mon: %d base inputs x the modifications listed in harness_stats.tried, each verified with every real "
                "verifier; every accepted modification is a distinct collision case counted here.  net: %d sessions "
                "(one client identity each) over PrivClient put/get, vls-frontend lss::Client + "
                "ExternalPersistHelper::new_nonce/check_hmac, and vls-util init_state (the composition of vlsd's signer), "
                "against an in-process tonic storage service behind a man in the middle; per session 6-12 operations from "
                "{put next versions, genuine read (also of a never-written store), read answered with a reply recorded at "
                "an earlier read, read forwarded under another nonce}, then one read per reply modification by the hop (drop "
                "all records with the old tag / no tag / the empty-state tag of another nonce, drop first/last, value bit, "
                "version, key swap, reorder, duplicate, tag bit, no tag, short tag), and on the PrivClient path a forging "
                "storage server (right reply tag, fabricated record: versions -1, -2, i64::MIN, i64::MAX, a never-written "
                "and an earlier version, a never-written key, another key; bytes of its choice, empty, 31 bytes, or the stored "
                "bytes of another entry) in get replies and in the conflict list of a refused put, plus honest conflicts, "
                "each a COpen case for Model.Hmac.remove_and_check_hmacs; every delivered reply of the helper "
                "paths is also a CInit case for Model.Hmac.init_state; non-trivial: the session has a genuine and an attacked read; distinct by operation "
                "list incl. the nonces sent (which come from the implementation's OS randomness, not from VERIF_SEED)"
                % (n_mon, n_net),
        "samples": [strip(cases[0]), strip(cases[1]), strip(cases[3])] + [strip(c) for c in colls[:2]]
                   + [strip(c) for c in sessions[:2]],
        "net_sessions": len(sessions),
        "net_reads_on_wire": net_reads,
        "net_nonce_histories_fresh_in_coq": sum(1 for a in nonce_ans if a[0][0]),
        "net_init_state_replies_compared_with_model": len(init_reads),
        "net_init_state_model_disagreements": len(init_bad),
        "net_forged_replies_compared_with_model": len(open_ops),
        "net_forged_replies_model_disagreements": len(open_bad),
        "observation_prefix_not_authenticated": "the reply tag does not cover the key prefix of the request: a hop that "
            "rewrites the prefix obtains the server's authentic 'no records' reply for the right nonce, and every client "
            "path accepts it (harness_stats hmac-net *:prefix-swapped:accepted); the reply does authenticate under the "
            "fresh nonce, so this is outside the wording of C17 and is reported, not judged",
        "traces_validated_against_impl": len(cases),
        "correspondence_disagreements": len(bad),
        "monitor_modifications_tried": tried,
        "monitor_collisions": len(colls),
        "monitor_collisions_by_class": {k: len(v) for k, v in known.items()},
        "monitor_failures": len(violations),
        "machinery_failures": len(machinery),
        "known_classes_listed": sorted(listed),
        "known_classes_source": listed_src,
        "harness_stats": gen.get("STATS", []) + mon.get("STATS", []) + net_stats,
    })
    res.assumptions = [
        "HMAC-SHA256 with a fixed key is injective on its message (idealisation; premise InjectiveMac of the binding "
        "theorems; the refutations hold for every MAC)",
        "a tag 'the signer produced' is modelled as a value of the mac function; unforgeability is not expressed",
        "read nonces are fresh (32 bytes, not used before by this client in this history): premise nonces_fresh of "
        "C17_replayed_reply_refused_in_fresh_history, evaluated in Coq on the nonces observed on the wire in this run "
        "(bounded by the sessions run; unpredictability of the nonce source is not checked)",
        "versions are u64 (vls-core) / the same 64 bits as i64 (storage client)",
        "the correspondence is differential testing: bounded by the generator described in coverage.rule",
        "the storage client's util.rs is built without the 'crypt' feature, as vls-frontend / vlsd / vls-proxy build it",
    ]
