"""C13 — the chain tracker follows only validated blocks and rejects atomically."""
import lib

MANIFEST = dict(
    text="Coq theorems over every start state and every sequence of add_block / remove_block / block_chunk requests "
         "(Forall over the steps of the history): C13_advance_only_valid (an accepted request moved tip/height/window by "
         "exactly one block that links, meets its proof-of-work oracle, passes the modelled retarget arithmetic "
         "(compact<->target, min/max transition, chain maximum, equal bits off the boundary, testnet rules) and whose "
         "TXOO proof verified with attestations of at least half of the trusted oracles, or the previous filter header "
         "is all zero / the policy filter downgrades the tag), C13_proof_or_documented_bypass, C13_quorum_counts_distinct_oracles (the quorum depends only on the set of "
         "attesting keys: repeated attestations of one oracle count once), C13_reject_atomic (Err => "
         "persisted image identical, whole state = state before minus the refused stream), C13_later_request_succeeds "
         "(after any refusal a correct compact add/remove and a correct streamed add are accepted), C13_no_stale_decode "
         "and C13_window_linked (invariants by induction over histories); C13_old_remove_refuted and "
         "C13_old_streamed_refuted show that the code before the repairs violates them.  The model is run against a real "
         "ChainTracker<ChainMonitor> (and, in the handler sub-domain, RootHandler AddBlock/RemoveBlock/BlockChunk) on "
         "every run: mined regtest headers, real TxoProofs and schnorr attestations, defective variants of every check, "
         "window sizes 0..100, heights around the retarget interval and the u32 edge, and -- in the handler sub-domain, a whole "
         "signer over a KVV store on Regtest and on Testnet (compiled-in checkpoints) -- restarts from the store between requests "
         "(model: a restart moves nothing unless the tracker is still at height 0 on a network with a checkpoint; monitor: the "
         "restarted tracker equals the stored entry and the correct next block is accepted); the ChainTrackerEntry image is "
         "compared with the model after every call and with its own pre-image after every Err.",
    design="§4 C13, §5 F2",
    note=lib.TB + "Oracle inputs computed with the real verifiers (not modelled): Header::validate_pow, TxoProof::verify "
         "against the forward/reverse watches, TxoProof::filter_header, attestation keys, the channel monitors' answers "
         "(on copies of their state).  Not exercised: the testnet 20-minute branch (needs a header at the testnet "
         "maximum target).  Streams always carry header+tx count in their first chunk.",
    technique="Coq proof (per-step lemmas lifted to all histories, invariants by induction) + vm_compute correspondence with the Rust implementation",
)

PINNED = ["C13_advance_only_valid", "C13_proof_or_documented_bypass", "C13_quorum_counts_distinct_oracles",
          "C13_repeated_attestation_refused", "C13_reject_atomic",
          "C13_later_request_succeeds", "C13_no_stale_decode", "C13_window_linked",
          "C13_nonvacuous", "C13_old_remove_refuted", "C13_old_streamed_refuted"]

# the two defects of the unrepaired tree, recognisable by which variant of the model the
# implementation agrees with and by the class recorded by the harness monitors
CLASS_POP = "remove-window-popped-before-validation"
CLASS_STREAM = "streamed-reject-stale-decode"
CLASS_RESTART = "restart-moves-the-tracker"


def _strip(c):
    return {k: v for k, v in c.items() if k != "coq"}


def _classify(c):
    """class of a monitor hit: the window shortened by a refused removal, or the stale decode state"""
    cls = set()
    if c.get("restart_violations"):
        return {CLASS_RESTART}
    if c.get("invalid_accepted") or c.get("store_violations"):
        # whatever follows an accepted invalid block is a consequence of it
        return {"other"}
    for v in c.get("atomicity_violations", []):
        ch = v.get("changed", {})
        if v.get("request", "").startswith("remove") and set(ch) == {"headers"} and \
                ch["headers"]["remembered_after"] == ch["headers"]["remembered_before"] - 1:
            cls.add(CLASS_POP)
        else:
            cls.add("other")
    for v in c.get("later_request_violations", []):
        if v.get("class") == CLASS_STREAM or c.get("class") == CLASS_STREAM:
            cls.add(CLASS_STREAM)
        elif v.get("result") == "InvalidChain" and "remove" in str(v):
            cls.add(CLASS_POP)
        else:
            cls.add("other")
    if c.get("invalid_accepted") or c.get("store_violations"):
        cls.add("other")
    return cls


def run(res):
    quick = res.tier == "quick"
    lib.proof_stage(res, "C13.v", "Props.C13", PINNED)
    cov = res.coverage
    n_seq = 600 if quick else 12000
    n_hand = 120 if quick else 1500
    scripted = lib.run_harness("tracker", "scripted", res.seed, 1, res.tier)
    seq = lib.run_harness("tracker", "seq", res.seed, n_seq, res.tier)
    hand = lib.run_harness("tracker", "handler", res.seed, n_hand, res.tier)
    cases = scripted["CASE"] + seq["CASE"] + hand["CASE"]
    imports = ["Model.TrackerCheck"]
    tcases = [c for c in scripted["CASE"] if c["kind"] != "handler"] + seq["CASE"]
    hcases = [c for c in scripted["CASE"] if c["kind"] == "handler"] + hand["CASE"]
    fails = lib.coq_failures(imports, "tracker_case", "check_tracker", [c["coq"] for c in tcases], "c13_seq")
    hfails = lib.coq_failures(imports, "tracker_case", "check_handler", [c["coq"] for c in hcases], "c13_hand")
    known = {f.get("class"): f for f in lib.known_findings("C13")}

    # the property itself on the implementation's answers
    hits = [c for c in cases if c.get("atomicity_violations") or c.get("later_request_violations") or c.get("invalid_accepted")
            or c.get("store_violations") or c.get("restart_violations")]
    by_class = {}
    for c in hits:
        for k in _classify(c):
            by_class.setdefault(k, []).append(c)
    reported = 0
    for k, cs in sorted(by_class.items()):
        if k in known:
            res.known.append("%s (%d histories this run, e.g. %s)" % (known[k].get("what", k), len(cs), cs[0]["ops"][-3:]))
            continue
        c = min(cs, key=lambda x: len(x["ops"]))
        what = {
            CLASS_POP: "a refused remove_block shortened the remembered header window and the correct removal that followed was refused (implementation trace)",
            CLASS_RESTART: "a restart from the store moved the tracker (tip / height / remembered headers differ from the stored ones, "
                           "or the correct next block is refused after it) although no block was validated (implementation trace)",
            CLASS_STREAM: "after a refused streamed block the stream of the next correct block panics in the channel monitors: the refusal left their decode state behind (implementation trace)",
        }.get(k, "the tracker accepted an invalid block, changed state on a refusal, or the store disagrees with an acknowledged block (implementation trace)")
        res.violation(what, {"domain": "tracker-" + c["kind"], "seed": res.seed, "class": k, "histories_this_run": len(cs),
                             "case": _strip(c)})
        reported += 1

    # correspondence: a disagreement is explained when the implementation follows, on that
    # history, the model variant of a defect that is reported above with a concrete input (or
    # listed as known); anything else is reported by itself
    variants = (("(check_tracker_v true true)", {CLASS_POP}),
                ("(check_tracker_v false false)", {CLASS_STREAM}),
                ("(check_tracker_v true false)", {CLASS_POP, CLASS_STREAM}))
    accounted = (set(by_class) - {"other", CLASS_RESTART}) | set(known)
    explained, follows = set(), {}
    if fails:
        sub = [tcases[i]["coq"] for i in fails]
        for chk, classes in variants:
            bad = set(lib.coq_failures(imports, "tracker_case", chk, sub, "c13_var"))
            for k, i in enumerate(fails):
                if k not in bad:
                    follows.setdefault(i, sorted(classes))
                    if classes <= accounted:
                        explained.add(i)
    unexplained = [("seq", i) for i in fails if i not in explained] + [("handler", i) for i in hfails]
    for dom, i in unexplained[:3]:
        c = tcases[i] if dom == "seq" else hcases[i]
        diff = lib.coq_eval(imports, ("explain false true (%s)" if dom == "seq" else "explain_h (%s)") % c["coq"], "c13_show")
        res.violation("ChainTracker disagrees with Model.Tracker (correspondence tracker-%s)" % c["kind"],
                      {"correspondence": "tracker-" + c["kind"], "theorem": "C13_reject_atomic / C13_advance_only_valid",
                       "case": _strip(c), "first_difference (step, model, implementation)": " ".join(diff.split())[-1500:],
                       "implementation_follows_the_unrepaired_variant": follows.get(i) if dom == "seq" else None},
                      has_input=False)
    fails = fails + [len(tcases) + i for i in hfails]

    nontrivial = {c["coq"] for c in cases if c.get("nontrivial")}
    kinds = {}
    for c in cases:
        for op in c["ops"]:
            kinds[op[1]] = kinds.get(op[1], 0) + 1
    stats = scripted.get("STATS", []) + seq.get("STATS", []) + hand.get("STATS", [])
    cov.update({
        "evaluations": len(cases),
        "steps": sum(len(c["ops"]) for c in cases),
        "distinct_nontrivial": len(nontrivial),
        "rule": "seq: restored tracker with window 0,1,2,3,5,98,99,100 (the harness knows 3 more blocks below it), height at "
                "window, 0, 2013..2016, 4031, 2^32-2, 2^32-1 or random, regtest/testnet, 0-5 trusted oracles out of 8 (incl. a duplicated "
                "key), attestation lists with all trusted / exactly the quorum / one distinct oracle below the quorum padded with "
                "repeats of one attestation up to the quorum, trusted-untrusted mixes, random multisets, shuffled, policy filter from {default, warn policy-chain-validated, error policy-* ahead of the permissive rule, error "
                "policy-chain-validated ahead of warn *, warn policy-chain-validated ahead of error policy-*, error policy-chain-* "
                "ahead of unrelated / broader warn rules} (the first matching rule decides: the model's warn flag is what the filter "
                "does to the tag, the shadowed filters must behave exactly like the default one), deep reorgs allowed or not, tip / previous filter header zeroed, tip bits at, "
                "/2, /4, /8 of the parent, and in 1 of 5 cases a start right at a retarget (height k*2016-1 with the tip's target 2^5..2^10 "
                "below the chain maximum, or height k*2016 with the parent that far below and the tip eased / tightened by 2..16 against "
                "it: restored trackers are not re-validated) where half of the adds are first-of-period blocks with targets x2, x4, x4+1ulp, "
                "x8, x16, /2, /4, /4-1ulp, /8, around /4 of the previous one, 0-2 real channel monitors; 3-12 requests from {valid, streamed in 1-3 chunks, wrong "
                "prev, bad PoW, 9 other-bits variants (x/2..x*8, around x/4), proof for another block, proof hiding a spend, "
                "attestation for another previous filter header / height, bad signature, no attestation, mixed filter headers, "
                "full-block proof, external proof without stream, incomplete stream, stream of another block} x {add, remove} "
                "+ wrong supplied header / filter header, removal below the window; after every refusal the next request is a "
                "correct one.  A history is non-trivial when it has an accepted request, a refused one and an accepted correct "
                "request after a refusal; distinct by full request list.  handler: the same requests as wire messages to a signer over "
                "a MemoryKVVStore, half of them on Testnet (latest checkpoint at height 2862000, start heights 0 / small / 2013..2016 / "
                "4031 / 2^32-2..), with a restart from the store (HandlerBuilder::build -> Node::restore_node) before ~1 in 5 requests, "
                "followed by a correct request.",
        "samples": [_strip(cases[0]), _strip(seq["CASE"][0])] + ([_strip(hand["CASE"][0])] if hand["CASE"] else []),
        "result_distribution": kinds,
        "traces_validated_against_impl": len(cases),
        "correspondence_disagreements": len(fails),
        "correspondence_disagreements_explained_by_reported_class": len(explained),
        "monitor_failures": len(hits),
        "monitor_failures_by_class": {k: len(v) for k, v in by_class.items()},
        "harness_stats": stats,
    })
    res.assumptions = [
        "proof-of-work validity of a header, TxoProof::verify, TxoProof::filter_header and the monitors' (adds, removes) "
        "answers are inputs of the model, computed per request by the real code (bitcoin, txoo, ChainMonitor on a copy)",
        "block hashes / filter headers / outpoints are identities: distinct values get distinct identities (hash injectivity)",
        "a first BlockChunk carries at least header + transaction count (85 bytes)",
        "the correspondence is differential testing: bounded by the generator described in coverage.rule",
    ]
