"""C14 — channel monitors depend only on the current best chain."""
import lib

MANIFEST = dict(
    text="Coq theorems over the model of monitor::State / StateChange / the push listener / apply_forward_change / "
         "apply_backward_change / on_add_block_end / on_remove_block_end and of the tracker's watch bookkeeping: "
         "C14_undo (for every consistent chain and every block that extends it consistently, disconnecting the block "
         "right after connecting it restores the state, the watch set and the seen set, and does not abort), "
         "C14_best_chain (for every admissible history of connections and disconnections of any depth the monitor "
         "equals the one obtained by connecting only the surviving best chain; induction over histories), "
         "C14_no_abort (no connection or disconnection of an admissible history aborts), C14_best_chain_restarts "
         "(restarts anywhere change nothing: persist / restore), C14_chain_state (the ChainState handed to the validators "
         "is part of the view), C14_window (a disconnection is refused exactly below the creation height or more than "
         "MAX_REORG_SIZE = 100 below the highest block ever connected).  The model is run against a "
         "real channel's ChainMonitor on a real Node (through ChainTracker::add_block / remove_block / block_chunk and "
         "through the ChainListener interface; compact, watched and streamed proofs; signer restarts through the KVV "
         "persister on regtest and testnet; channels set up inside a streamed block; the edge of the header window) on "
         "the same block histories on every run, and implementation-side monitors (fresh replay of the best chain, no "
         "panic, no refusal inside the window, monitor height = tracker height = ChainState, recorded close = confirmed "
         "transaction, restart leaves the tracker untouched) check the property itself on the implementation's answers.",
    design="§4 C14",
    note=lib.TB + "Modelled, not verified: the classification of a transaction that spends the funding outpoint "
         "(decode_commitment_number, decode_commitment_tx, get_spendable_htlc_indices) is an oracle attached to the "
         "transaction; the block delivered on a disconnection is the one that was connected (C13's domain).",
    technique="Coq proof (invariants by induction over block histories) + vm_compute correspondence with the Rust implementation",
)

PINNED = ["C14_undo", "C14_best_chain", "C14_no_abort", "C14_nonvacuous", "C14_old_order_refuted",
          "C14_old_watch_deltas_refuted"]


def correspondence(res, sizes):
    """runs the harness sub-domains, evaluates the model on every case; returns (cases, failing indices)"""
    cases = []
    stats = []
    ok, out = lib.build_coq(["theories/Model/MonitorCheck.vo"])   # Props/C14.vo does not depend on it
    if not ok:
        raise lib.Fail("Model/MonitorCheck.v does not build:\n" + out[-3000:])
    for sub, n in sizes:
        out = lib.run_harness("monitor", sub, res.seed, n, res.tier)
        cases += out.get("CASE", [])
        stats += out.get("STATS", [])
    imports = ["Model.MonitorCheck"]
    fails = lib.coq_failures(imports, "mcase", "check_case", [c["coq"] for c in cases], "c14")
    return cases, fails, stats


def window_failures(cases):
    """the remembered-header count after every tracker-driven delivery against Model.Monitor.win_trace"""
    wc = [c for c in cases if c.get("wcoq")]
    bad = lib.coq_failures(["Model.MonitorCheck"], "wcase", "check_window", [c["wcoq"] for c in wc], "c14w")
    return wc, [wc[i] for i in bad]


def slim(c):
    return {k: v for k, v in c.items() if k != "coq"}


def run(res):
    quick = res.tier == "quick"
    lib.proof_stage(res, "C14.v", "Props.C14", PINNED)
    cov = res.coverage
    sizes = [("systematic", 260), ("random", 500), ("malformed", 260), ("burial", 3), ("window", 2), ("testnet", 40), ("midstream", 36)] if quick else \
            [("systematic", 100000), ("random", 12000), ("malformed", 4000), ("burial", 3), ("window", 2), ("testnet", 600), ("midstream", 300)]
    cases, fails, stats = correspondence(res, sizes)
    wcases, wfails = window_failures(cases)
    if any(c.get("max_reorg_size") != 100 for c in cases):
        res.violation("ChainTracker::MAX_REORG_SIZE is not the 100 of Model.Monitor.MAX_REORG_SIZE",
                      {"observed": sorted({c.get("max_reorg_size") for c in cases})}, has_input=False)
    imports = ["Model.MonitorCheck"]
    # the property itself, on the implementation's answers (fresh replay of the surviving chain, no panic)
    mon = [c for c in cases if c.get("monitor_violation")]
    mon.sort(key=lambda c: len(c["steps"]))
    kinds = {}
    for c in mon:
        kinds.setdefault(c["monitor_violation"]["what"], []).append(c)
    for what, cs in kinds.items():
        c = cs[0]
        res.violation(what + " (implementation trace, %d such histories in this run)" % len(cs),
                      {"domain": "monitor-" + c["driver"], "seed": res.seed, "case": slim(c)})
    if not mon:
        for i in fails[:3]:
            c = cases[i]
            model = lib.coq_eval(imports, "case_model repaired (%s)" % c["coq"], "c14_show")
            old = lib.coq_eval(imports, "check_case_unrepaired (%s)" % c["coq"], "c14_old")
            res.violation("ChainMonitor / tracker slot disagrees with Model.Monitor on a block history (correspondence monitor)",
                          {"correspondence": "monitor", "theorem": "C14_best_chain", "case": c, "model": model[-6000:],
                           "matches_model_of_unrepaired_code": "true" in old.split("=")[-1]},
                          has_input=False)
    if not mon:
        for c in wfails[:2]:
            model = lib.coq_eval(imports, "let '(r0, ops, _) := %s in win_trace (wstart r0) ops" % c["wcoq"], "c14w_show")
            res.violation("the number of headers the tracker remembers (ChainTracker::headers) disagrees with Model.Monitor.win_trace "
                          "(window of MAX_REORG_SIZE)", {"correspondence": "monitor-window", "theorem": "C14_window",
                          "case": slim(c), "model": model[-3000:]}, has_input=False)
    nontrivial = {c["coq"] for c in cases if c.get("nontrivial") and c.get("admissible")}
    agg = {}
    for s in stats:
        for k, v in s["stats"].items():
            agg[k] = agg.get(k, 0) + v
    sample = [slim(c) for c in cases if c.get("nontrivial")][:2]
    cov.update({
        "evaluations": len(cases),
        "distinct_nontrivial": len(nontrivial),
        "rule": "scenarios: holder / counterparty commitment x {0,1,2} HTLCs (offered/received, preimage known or not) x "
                "our output present or not, plus lockstep variants (holder and counterparty commitment with the same number and the "
                "mirrored HTLC set both held, either one confirms; close kind and claimable HTLC outputs predicted from how "
                "the confirmed transaction was built); systematic: every cut of the canonical sequences (funding, mutual close | "
                "double spends | commitment, sweep, HTLC spends, second-level spends, joint HTLC spend) into <= 4 blocks, "
                "then a reorg of depth 1..4 re-connecting the same blocks or their merge; random: walks over "
                "{connect a block of 0-4 fitting transactions, disconnect (runs <= 4)}; malformed: the same with "
                "double spends, a second close, a two-input close, children before parents, a commitment the signer "
                "has no info for, and a stream without block start; burial: is_done at depth 99/100/99; window: 103 blocks connected, MAX_REORG_SIZE-1 back and forward again, "
                "exactly MAX_REORG_SIZE back (all accepted, view of the first 3 blocks), one more (refused, nothing changes), "
                "with and without a restart; midstream: the channel is set up between two chunks of a streamed block that then connects (the code's behaviour, "
                "as modelled: the new monitor ignores the rest of that block and stays one block behind the tracker), is refused as an "
                "orphan, or belongs to a refused RemoveBlock - the monitor's own height and ChainState::current_height are compared with "
                "the tracker's height right after the set-up and after every delivery (in every tracker-driven case); "
                "testnet: signers on a network with compiled-in checkpoints, restarts at small non-zero heights "
                "(the tracker's tip / height / remembered headers must survive the restart), then disconnect the last block and connect a competing one; every tracker-driven case also checks ChainTracker::headers.len() after each "
                "delivery against the window model. Delivery "
                "compact (SPV part with every transaction), watched (SPV part with what the tracker's watch sets match, empty for "
                "unrelated blocks) or streamed, through the tracker or the listener interface; signer restarts (tracker, monitors "
                "and channel persisted through KVVPersister/JSON, Node::restore_node) anywhere in the tracker-driven histories. A case is non-trivial when it is "
                "admissible, contains a disconnection and at least two blocks; distinct by full history",
        "samples": sample,
        "traces_validated_against_impl": len(cases),
        "correspondence_disagreements": len(fails) + len(wfails),
        "window_traces_checked": len(wcases),
        "monitor_failures": len(mon),
        "harness_stats": agg,
    })
    res.assumptions = [
        "a restart restores exactly the persisted monitor State and ListenSlot (serde round trip; exercised on every restart step, C14_best_chain_restarts is stated over persist / restore)",
        "the block delivered on a disconnection is the block that was connected at that height (tracker validation, C13)",
        "the classification of a funding spend (commitment / mutual, our output, spendable HTLC outputs) is a function of the transaction and does not change between connection and disconnection",
        "chains are consistent: unique txids, no outpoint spent twice, inputs refer to earlier transactions only; the funding transaction spends the registered funding inputs (all checked as a boolean on every generated admissible history)",
        "the correspondence is differential testing: bounded by the generator described in coverage.rule",
    ]
