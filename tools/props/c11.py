"""C11 — every acknowledged state change is already durable."""
import lib
from props import sys_common

MANIFEST = dict(
    text="Coq theorems (Props/C11.v): after every request of every history the persisted enforcement state of a channel equals the "
         "memory image, so a restart between any two requests is invisible (C11_channel_state_is_durable, C11_restart_is_invisible; "
         "invariant mem = disk by induction, aborts modelled as crash + restart); at node level what a restart reads back (slots with "
         "forget flags, high-water mark, allowlist, approved invoices) is what the running signer has (C11_node_state_is_durable, "
         "each request modelled as its sequence of writes in code order); velocity controls from C12; over joint histories of the whole "
         "node (Props/Joint.v, J_C11_restart_is_invisible) every channel's memory image is its persisted image and a restart of the "
         "signer leaves every channel as it was.  On every run, after EVERY "
         "request (accepted or refused) of three domains a second signer is restored from a copy of nothing but the store and its "
         "fingerprint must equal the running signer's; a third of the node-level histories run on the transactional store "
         "(enter / prepare / cloud replica / commit, also with several requests in one transaction), with a signer restored "
         "between prepare and commit, after commit, and from the cloud copy alone.",
    design="§4 C11",
    note=lib.TB + "Crash points = after every request; torn writes inside a storage backend are outside the property's model (Persist "
         "interface level).  The store-level contract of the transactional backend itself (what prepare reports is what commit writes) is C16's theorem; "
         "here its effect on a restored signer is observed.",
    technique="Coq proof (mem = disk invariant by induction over histories) + restart-equivalence monitor and vm_compute correspondence on the Rust implementation",
)


def run(res):
    sys_common.run(res, "C11.v",
                   ["C11_channel_state_is_durable", "C11_restart_is_invisible", "C11_node_state_is_durable",
                    "C11_velocity_is_durable", "C11_nonvacuous"],
                   "C11", "a second signer restored from the store alone has the same fingerprint as the running one")
    # the same over joint histories of the whole node (Model/Joint.v)
    lib.extra_props_stage(res, "Joint.v", ["J_C11_restart_is_invisible"])
