"""Shared driver for C10 and C11: proof stage, then the node-level correspondence (nodeops) and the
snapshot monitors that run around every request in the nodeops, chan and pay domains."""
import lib

NODE_IMPORTS = ["Model.NodeOpsCheck"]


def run(res, props_file, pinned, tag, what):
    quick = res.tier == "quick"
    lib.proof_stage(res, props_file, "Props." + props_file[:-2], pinned)
    cov = res.coverage
    n_node = 160 if quick else 2500
    n_chan = 120 if quick else 1500
    n_pay = 80 if quick else 900
    node = lib.run_harness("nodeops", "run", res.seed, n_node, res.tier, timeout=3000)
    chan = lib.run_harness("chan", "run", res.seed + 7, n_chan, res.tier, profile="debug", timeout=3000)
    chan_rel = lib.run_harness("chan", "run", res.seed + 8, n_chan // 2, res.tier, profile="release", timeout=3000)
    pay = lib.run_harness("pay", "run", res.seed + 9, n_pay, res.tier, timeout=3000)
    ncases = node["CASE"]
    terms = [c["coq"].replace("[None", "[SNone").replace("; None", "; SNone") for c in ncases]
    fails = lib.coq_failures(NODE_IMPORTS, "nodeops_case", "check_nodeops", terms, "nodeops_" + tag.lower())
    found = []
    key = tag.lower() + "_violations"
    for c in ncases:
        for v in c.get(key, [])[:1]:
            found.append(("nodeops", c["id"], v, c["ops"]))
    for dom, rr in (("chan", chan), ("chan-release", chan_rel), ("pay", pay)):
        for c in rr["CASE"]:
            for v in [v for v in c["monitor_violations"] if v.startswith(tag + ":")][:1]:
                found.append((dom, c["id"], v, c["ops"]))
    # the on-chain domain (C08's harness) restores a second signer after every signed on-chain transaction
    onchain_cases = []
    if tag == "C11":
        oc = lib.run_harness("onchain", "node", res.seed + 10, 80 if quick else 1200, res.tier, timeout=3000)
        onchain_cases = oc["CASE"]
        for c in onchain_cases:
            for v in c.get("c11_violations", [])[:1]:
                found.append(("onchain", c["id"], v, {"policy": c["policy"], "transaction": c["transaction"], "steps": c["steps"]}))
    # the chain tip as the daemon keeps it: the tracker domain's handler histories (AddBlock / RemoveBlock / streamed
    # blocks as protocol messages, restarts through HandlerBuilder::build) compare the stored tracker entry with every
    # acknowledged block and the restarted tracker with the stored one
    tracker_c11 = []
    if tag == "C11":
        th11 = lib.run_harness("tracker", "handler", res.seed + 15, 60 if quick else 800, res.tier, timeout=3000)
        tracker_c11 = th11["CASE"]
        for c in tracker_c11:
            for key, what in (("store_violations", "the stored chain tracker disagrees with a block request that was acknowledged"),
                              ("restart_violations", "a restart from the store moved the chain tracker")):
                for v in c.get(key, [])[:1]:
                    found.append(("tracker", c.get("id"), "%s: %s" % (what, str(v)[:400]),
                                  {k: c[k] for k in c if not k.startswith("coq")}))
    # the chain-tracking state: the tracker domain (C13's harness) snapshots tip, height, remembered headers, watches
    # and the monitors around every refused block request
    tracker_cases = []
    if tag == "C10":
        tr = lib.run_harness("tracker", "seq", res.seed + 11, 150 if quick else 2000, res.tier, timeout=3000)
        th = lib.run_harness("tracker", "handler", res.seed + 12, 60 if quick else 800, res.tier, timeout=3000)
        tracker_cases = tr["CASE"] + th["CASE"]
        for c in tracker_cases:
            for v in c.get("atomicity_violations", [])[:1]:
                found.append(("tracker", c.get("id"), "a refused block request changed the chain-tracking state: %s" % str(v)[:400],
                              {k: c[k] for k in c if not k.startswith("coq")}))
    # on-chain signing requests (C08's harness): fingerprint and store dump around every request that ends in an error,
    # incl. refusals that only the signing loop raises on a transaction that funds a ready channel
    onchain_c10 = []
    if tag == "C10":
        ocn = lib.run_harness("onchain", "node", res.seed + 13, 120 if quick else 1500, res.tier, timeout=3000)
        och = lib.run_harness("onchain", "handler", res.seed + 14, 80 if quick else 1000, res.tier, timeout=3000)
        onchain_c10 = ocn["CASE"] + och["CASE"]
        for c in onchain_c10:
            for v in c.get("c10_violations", [])[:1]:
                found.append(("onchain", c.get("id"), v, {k: c[k] for k in c if not k.startswith("coq") and k not in ("c10_observations",)}))
    for dom, cid, v, ops in found[:4]:
        res.violation("%s fails on the implementation: %s" % (tag, v[:300]),
                      {"domain": dom, "seed": res.seed, "case": cid, "what": v, "history": ops})
    if not found:
        for i in fails[:2]:
            c = ncases[i]
            d = lib.coq_eval(NODE_IMPORTS, "nodeops_first_diff (%s)" % terms[i], "nodeops_show")
            res.violation("the real node disagrees with Model.NodeOps (correspondence nodeops); the node-level theorems of "
                          "%s are about the model and no longer carry over" % props_file,
                          {"correspondence": "nodeops", "theorems": pinned, "first_difference_at_step": d,
                           "history": c["ops"], "coq_case": terms[i]}, has_input=False)
    all_cases = ncases + chan["CASE"] + chan_rel["CASE"] + pay["CASE"]
    requests = sum(len(c["ops"]) for c in all_cases)
    refused = 0
    for c in all_cases:
        for o in c["ops"]:
            if o.get("st") == "Refused" or o.get("ok") is False:
                refused += 1
    nontrivial = set()
    for c in ncases:
        kinds = {(o["op"] if isinstance(o["op"], str) else o["op"][0], o["st"]) for o in c["ops"]}
        if ("restart", "Ok") in kinds and any(k[1] == "Refused" for k in kinds) and ("forget_channel", "Ok") in kinds:
            nontrivial.add(c["coq"])
    cov.update({
        "evaluations": len(all_cases),
        "distinct_nontrivial": len(nontrivial),
        "rule": "three domains drive the real signer: nodeops (new/setup/forget channel, heartbeat, allowlist add/remove/set with "
                "and without an unparsable entry, keysend approvals, invoices issued by the node (SignInvoice: five payment hashes, the same invoice again, another invoice for a hash that has one, no amount, a full table), refused channel requests and set-ups (node calls and protocol messages), "
                "restarts; 6..30 requests; one case in three on the transactional store CloudKVVStore<MemoryKVVStore> the way the daemon "
                "drives it -- enter, one to three requests, prepare, the reported records go to a cloud replica with its version rule, "
                "commit -- with a signer restored at each crash point: between prepare and commit (old local store brought up to date "
                "from the cloud), after commit from the local store, and on another host from the cloud copy alone; the committed "
                "local store must equal the cloud copy and a refused request must report no mutation), chan "
                "(the channel request alphabet of C01-C03 incl. handler composites, debug and release builds, plus a scripted "
                "corpus) and pay (multi-channel commitment updates with HTLCs).  Around EVERY request: " + what + "; "
                "non-trivial (nodeops) = has a restart, a refusal and an accepted forget; distinct by full history",
        "samples": [{"domain": "nodeops", "ops": ncases[0]["ops"][:10]}],
        "onchain_cases_with_restart_comparison": len(onchain_cases),
        "tracker_histories_with_refusal_snapshots": len(tracker_cases),
        "tracker_handler_histories_with_store_and_restart_comparison": len(tracker_c11),
        "onchain_cases_with_refusal_snapshots": len(onchain_c10),
        "onchain_refusals_that_left_only_an_in_memory_fee_count": sum(len(c.get("c10_observations", [])) for c in onchain_c10),
        "requests_checked": requests,
        "refused_requests_checked": refused,
        "traces_validated_against_impl": len(ncases),
        "correspondence_disagreements": len(fails),
        "monitor_failures": len(found),
        "op_outcome_distribution": node.get("STATS", []),
    })
    res.assumptions = [
        "failures of the storage backend are never injected (outside the property)",
        "fingerprint = per channel Debug rendering of EnforcementState and the monitor's public view (forget flag, depths, "
        "funding outpoint), tracker tip/height/header count, allowlist, invoices, issued invoices, high-water mark, both velocity "
        "controls; store = every key, version and value of the MemoryKVVStore",
        "block processing is covered by the tracker / monitor domains (C13, C14), not here",
        "the correspondence is differential testing: bounded by the generators described in coverage.rule",
    ]
