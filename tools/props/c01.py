"""C01 — a holder commitment is revoked only after its successor is counter-signed."""
import lib
from props import chan_common
from props.chan_common import TIE, TRUST

MANIFEST = dict(
    text="Coq theorem C01_secret_needs_successor: for every request history on a channel slot (all request kinds incl. the "
         "handler composites of the old and new protocol, any u64 commitment numbers, restarts anywhere, debug and release "
         "arithmetic), a disclosed secret k implies that k+1 is in the ledger of validations, and "
         "C01_validated_means_signatures_verified: a ledger entry can only come from a validation request whose counterparty "
         "signatures verified; C01_stub_never for a channel that is not set up.  Invariant by induction over the history "
         "(Proofs/EnforcementProofs.v).  The model is run against the real Channel / ChannelHandler on the same histories in "
         "both build profiles on every run, and a monitor checks the property on the implementation's own replies." + TIE +
         "C01_holder_validation_checks_are_source (validate_holder_state: retry-same, holder-not-revoked, closed channel; side "
         "condition next_holder_commit_num < 2^64-1) and C01_holder_advance_is_source (the advance at a revocation is advance_h, "
         "anything but the successor number is refused or panics).",
    design="§4 C01",
    note=lib.TB + TRUST + "Modelled, not verified: signature verification, the content policy and LDK's secret derivation enter as oracle "
         "booleans / identities (covered by C04, C05, C18); the theorem assumes the four tags it rests on are not downgraded by "
         "the policy filter.",
    technique="Coq proof (state-machine invariant by induction over request histories) + vm_compute correspondence with the Rust implementation",
)


def run(res):
    chan_common.run_tied(res, "C01.v", ["C01_secret_needs_successor", "C01_validated_means_signatures_verified",
                                        "C01_stub_never", "C01_nonvacuous",
                                        "C01_holder_validation_checks_are_source", "C01_holder_advance_is_source"],
                         "C01", "C01_holder_validation_checks_are_source")
