"""C20 — concurrent requests neither deadlock nor break per-channel atomicity (translator route, PARTIAL)."""
import copy, json, os, subprocess
import lib
import gen_locks

MANIFEST = dict(
    text="PARTIAL. Coq theorems (Model/Locks.v, Proofs/LocksProofs.v): threads are programs over Acq l | Rel l | Touch l with "
         "blocking, non-reentrant mutexes and an interleaving semantics; deadlock_free: if every program is well-bracketed and "
         "acquires only in strictly increasing order of a rank on lock classes (two instances of one class only in instance "
         "order), then for ANY number of threads, each running ANY sequence of the requests on any instances, every reachable "
         "configuration under EVERY schedule can move or has finished, every run is bounded by the program lengths and can be "
         "completed; slot_atomic: if every access to a protected value happens under its lock, the projection of any run on that "
         "value is a sequence of whole critical sections, one thread each, in each thread's program order - so a request that "
         "takes a channel slot once is atomic for that channel and C01-C03 transfer to concurrent histories. The lock programs of "
         "62 request kinds (14 of them real protocol messages through ChannelHandler / RootHandler::do_handle at protocol 4 and 6) (commitment updates, new/setup/forget channel, balance, chaninfo and heartbeat queries, invoice and "
         "keysend approval, allowlist, on-chain check and sign, block add/remove compact and streamed, persist_all) are RECORDED "
         "FROM THE REAL CODE on every run through an instrumented Mutex (hook cfg(vls_verif), vls-core/src/verif_sync.rs) and "
         "written to Gen/LockProgs.v; the rank is SEARCHED by tools/gen_locks.py (topological order of the observed lock-order "
         "graph) and CHECKED by Coq (C20_ranked, C20_guarded, C20_updates_single_section by computation), then the general "
         "theorems are instantiated. If no rank exists the obligation fails and the check exhibits the failure on the real code: "
         "for each lock-order cycle it starts the real requests on real threads with pause points in the mutex hook, observes the "
         "wait-for cycle in the instrumented mutexes and reports the schedule as the replay. Independently of the model, an "
         "implementation-side sweep runs two real threads on controlled schedules (request P paused right after an acquisition or "
         "between two critical sections, request Q run against it, P resumed): first every pause point of every pair inside the "
         "channel life-cycle family and of the requests a static check-then-act test on the channel map names, then pairs that lock "
         "the same channel slot, then a seeded random fill (quick: tiers 1 and 2 = ~5300, thorough 16000 of ~32000); every schedule must complete and "
         "replies + final stored state, in-memory channel state and the in-memory node payment ledger and the content of both replies must equal those of P;Q or Q;P. NOT covered: equality of replies and "
         "of cross-channel node state with a sequential order (linearizability) is not proved; data-dependent lock paths that the "
         "recording corpus does not take are invisible to the recorder; atomics / memory model; try_lock (not used by the code; "
         "its appearance is an error). Lock-free counters (Atomic* fields of the key manager: generated channel ids, entropy, "
         "base-point indices) are translated from the source (per function the atomic operations; a read-modify-write is one "
         "event): C20_counters_rmw (no separate store, by computation) and C20_generated_ids_distinct_partial (for every "
         "interleaving of the atomic events the values handed out are pairwise distinct; sequentially consistent model, one "
         "counter at a time); on the real code only a stress test (8 threads x rounds, no schedule control) checks them.",
    design="§4 C20, §6",
    note="Trusted: Coq 8.16.1 kernel and vm_compute (no native_compute); no axioms; the recorder (vls-core/src/verif_sync.rs: a thin "
         "wrapper over std::sync::Mutex, reports attempt/acquire/release and Deref accesses), harness/src/bin/locks.rs (drives the "
         "public Node / Channel entry points the protocol handler calls, one fresh node per request kind) and tools/gen_locks.py "
         "(events -> programs; graph; rank search - the rank itself is checked by Coq). The lock class is the type of the protected "
         "value; a std::sync::Mutex used directly (redb store) is not seen. The programs are those of the corpus states (stub, two "
         "ready channels, third channel being funded, channel closed on chain); a request that takes other locks in another state "
         "is not represented.",
    technique="Coq proof (lock-order / critical-section theorems over an interleaving semantics) instantiated on a translator-generated "
              "model that is re-recorded from the code and re-checked on every run; controlled-schedule replay on real threads",
)

PINNED = ["C20_ranked", "C20_guarded", "C20_deadlock_free_partial", "C20_completes_partial", "C20_slot_atomic_partial",
          "C20_sections_at_quiescence", "C20_updates_single_section", "C20_listed_inversions_deadlock", "C20_nonvacuous",
          "C20_old_forget_channel_refuted", "C20_old_forget_channel_unrankable", "C20_old_races_deadlock",
          "C20_old_inversions_unrankable", "C20_old_programs_unrankable", "C20_checker_rejects_inversion",
          "C20_setup_channel_writes_under_the_map", "C20_store_access_under_a_lock", "C20_allowlist_written_under_node_state", "C20_nested_under_rejects_late_write",
          "C20_counters_rmw", "C20_generated_ids_distinct_partial", "C20_load_store_refuted", "C20_counters_nonvacuous"]

FALLBACK_KNOWN = os.path.join(lib.ROOT, "notes", "fixes", "C20-known-findings.json")


def known_entries():
    ks, src = _known_entries()
    # VERIF_C20_IGNORE_KNOWN=F8a,F8c: treat these entries as not listed (used to verify one repair at a time)
    ignore = [x for x in os.environ.get("VERIF_C20_IGNORE_KNOWN", "").split(",") if x]
    return [k for k in ks if k.get("id") not in ignore], src


def _known_entries():
    ks = lib.known_findings("C20")
    if ks:
        return ks, "KNOWN_FINDINGS.json"
    if os.path.exists(FALLBACK_KNOWN) and os.environ.get("VERIF_C20_NO_FALLBACK") != "1":
        data = json.load(open(FALLBACK_KNOWN))
        # status=alternative: the inversion has a repair patch; listed only when asked (to try the known-finding route)
        accept = ("known", "alternative") if os.environ.get("VERIF_C20_ACCEPT_ALTERNATIVES") == "1" else ("known",)
        ks = [f for f in data.get("findings", []) if f.get("property") == "C20" and f.get("status") in accept]
        return ks, "notes/fixes/C20-known-findings.json"
    return [], "none"


def race(exe, spec, seed, tier):
    p = subprocess.run([exe, "race", "--seed", str(seed), "--n", "0", "--tier", tier] + spec,
                       stdout=subprocess.PIPE, stderr=subprocess.PIPE, text=True, errors="replace", timeout=120)
    for line in p.stdout.splitlines():
        if line.startswith("@@RACE "):
            return json.loads(line[7:])
    return {"outcome": "harness-error", "stderr": p.stderr[-1500:], "spec": spec}


def replay_cycle(exe, classes, res, cyc, graph_key, seed, tier, progs_by_name, tries=4):
    edges = gen_locks.describe_cycle(classes, res, cyc, graph_key)
    text = " -> ".join(e["holds"] for e in edges) + " -> " + edges[0]["holds"]
    last = None
    for spec, chosen in gen_locks.schedules(edges, limit=tries):
        r = race(exe, spec, seed, tier)
        last = (spec, chosen, r)
        if r["outcome"] == "deadlock":
            break
    sites = [{"holds": e["holds"], "takes": e["takes"], "requests": e["requests"]} for e in edges]
    if last is None:
        return {"cycle": text, "sites": sites, "outcome": "no-common-instance"}
    spec, chosen, r = last
    sched, dead = gen_locks.model_schedule(progs_by_name, spec)
    return {"cycle": text, "sites": sites, "outcome": r["outcome"], "spec": spec,
            "command": "harness locks race " + " ".join(spec),
            "threads": r.get("threads"), "schedule": r.get("schedule"), "steps": r.get("steps"),
            "model": {"requests": [s.split(":")[0] for s in spec], "schedule": sched, "deadlocked": dead}}


def run(res):
    quick = res.tier == "quick"
    cov = res.coverage
    # 1. record the lock programs of every request kind on the current code
    try:
        recs = lib.run_harness("locks", "record", res.seed, 0, res.tier)
        if recs.get("SELFDEADLOCK"):
            sd = recs["SELFDEADLOCK"][0]
            res.violation("request %s never completes, even alone: %s - it holds %s and takes %s again (during its %s)"
                          % (sd["request"], sd["what"], ", ".join(sd["holds"]), sd["lock"], sd["phase"]),
                          {"domain": "locks-record", "command": "harness locks record " + sd["request"], "report": sd}, has_input=True)
            cov.update({"evaluations": len(recs.get("PROG", [])) + 1, "distinct_nontrivial": 0, "samples": [sd],
                        "rule": "recording stopped at a self-deadlock", "obligations": 1, "discharged": 0})
            return
        classes, progs = gen_locks.load(recs)
    except gen_locks.GenError as e:
        res.violation("a request could not be turned into a lock program: " + str(e),
                      {"translator": "tools/gen_locks.py", "error": str(e),
                       "replay": "harness locks record <request name>"}, has_input="self-deadlock" in str(e))
        cov.update({"evaluations": 0, "distinct_nontrivial": 0, "rule": "recording failed", "samples": [],
                    "obligations": 1, "discharged": 0})
        return
    exe = lib.build_harness("locks")
    by_name = {p["name"]: p for p in progs}
    known, known_src = known_entries()
    ana = gen_locks.analyse(classes, progs, known)
    cname = lambda c: classes[c]["name"]

    # negative control of the analysis itself: an inverted copy of a nested pair must produce a cycle
    ctl = copy.deepcopy(progs)
    a, b = None, None
    for (x, y), ws in sorted(ana["graph_checked"].items()):
        if (y, x) not in ana["graph_checked"]:
            a, b = ws[0]["holds"], ws[0]["takes"]
            break
    control_ok = None
    if a is not None:
        ctl.append({"name": "control_inverted", "outcome": "ok", "still_held": [],
                    "events": [["A", b[0], b[1]], ["A", a[0], a[1]], ["R", a[0], a[1]], ["R", b[0], b[1]]]})
        ana_ctl = gen_locks.analyse(classes, ctl, known)
        control_ok = any(set(c) == {a[0], b[0]} for c in ana_ctl["cycles"])
        if not control_ok:
            res.violation("the cycle search does not find a planted inversion", {"planted": [a, b]}, has_input=False)

    # 2. listed inversions: replay one deadlock each (evidence + Coq witness), print KNOWN-FINDING
    listed = []
    ana["known_witnesses"] = []
    # lock-free shared state: the atomic operations per function, read from the source
    try:
        ana["atomics"] = gen_locks.atomic_programs(lib.REPO)
    except gen_locks.GenError as e:
        ana["atomics"] = {"programs": [], "fields": {}}
        res.violation("the atomics of vls-core could not be translated: " + str(e), {"error": str(e)}, has_input=False)
    non_rmw = [a for a in ana["atomics"]["programs"] if "St" in a["ops"]]
    for k in known:
        ws = ana["known_used"].get(k["id"], [])
        if not ws:
            continue
        # a cycle of the full graph through one of this entry's edges
        e0 = (ws[0]["holds"][0], ws[0]["takes"][0])
        cyc = next((c for c in ana["cycles_all"]
                    if any((c[i], c[(i + 1) % len(c)]) == e0 for i in range(len(c)))), None)
        rep = replay_cycle(exe, classes, ana, cyc, "graph", res.seed, res.tier, by_name) if cyc else None
        if rep and rep.get("model", {}).get("deadlocked"):
            ana["known_witnesses"].append({"requests": rep["model"]["requests"], "schedule": rep["model"]["schedule"]})
        listed.append({"id": k["id"], "requests": sorted({w["request"] for w in ws}), "replay": rep})
        res.known.append("%s lock-order inversion %s -> %s in %s (%s)%s" % (
            k["id"], k["inversions"][0]["holds"], "/".join(k["inversions"][0]["takes"]),
            ", ".join(sorted({w["request"] for w in ws})), k.get("where", ""),
            "; replayed: " + rep["outcome"] if rep else ""))

    # 3. regenerate Gen/LockProgs.v and re-check the proofs over it
    def regen():
        gen_locks.write_coq(classes, progs, ana, lib.REPO)
    ok, out = lib.build_coq(["theories/Gen/LockProgs.vo"], pre=regen)
    if not ok:
        res.violation("the generated lock programs do not compile", {"generated": "coq/theories/Gen/LockProgs.v", "log": out[-3000:]},
                      has_input=False)
    proved = ok and lib.proof_stage(res, "C20.v", "Props.C20", PINNED, pre=regen)
    cov["trusted_base"] = [
        "Coq 8.16.1 kernel incl. vm_compute (no native_compute)",
        "the recorder: vls-core/src/verif_sync.rs (hook, cfg(vls_verif)) + harness/src/bin/locks.rs + tools/gen_locks.py; the "
        "generated programs and the searched rank are re-checked by Coq on every run",
        "the corpus of node states and request kinds (lock paths it does not take are not represented)"]

    # 4. cycles that are not listed: the obligation cannot hold; exhibit the deadlock on the real code
    cycles = ana["cycles"]
    replays = []
    budget = 6 if quick else 40
    shown = 0
    for cyc in cycles[:budget]:
        rep = replay_cycle(exe, classes, ana, cyc, "graph_checked", res.seed, res.tier, by_name, tries=3 if quick else 8)
        replays.append(rep)
        if rep["outcome"] == "deadlock":
            t = rep["threads"]
            what = "deadlock: " + "; ".join("thread %d (%s) holds %s and waits for %s" % (
                x["thread"], x["request"], ", ".join(x["holds"]), x["waits_for"]) for x in t if not x["finished"])
            res.violation("lock-order cycle %s - %s" % (rep["cycle"], what), rep, has_input=True)
            shown += 1
    if cycles and shown == 0:
        res.violation("lock-order cycles exist (no rank orders the recorded programs) but none of the tried schedules blocked "
                      "the real threads", {"cycles": [r["cycle"] for r in replays], "replays": replays}, has_input=False)
    for w in ana["same"][:3]:
        res.violation("two locks of one class are nested against their instance order in request %s" % w["request"],
                      {"request": w["request"], "holds": gen_locks.lname(classes, tuple(w["holds"])),
                       "takes": gen_locks.lname(classes, tuple(w["takes"]))}, has_input=False)

    # 5. implementation-side monitor, independent of the model: two real threads, one preemption at every
    #    acquisition point of the first request, every second request; everything must complete
    #    Prioritised: first every preemption point of every pair inside the channel life-cycle family (plus the
    #    requests the static check names), then pairs that lock the same channel slot, then a seeded random fill.
    cta = gen_locks.check_then_act(classes, progs, "M")
    focus = sorted({x["request"] for x in cta})
    cta_s = gen_locks.check_then_act(classes, progs, "S")
    focus_s = sorted({x["request"] for x in cta_s})
    # the same test for the other structural classes (tracker, channel slots): requests with two separate
    # sections of one lock that both access the value; the sweep pauses them inside that window against every
    # request that takes the same lock
    cta_tc = gen_locks.check_then_act(classes, progs, "T") + gen_locks.check_then_act(classes, progs, "C")
    focus_w = sorted({x["request"] for x in cta_tc})
    focus_args = (["focus=" + ",".join(focus)] if focus else []) + (["focus_s=" + ",".join(focus_s)] if focus_s else []) \
        + (["focus_w=" + ",".join(focus_w)] if focus_w else [])
    # quick: all of tiers 1 and 2 (sizes from the harness' own plan), thorough: 16000
    n_sweep = 16000
    if quick:
        pl = subprocess.run([exe, "sweep", "--seed", str(res.seed), "--n", "0", "--tier", res.tier, "plan"] + focus_args,
                            stdout=subprocess.PIPE, stderr=subprocess.PIPE, text=True, errors="replace", timeout=600)
        plan = [json.loads(l[7:]) for l in pl.stdout.splitlines() if l.startswith("@@PLAN ")]
        # tier 1 completely, of tier 2 (seeded rotation) what keeps the quick run under a minute
        n_sweep = (plan[0]["tier1"] + min(plan[0]["tier2"], 1200)) if plan else 5000
    nshards = min(8, max(1, lib.NCPU // 2))
    sweep = {"races": 0, "completed": 0, "blocked_then_completed": 0, "program_changed": 0, "panicked": 0,
             "unpreparable": 0, "serializable": 0, "not_serializable": 0, "sequential_unavailable": 0,
             "stuck": 0, "total_schedules": 0, "tiers": None, "selected": 0, "sample": None, "focus": focus,
             "focus_node_state": focus_s, "focus_tracker_and_slots": focus_w}
    odd, stuck_reports = [], []

    def run_shard(sh):
        frm, out = 0, []
        while len([o for o in out if o[1] is not None]) < 3:
            p = subprocess.run([exe, "sweep", "--seed", str(res.seed), "--n", str(n_sweep), "--tier", res.tier,
                                "from=%d" % frm, "shard=%d/%d" % (sh, nshards)] + focus_args,
                               stdout=subprocess.PIPE, stderr=subprocess.PIPE, text=True, errors="replace", timeout=3000)
            sw, rc = None, None
            for line in p.stdout.splitlines():
                if line.startswith("@@SWEEP "):
                    sw = json.loads(line[8:])
                elif line.startswith("@@RACE "):
                    rc = json.loads(line[7:])
                elif line.startswith("@@SELFDEADLOCK "):
                    rc = {"outcome": "self-deadlock", "spec": [json.loads(line[15:])["request"]], "threads": [],
                          "report": json.loads(line[15:])}
            if sw is None and rc is None:
                raise lib.Fail("locks sweep did not report:\n" + p.stderr[-2000:])
            out.append((sw, rc))
            if sw is None or not sw["aborted"]:
                break
            frm = sw["next"]
        return out
    from concurrent.futures import ThreadPoolExecutor
    with ThreadPoolExecutor(max_workers=nshards) as ex:
        shard_results = list(ex.map(run_shard, range(nshards)))
    for out in shard_results:
        for sw, rc in out:
            if sw is not None:
                for k in ("completed", "blocked_then_completed", "program_changed", "panicked", "unpreparable", "serializable",
                          "not_serializable", "sequential_unavailable"):
                    sweep[k] += sw[k]
                odd += sw.get("odd", [])
                sweep["total_schedules"] = sw["total"]
                sweep["tiers"] = sw["tiers"]
                sweep["selected"] = sw["selected"]
                sweep["sample"] = sweep["sample"] or sw.get("sample")
            if rc is not None:
                sweep["stuck"] += 1
                stuck_reports.append(rc)
        sweep["races"] += max([sw["next"] for sw, _ in out if sw is not None] or [0])
    for rc in stuck_reports:
        if rc["outcome"] == "self-deadlock":
            sd = rc["report"]
            res.violation("%s never completes: it holds %s and takes %s again" % (sd["request"], ", ".join(sd["holds"]), sd["lock"]),
                          {"domain": "locks-sweep", "report": sd}, has_input=True)
            continue
        t = rc["threads"]
        what = "; ".join("thread %d (%s) holds %s and waits for %s" % (
            x["thread"], x["request"], ", ".join(x["holds"]), x["waits_for"]) for x in t if not x["finished"])
        if cycles and rc["outcome"] == "deadlock":
            continue   # the same defect as the replayed cycles above
        res.violation("two real threads do not complete (%s) on a schedule with one preemption: %s" % (rc["outcome"], what),
                      {"domain": "locks-sweep", "command": "harness locks race " + " ".join(rc["spec"]), "report": rc,
                       "note": "found by the implementation-side sweep; " + (
                           "no lock-order cycle was recorded, so a lock path is missing from the programs" if not cycles else "")},
                      has_input=True)

    # non-serializable pairs that are listed (entries with a "non_serializable" list of request-name patterns)
    import fnmatch

    def listed_pair(o):
        a, b = [x.split(":")[0].split("@")[0] for x in o["spec"]]
        for k in known:
            for pat in k.get("non_serializable", []):
                # p = the request that was paused, q = the one that ran against it; optionally the replies
                if fnmatch.fnmatch(a, pat["p"]) and fnmatch.fnmatch(b, pat["q"]) and \
                        ("replies" not in pat or pat["replies"] == o["replies"]):
                    return k
        return None
    listed_odd = {}
    unlisted = []
    for o in odd:
        k = listed_pair(o)
        if k is None:
            unlisted.append(o)
        else:
            listed_odd.setdefault(k["id"], []).append(" || ".join(o["spec"]))
    for kid, specs in sorted(listed_odd.items()):
        k = [x for x in known if x["id"] == kid][0]
        res.known.append("%s outcome equal to no sequential order: %s (%s); %d schedule(s) of this run, e.g. harness locks race %s"
                         % (kid, k.get("summary", ""), k.get("where", ""), len(specs), specs[0].replace(" || ", " ")))
    sweep["not_serializable_listed"] = sum(len(v) for v in listed_odd.values())
    odd = unlisted
    for o in odd[:3]:
        closest = min((o["vs_P_then_Q"], o["vs_Q_then_P"]), key=lambda d: len(d["differing_keys"]))
        content = ""
        if not closest["differing_keys"] or o.get("reply_content") not in (o["vs_P_then_Q"].get("reply_content"), o["vs_Q_then_P"].get("reply_content")):
            content = "; reply content %s (P;Q gives %s, Q;P gives %s)" % (
                o.get("reply_content"), o["vs_P_then_Q"].get("reply_content"), o["vs_Q_then_P"].get("reply_content"))
        res.violation("the outcome of two concurrent requests (%s) equals neither sequential order: replies %s, differing state %s%s"
                      % (" || ".join(o["spec"]), o["replies"], ", ".join(closest["differing_keys"][:4]) or "none", content),
                      {"domain": "locks-sweep", "command": "harness locks race " + " ".join(o["spec"]), "case": o}, has_input=True)

    # stored state: a request must not reach the store with no structural lock held (its write would not
    # belong to the critical section that computed it); allowlist requests: under the node state
    late = gen_locks.store_outside_locks(classes, [p for p in progs if p["name"] not in ana["excluded"]])
    late += [x for x in gen_locks.store_outside_locks(classes, [p for p in progs if p["name"].startswith("allowlist_")], outer=("S",))
             if x["request"] not in [y["request"] for y in late]]
    late += [dict(x, section="the channel map") for x in gen_locks.store_outside_locks(
                 classes, [p for p in progs if p["name"] in ("setup_channel", "h6_setup_channel")], outer=("M",))
             if x["request"] not in [y["request"] for y in late]]
    for x in late[:4]:
        res.violation("request %s writes to the store (%s) outside the critical section that computed the value (holding %s): "
                      "two such requests can store their snapshots in the opposite order of their updates"
                      % (x["request"], x["store"], ", ".join(x["holding"]) or "no lock"),
                      {"request": x["request"], "program": " ".join("%s(%s)" % (k, gen_locks.lname(classes, (c, i)))
                                                                      for k, c, i in by_name[x["request"]]["events"] if k != "T")},
                      has_input=False)

    # lock-free counters: named finding for a non-atomic update, and a STRESS TEST (no schedule control: the
    # mutex hook cannot pause inside an atomic) of the requests that use them
    for a in non_rmw:
        res.violation("%s (%s) in %s::%s is updated with separate atomic %s events instead of one read-modify-write: "
                      "two threads can be handed the same value" % (a["field"], a["type"], a["file"], a["function"], "/".join(a["ops"])),
                      {"translator": "tools/gen_locks.py atomic_programs", "program": a, "model_witness": "Props/C20.v C20_load_store_refuted"},
                      has_input=False)
    n_rounds = 300 if quick else 6000
    sp = subprocess.run([exe, "stress", "--seed", str(res.seed), "--n", str(n_rounds), "--tier", res.tier],
                        stdout=subprocess.PIPE, stderr=subprocess.PIPE, text=True, errors="replace", timeout=1800)
    stress = None
    for line in sp.stdout.splitlines():
        if line.startswith("@@STRESS "):
            stress = json.loads(line[9:])
    if stress is None:
        raise lib.Fail("locks stress did not report:\n" + sp.stderr[-1500:])
    for f in stress["failures"][:2]:
        res.violation("%d concurrent %s requests were answered with %d distinct values%s; sequentially every request gets its own"
                      % (f["threads"], f["request"], f["distinct_values"],
                         (" and left %d new channels" % f["channels_created"]) if f["request"].startswith("new_channel") else ""),
                      {"domain": "locks-stress", "command": "harness locks stress --n %d" % n_rounds, "round": f,
                       "note": "stress test without schedule control: the round's requests and replies are the replay"}, has_input=True)

    # every commitment update must be one critical section of its channel (the Coq obligation
    # C20_updates_single_section says the same; here with the request named)
    for p in progs:
        if not gen_locks.is_update(p["name"]) or p["name"] in ana["excluded"]:
            continue
        cnt = {}
        for k, c, i in p["events"]:
            if k == "A" and classes[c]["name"] == "C":
                cnt[(c, i)] = cnt.get((c, i), 0) + 1
        for l, n in cnt.items():
            if n > 1:
                res.violation("request %s takes the channel slot %s %d times: what it does to the channel is not one atomic block"
                              % (p["name"], gen_locks.lname(classes, l), n),
                              {"request": p["name"], "program": " ".join("%s(%s)" % (k, gen_locks.lname(classes, (c, i)))
                                                                          for k, c, i in p["events"] if k != "T")},
                              has_input=False)

    # 6. coverage
    def nesting(p):
        d = m = 0
        for k, c, i in p["events"]:
            if k == "A":
                d += 1
                m = max(m, d)
            elif k == "R":
                d -= 1
        return m
    shapes = {json.dumps(p["events"]) for p in progs if nesting(p) >= 2}
    outcomes = {}
    for p in progs:
        outcomes[p["outcome"]] = outcomes.get(p["outcome"], 0) + 1
    sample = by_name.get("validate_holder_commitment", progs[0])
    cov.update({
        "evaluations": len(progs) + len(replays) + len([l for l in listed if l["replay"]]) + sweep["races"] + stress["rounds"],
        "sweep": sweep,
        "stress": {k: v for k, v in stress.items() if k != "failures"} | {"failed_rounds": len(stress["failures"])},
        "store_access_outside_locks": late,
        "atomic_fields": ana["atomics"]["fields"],
        "atomic_programs": [{k: a[k] for k in ("field", "function", "ops")} for a in ana["atomics"]["programs"]],
        "map_check_then_act_requests": cta,
        "node_state_check_then_act_requests": cta_s,
        "tracker_and_slot_check_then_act_requests": cta_tc,
        "distinct_nontrivial": len(shapes),
        "programs": len(progs),
        "rule": "one fresh node (MemoryKVVStore persister, ManualClock; stub channel, two ready funded channels; per request the extra "
                "state it needs: validated next commitment, signed counterparty commitments, approved keysend, a third channel "
                "before its funding is signed, funding and closing transactions in connected blocks, a stub past the prune horizon) "
                "per request kind; the request runs single-threaded with the recorder on; every Mutex acquire/release and every "
                "Deref of a guard is an event (consecutive equal accesses collapsed). Non-trivial: programs that hold at least two "
                "locks at once; distinct by event sequence. Races: for each unlisted lock-order cycle (shortest first, quick: 6) up to "
                "3 (thorough 8) choices of requests that meet in the same lock instances are run on real threads. Sweep (monitor): "
                "schedules (P, k, Q) = request P paused right after its k-th acquisition while request Q runs on a second real "
                "thread, then P resumed; pause points: right after each acquisition and right before an acquisition that follows a "
                "release (between two critical sections). Order: (1) all points of all pairs inside the channel life-cycle family "
                "acting on the same channel ids (new/setup/forget channel, heartbeat pruning, funding signature, persist_all) plus "
                "the requests the static check-then-act test names, (2) pairs that lock the same channel slot with a commitment "
                "update among them (seeded rotation), (3) seeded random fill; tier 1 also holds every pair of the four requests that carry "
                "the same approved payment hash on channels A and B, and every request with two node-state sections (static test on "
                "S) paused inside that window against every other request that takes the node state, the same for the tracker and for "
                "each channel slot (static test on T and C), and every pause point of the three heartbeat kinds against every block "
                "request; quick: all of tiers 1 and 2, "
                "thorough: 16000; "
                "run on 8 processes. Stress (NOT an exploration, no schedule control): rounds of 8 threads released together, each asking "
                "for a generated channel id (new_channel_with_random_id; every 4th round: entropy) - lock-free counters that the "
                "mutex hook cannot steer; a round must give 8 Ok replies, 8 distinct values, 8 new stubs. All must complete, and replies + final "
                "state (every stored record without versions, every channel's in-memory enforcement state, the node payment ledger, the "
                "in-memory allowlist, and - for allowlist pairs and for setup_channel against requests on the channel it sets up - the "
                "allowlist and every channel's enforcement state of a node restored from the store; "
                "order-insensitive) and the CONTENT of the replies (heartbeat tip/height/time, balances, chaninfo, points, secrets, "
                "signatures with their commitment number, channel ids) "
                "must equal those of P;Q or of Q;P run sequentially.",
        "samples": [{"request": sample["name"], "outcome": sample["outcome"],
                     "program": " ".join("%s(%s)" % (k, gen_locks.lname(classes, (c, i))) for k, c, i in sample["events"])}]
                   + [{k: v for k, v in r.items() if k != "model"} for r in replays[:1]],
        "request_outcomes": outcomes,
        "lock_classes": {v["name"]: v["type"] for v in classes.values()},
        "lock_order_edges": sorted("%s->%s" % (cname(a_), cname(b_)) for a_, b_ in ana["graph"]),
        "rank": [cname(c) for c in ana["order"]] if not ana["leftover"] else None,
        "cycles_unlisted": [" -> ".join(cname(c) for c in cyc) for cyc in cycles],
        "cycles_total": len(ana["cycles_all"]),
        "races_run": len(replays),
        "races_deadlocked": len([r for r in replays if r["outcome"] == "deadlock"]),
        "known_findings_source": known_src,
        "listed_inversions": listed,
        "excluded_requests": ana["excluded"],
        "planted_inversion_detected": control_ok,
        "traces_validated_against_impl": len(progs),
        "harness_stats": recs.get("STATS", []),
    })
    res.assumptions = [
        "the instrumented Mutex reports every acquisition and release of the prelude Mutex (std::sync::Mutex used directly, "
        "e.g. inside the redb store, is not observed)",
        "a request kind takes the same lock path in states outside the recording corpus (data-dependent paths not exercised are invisible)",
        "threads block only on these mutexes (no condition variables or channels in vls-core request paths)",
        "linearizability of replies and of cross-channel node state is NOT claimed (partial)",
    ]
