"""C12 — velocity limits bound spending in every time window, across restarts."""
import lib
import gen_rustfn

MANIFEST = dict(
    text="Coq theorem C12_window: for every policy spec with a finite limit and every history of approvals, "
         "node-entry writes and restarts with non-decreasing times, the approved amounts in any window no longer "
         "than (buckets-1)*interval sum to at most the limit (induction over the history with a per-bucket "
         "accounting invariant; saturating adds modelled); C12_restart_keeps_counted: a restart restores exactly the "
         "persisted control.  C12_insert_is_source / C12_source_agrees_along_history: the model's insert IS the source's - "
         "Gen/VelocityGen.v is regenerated on every run from vls-core/src/util/velocity.rs by the translator "
         "tools/gen_rustfn.py (statement by statement; Rust constructs given meaning in Base/Rust.v) and proved equal to the "
         "model, in both build profiles, on every state a history reaches.  The model (insert, persist-on-approve, restore) is also run against VelocityControl and "
         "against Node::add_keysend / check_onchain_tx / restore_node on the same histories on every run, and a "
         "sliding-window monitor checks the property itself on the implementation's answers; for the fee side as the "
         "daemon reaches it (SignWithdrawal through the wire codec and RootHandler) a monitor checks that the fee control "
         "books what the signed transaction really gives away (true input values from the previous transactions).  The "
         "VelocityApprover of vls-protocol-signer (the same control in front of a prompting delegate) is driven with sequential "
         "histories and with a second request arriving while the first waits at the delegate; the window monitor runs on what went "
         "through without a prompt (implementation-side only: the interleaving is not a model history).",
    design="§4 C12",
    note=lib.TB + "Additionally trusted: tools/gen_rustfn.py (a construct outside its fragment is an error, never a guess) and the meaning "
         "Base/Rust.v gives to u64/usize arithmetic, Vec operations and loops (64-bit target).  Modelled, not verified: serde round trip of the persisted control; clock monotonicity is the "
         "property's hypothesis.",
    technique="Coq proof (invariant by induction over histories; the core function translated from the Rust source on every run and proved equal to the model) + vm_compute correspondence with the Rust implementation",
)


def run(res):
    quick = res.tier == "quick"
    # the translator regenerates Gen/VelocityGen.v from /repo's velocity.rs under the build lock, right before
    # the theorems that relate it to the model are re-checked
    report = {}

    def regen():
        report.update(gen_rustfn.generate_velocity(lib.REPO))
    try:
        ok = lib.proof_stage(res, "C12.v", "Props.C12",
                             ["C12_window", "C12_restart_keeps_counted", "C12_insert_is_source",
                              "C12_source_agrees_along_history", "C12_unlimited", "C12_nonvacuous"], pre=regen)
    except gen_rustfn.GenError as e:
        res.violation("the translator cannot read VelocityControl::insert / ::velocity (a construct outside its fragment): %s" % e,
                      {"translator": "tools/gen_rustfn.py", "source": "vls-core/src/util/velocity.rs", "error": str(e),
                       "theorem": "C12_insert_is_source"}, has_input=False)
        ok = False
    cov = res.coverage
    cov["translated_from_source"] = report
    n_bare = 400 if quick else 6000
    n_node = 150 if quick else 2500
    bare = lib.run_harness("velocity", "bare", res.seed, n_bare, res.tier)
    node = lib.run_harness("velocity", "node", res.seed, n_node, res.tier)
    bcases, ncases = bare["CASE"], node["CASE"]
    imports = ["Model.VelocityCheck"]
    fb = lib.coq_failures(imports, "bare_case", "check_bare", [c["coq"] for c in bcases], "c12_bare")
    nterms = [c["coq_pay"] for c in ncases] + [c["coq_fee"] for c in ncases]
    fn = lib.coq_failures(imports, "node_case", "check_node", nterms, "c12_node")
    # the property itself, on the implementation's answers (sliding-window monitor in the harness)
    mon = [c for c in ncases if c.get("monitor_violation_pay") or c.get("monitor_violation_fee")]
    for c in mon[:3]:
        res.violation("approved amounts inside one window exceed the limit (implementation trace)",
                      {"domain": "velocity-node", "seed": res.seed, "case": {k: v for k, v in c.items() if not k.startswith("coq")}})
    if not mon:
        for i in fb[:2]:
            c = bcases[i]
            model = lib.coq_eval(imports, "bare_model (%s)" % c["coq"], "c12_show")
            res.violation("VelocityControl::insert disagrees with Model.Velocity.insert (correspondence velocity-bare)",
                          {"correspondence": "velocity-bare", "case": {k: v for k, v in c.items()}, "model": model},
                          has_input=False)
        for i in fn[:2]:
            c = ncases[i % len(ncases)]
            model = lib.coq_eval(imports, "node_model (%s)" % nterms[i], "c12_show")
            res.violation("node-level approve/restart history disagrees with Model.Velocity.vstep (correspondence velocity-node)",
                          {"correspondence": "velocity-node", "theorem": "C12_window", "case": c, "model": model},
                          has_input=False)
    # the VelocityApprover of vls-protocol-signer (auto-approval below its own limit, a prompt above it): sequential
    # histories and the interleaving "a request waits at the delegate while another arrives", window monitor on
    # what went through without a prompt
    appr = lib.run_harness("velocity", "approver", res.seed, 25 if quick else 250, res.tier, timeout=3000)
    acases = appr.get("ACASE", [])
    for c in [c for c in acases if c.get("violation")][:2]:
        res.violation("VelocityApprover let more through without asking than its limit allows inside one window: %s" % c["violation"],
                      {"domain": "velocity-approver", "seed": res.seed, "case": c})
    cov["approver_histories"] = len(acases)
    cov["approver_stats"] = appr.get("STATS", [])
    # the fee side as the daemon reaches it: SignWithdrawal through the wire codec and RootHandler (the onchain
    # domain's handler sub-domain, true input values taken from the previous transactions): what the fee control
    # books for a signed transaction is what that transaction gives away -- the amounts C12_window sums are the
    # amounts actually spent
    hand, hand_aborted = [], []
    n_hand = 240 if quick else 3000
    for k in range(3 if quick else 10):
        try:
            r = lib.run_harness("onchain", "handler", res.seed * 1000 + 500 + k, n_hand // (3 if quick else 10), res.tier)
            hand += r["CASE"]
        except lib.Fail as e:
            if "build failed" in str(e):
                raise
            hand_aborted.append(str(e)[-300:])
    fee_mon = [c for c in hand if any("fee velocity" in m for m in c.get("monitor_violation", []))]
    for c in fee_mon[:2]:
        res.violation("fee velocity through SignWithdrawal (wire codec + RootHandler): " +
                      "; ".join(m for m in c["monitor_violation"] if "fee velocity" in m)[:600],
                      {"domain": "onchain-handler", "seed": res.seed,
                       "case": {k: v for k, v in c.items() if not k.startswith("coq")}})
    for e in hand_aborted[:1]:
        res.violation("the signer process went down while handling SignWithdrawal", {"domain": "onchain-handler", "error": e})
    allc = bcases + ncases
    nontrivial = set()
    for c in bcases:
        oks = [o[2] for o in c["ops"]]
        if True in oks and False in oks:
            nontrivial.add(c["coq"])
    for c in ncases:
        flat = [o for o in c["ops"] if o != "restart" and o[0] != "heartbeat"]
        if "restart" in c["ops"] and any(o[3] for o in flat) and any(not o[3] for o in flat):
            nontrivial.add(c["coq_pay"] + c["coq_fee"])
    cov.update({
        "evaluations": len(allc),
        "distinct_nontrivial": len(nontrivial),
        "rule": "bare: random (buckets, interval, limit) x <=14 inserts with gaps at 0, interval-1, interval, "
                "(nb-1)*interval, nb*interval(+1) and amounts at 0, 1, limit/2(+1), limit, limit+1, 2^64-2, 2^64-1; "
                "node: add_keysend (payment control) and check_onchain_tx (fee control) under a ManualClock with restarts from the store and heartbeats (which prune approvals that ran out; pauses up to 25 h) in between, projected per control; "
                "approver: VelocityApprover<prompting delegate> with keysend approvals at bucket boundaries, one step in three with a second request arriving while the first waits at the delegate (two threads), checked by the window monitor only; "
                "handler: SignWithdrawal messages (1-3 wallet inputs of every script kind, honest and lying witness_utxo / previous transactions) through the wire codec and RootHandler, "
                "the booked fee compared with true inputs minus beneficial outputs; a case is "
                "non-trivial when it has both an approved and a refused insert (node: and a restart); "
                "distinct by full operation list",
        "samples": [{k: v for k, v in bcases[0].items() if k != "coq"},
                    {k: v for k, v in ncases[0].items() if not k.startswith("coq")}],
        "traces_validated_against_impl": len(allc),
        "correspondence_disagreements": len(fb) + len(fn),
        "monitor_failures": len(mon) + len(fee_mon),
        "sign_withdrawal_requests_checked_for_fee_booking": len(hand),
        "harness_stats": bare.get("STATS", []) + node.get("STATS", []),
    })
    res.assumptions = [
        "timestamps are non-decreasing (the property's own quantifier)",
        "serde round-trip of NodeStateEntry is the identity on (start_sec, buckets) (exercised, not proved)",
        "the correspondence is differential testing: bounded by the generator described in coverage.rule",
    ]
