"""C18 — channel keys are a stable function of seed and channel id."""
import lib

MANIFEST = dict(
    text="Coq theorems over an executable model of the keys manager and node (Model/Keys.v) and of VLS's compact "
         "secret store (Model/Secrets.v): C18_history_independent / C18_channel_keys_function — for the Native and "
         "Ldk styles every reachable manager state derives, and every channel slot of every reachable node (any "
         "creation order, other channels, setup, restarts) carries, exactly keys_of(style, network, seed, id), hence "
         "the same basepoints, funding key, per-commitment points and secrets; C18_distinct / C18_distinct_secrets — "
         "C18_channel_id_injective — (peer id, dbid) -> channel id is injective on all 64-bit dbids (and the real id bytes are compared with it on every run); different API channel ids give different keys under injectivity of the hash parameters (the HMAC key padding "
         "is proved injective on API ids); C18_derivation_tree and C18_tree(_any_hash) — for every seed and every hash "
         "the secrets of commitment numbers 0..n-1 (n up to 2^48), provided in order to an empty "
         "CounterpartyCommitmentSecrets, are all accepted, the store holds at most 49 entries and returns every one of "
         "them (invariant by induction; build_commitment_secret is executable over a Gallina SHA-256 validated "
         "against FIPS/RFC/BOLT-3 vectors).  On every run the real Node (new_channel / setup_channel / restore) is "
         "driven through all creation orders of <= 4 channel ids with restarts, a monitor compares every observation "
         "of the same (seed, style, id) across histories, a real channel is advanced through the protocol handler (hsmd protocol 4/5/6) and every API handing out a per-commitment point or secret, incl. replayed revocations, (and CheckFutureSecret over the wire) is compared with the derivation for the number asked, and the secret keys, keys_id, commitment seed and released "
         "secrets are recomputed inside Coq (HKDF/SHA-256 in Gallina, BIP32 child key by oracle); the real "
         "CounterpartyCommitmentSecrets is run against the model on descending / gapped / wrong / malformed streams "
         "of real released secrets.",
    design="§4 C18",
    note=lib.TB + "Assumed (premises of C18_distinct only): injectivity of HKDF in its salt on API ids (after the LDK "
         "mask), of the 192-byte expansion, and of SHA-256.  Modelled, not verified: rust-bitcoin BIP32 (oracle), "
         "libsecp256k1 point multiplication (points are compared across histories and against the released secrets "
         "in the harness), LDK InMemorySigner / build_commitment_secret (compared with the Gallina function on every run).",
    technique="Coq proof (invariants by induction over histories and over the secret sequence) + vm_compute "
              "correspondence with the Rust implementation",
)

PINNED = ["C18_history_independent", "C18_channel_keys_function", "C18_check_future_secret",
          "C18_channel_id_injective", "C18_channel_id_is_api_id", "C18_distinct", "C18_distinct_secrets",
          "C18_api_ids_not_confused_by_padding", "C18_derivation_tree", "C18_tree_any_hash", "C18_tree",
          "C18_nonvacuous", "C18_tree_nonvacuous", "C18_lnd_order_dependent"]


def _strip(c):
    return {k: v for k, v in c.items() if k != "coq"}


def run(res):
    quick = res.tier == "quick"
    lib.proof_stage(res, "C18.v", "Props.C18", PINNED)
    cov = res.coverage
    n_hist = 16 if quick else 120
    n_store = 27 if quick else 180
    hist = lib.run_harness("keys", "hist", res.seed, n_hist, res.tier)
    store = lib.run_harness("keys", "store", res.seed, n_store, res.tier)
    adv = lib.run_harness("keys", "adv", res.seed, 12 if quick else 72, res.tier)
    acases = adv.get("CASE", [])
    kcases, scases = hist.get("CASE", []) + acases, store.get("CASE", [])
    broken = [c for c in kcases if c["coq"].startswith("(*")]       # a channel that could not even be set up
    kcases = [c for c in kcases if not c["coq"].startswith("(*")]
    imports = ["Model.KeysCheck"]
    fk = lib.coq_failures(imports, "keys_case", "check_keys", [c["coq"] for c in kcases], "c18_keys")
    fs = lib.coq_failures(imports, "store_case", "check_store", [c["coq"] for c in scases], "c18_store")
    idr = lib.run_harness("keys", "ids", res.seed, 4 if quick else 24, res.tier)
    icases = idr.get("CASE", [])
    id_terms = [(c, t) for c in icases for t in c["coq_ids"]]
    ik_terms = [(c, t) for c in icases for t in c["coq_keys"]]
    fi = lib.coq_failures(imports, "id_case", "check_id", [t for _, t in id_terms], "c18_ids")
    fik = lib.coq_failures(imports, "keys_case", "check_keys", [t for _, t in ik_terms], "c18_idkeys",
                           shards=min(lib.NCPU, max(1, len(ik_terms))))
    fcases = adv.get("FCASE", [])
    ff = lib.coq_failures(imports, "future_case", "check_future", [c["coq"] for c in fcases], "c18_future",
                          shards=min(lib.NCPU, max(1, len(fcases))))

    # the property itself on the implementation's answers
    mon = []
    for c in icases:
        # most telling first: two names sharing keys, then the rest
        vs = c.get("monitor_violations", [])
        for v in sorted(vs, key=lambda v: 0 if "share" in v.get("what", "") else 1):
            mon.append(("ids", v, c))
    for c in broken + kcases:
        for v in c.get("monitor_violations", []):
            mon.append(("keys", v, c))
    for m in store.get("MONITOR", []):
        mon.append(("store", m, scases[m["case"]] if m.get("case", -1) < len(scases) else {}))
    for kind, v, c in mon[:3]:
        if kind == "ids":
            res.violation("(peer id, dbid) does not name a channel with keys of its own: " + v.get("what", ""),
                          {"domain": "keys-ids", "seed": res.seed, "violation": v, "node_seed": c.get("seed"),
                           "style": c.get("style"), "hsmd_protocol": c.get("proto"),
                           "peer_a": c.get("peer_a"), "peer_b": c.get("peer_b"), "names": c.get("names")})
        elif kind == "keys" and c.get("kind") == "adv":
            res.violation("per-commitment points / secrets are not a function of (seed, channel id, number asked): "
                          + v.get("what", ""),
                          {"domain": "keys-adv", "seed": res.seed, "violation": v, "node_seed": c.get("seed"),
                           "style": c.get("style"), "hsmd_protocol": c.get("proto"), "channel_id": c.get("channel_id")})
        elif kind == "keys":
            res.violation("channel keys are not a stable function of (seed, style, id): " + v.get("what", ""),
                          {"domain": "keys-hist", "seed": res.seed, "violation": v,
                           "node_seed": c.get("seed"), "style": c.get("style"),
                           "channel_ids_world": c.get("world"), "histories": c.get("histories")})
        else:
            res.violation("compact secret storage: " + v.get("what", ""),
                          {"domain": "keys-store", "seed": res.seed, "violation": v, "case": _strip(c)})
    if not mon:
        for i in fk[:2]:
            c = kcases[i]
            model = lib.coq_eval(imports, "keys_model (%s)" % c["coq"], "c18_show")
            res.violation("derived keys / keys_id / released secrets disagree with Model.Keys (correspondence keys-hist)",
                          {"correspondence": "keys-hist", "theorem": "C18_channel_keys_function",
                           "case": _strip(c), "model": model[-3000:]}, has_input=False)
        for i in fi[:2]:
            c, t = id_terms[i]
            res.violation("the channel id the signer uses for a (peer id, dbid) pair is not Model.Keys.chan_id_of peer dbid "
                          "(correspondence keys-ids); C18_channel_id_injective no longer carries over",
                          {"correspondence": "keys-ids", "theorem": "C18_channel_id_injective", "id_case": t,
                           "names": c.get("names")}, has_input=False)
        for i in fik[:2]:
            c, t = ik_terms[i]
            model = lib.coq_eval(imports, "keys_model (%s)" % t, "c18_show")
            res.violation("the keys of a (peer id, dbid) channel disagree with Model.Keys over chan_id_of peer dbid "
                          "(correspondence keys-ids)",
                          {"correspondence": "keys-ids", "theorem": "C18_channel_keys_function", "names": c.get("names"),
                           "model": model[-2000:]}, has_input=False)
        for i in ff[:2]:
            c = fcases[i]
            model = lib.coq_eval(imports, "future_model (%s)" % c["coq"], "c18_show")
            res.violation("the CheckFutureSecret answers disagree with Model.Keys.check_future_secret over the secrets "
                          "derived from (seed, channel id) (correspondence keys-adv)",
                          {"correspondence": "keys-adv/future", "theorem": "C18_check_future_secret",
                           "case": _strip(c), "model": model[-3000:]}, has_input=False)
        for i in fs[:2]:
            c = scases[i]
            model = lib.coq_eval(imports, "store_model (%s)" % c["coq"], "c18_show")
            res.violation("CounterpartyCommitmentSecrets disagrees with Model.Secrets (correspondence keys-store)",
                          {"correspondence": "keys-store", "theorem": "C18_tree", "case": _strip(c),
                           "model": model[-3000:]}, has_input=False)

    hstats = hist.get("STATS", [{}])[0]
    if hstats.get("lnd_control_trials", 0) and not hstats.get("lnd_control_order_dependent", 0):
        lib.log("[c18] note: the LND control did not show order dependence in this run")
    nontrivial = set()
    for c in kcases:
        if c.get("has_secrets") and (c.get("orders", 0) >= 2 or
                                     (c.get("kind") == "adv" and c.get("next_holder_commit_num", 0) >= 3)):
            nontrivial.add(c["coq"])
    for c in scases:
        oks = c.get("oks", [])
        qk = c.get("query_kinds", [])
        if (True in oks and False in oks) or (c.get("final_len", 0) >= 3 and 0 in qk and (1 in qk or 2 in qk)):
            nontrivial.add(c["coq"])
    for c in fcases:
        if c.get("answered_true", 0) and c.get("answered_true", 0) < c.get("queries_total", 0):
            nontrivial.add(c["coq"])
    for c, t in id_terms + ik_terms:
        nontrivial.add(t)
    allc = kcases + scases + fcases + [t for _, t in id_terms + ik_terms]
    cov.update({
        "evaluations": len(allc),
        "distinct_nontrivial": len(nontrivial),
        "rule": "keys-hist: per world a seed (all-zero, all-ff, random), a style (Native/Ldk alternating) and 1..4 distinct "
                "channel ids (peer x dbid with dbid at 1, 2, 255, 256, 2^32-1, 2^32, 2^63, 2^64-1, same peer / same dbid "
                "neighbours); every creation order (quick: 6 of the 24 orders for 4 ids) run on a fresh store with "
                "restarts (the history ends with two more, through KVVPersister<MemoryKVVStore>), setups (half of them WITH a "
                "permanent channel id that differs from id0), random extra channels, re-creation and observations "
                "interleaved; every observation is made under EVERY id the channel has (id0 and the permanent id) and "
                "includes the slot kind (stub / ready: once set up, ready under every id after any number of restarts), "
                "and is compared with what (seed, id0) gave elsewhere; one Coq case per "
                "(seed, style, id) with the secret keys, keys_id, commitment seed and the secrets of one number in 0..5 "
                "plus three boundary numbers (6..65536, 2^47, 2^48-1 …, random 48-bit); non-trivial = observed in >= 2 "
                "orders and with released secrets.  keys-adv: a real set-up channel advanced 4..7 holder commitments "
                "through the handler (ValidateCommitmentTx2 with real counterparty signatures, RevokeCommitmentTx) at hsmd "
                "protocol 4 / 5 / 6, restarts in between, with the retries the signer accepts -- the same ValidateCommitmentTx(2) "
                "again before the revocation, after it (the channel has moved on) and after a restart, as phase-1 "
                "(transaction + PSBT witness scripts) and phase-2 message -- and EVERY `next_per_commitment_point` / "
                "secret in any reply compared with the derivation for the number the protocol assigns to it (reply to "
                "Validate(n): point n+1, below protocol 5 secret n-1; reply to Revoke(n): point n+2, secret n); at every state every API that hands out a per-commitment point "
                "or secret (get_per_commitment_point, get_per_commitment_secret(_or_none), "
                "revoke_previous_holder_commitment incl. replays of every old number, GetPerCommitmentPoint(2)Reply, "
                "RevokeCommitmentTxReply and ValidateCommitmentTxReply incl. replays) is asked for every number in reach "
                "and compared with the derivation for the number ASKED; the asked-number -> secret map is recomputed in "
                "Coq from (seed, id); non-trivial = reached next_holder_commit_num >= 3 (old revocations replayed); on the same channels, "
                "before / during / after the advance and after restarts, the CheckFutureSecret wire route (as_vec -> "
                "from_vec -> ChannelHandler::handle) for n in {0, 1, 2, small, 2^47, random 48-bit, 2^48-2, 2^48-1} with "
                "secret(n), secret(n-1), secret(n+1), another channel's secret(n) and random bytes, expected true exactly "
                "for the own secret of n (monitor) and eight of the answers per channel recomputed in Coq from (seed, id).  "
                "keys-ids: per node 15 channels of two peers named by (peer id, dbid) with dbids k, k+2^32, 2^32-1, 2^32, "
                "2^32+1, 2^48+k, 2^63, 2^64-2, 2^64-1, hi<<32, (hi<<32)+k (12 pairs per node agree in their low 32 bits), "
                "created through Node::new_channel and the NewChannel message, in both orders, every third set up, with a "
                "restart: channel count in the node and in the store, look-up and store key under the harness's own "
                "peer||dbid_le encoding, slot id, GetChannelBasepoints / GetPerCommitmentPoint(2) through the (peer, dbid) "
                "handlers, pairwise-distinct funding key, basepoints, points 0/1, secret keys, commitment seed, first "
                "secret, stability across orders and the restart; in Coq every real id against chan_id_of peer dbid and "
                "three channels' keys from (seed, chan_id_of peer dbid).  In every sub-domain the channel id given to the "
                "model and used for look-ups is the harness's own encoding, never ChannelId::new_from_peer_id_and_oid.  keys-store: nine stream kinds over the real released secrets of a "
                "real channel (descending, gaps, wrong secret, repeats/older, the current minimum again with another secret, late start, malformed indices up to "
                "2^64-1, long descending, mixed) with get_secret queries around every index; non-trivial = both an "
                "accepted and a refused secret, or >= 3 slots with found and not-found/panicking queries; distinct by "
                "full case term",
        "samples": [_strip(kcases[0]) if kcases else {}, _strip(acases[0]) if acases else {},
                    _strip(scases[0]) if scases else {}],
        "traces_validated_against_impl": len(allc),
        "correspondence_disagreements": len(fk) + len(fs) + len(ff) + len(fi) + len(fik),
        "monitor_failures": len(mon),
        "harness_stats": hist.get("STATS", []) + adv.get("STATS", []) + idr.get("STATS", []) + store.get("STATS", []),
    })
    for s in cov["samples"]:
        if "histories" in s:
            s["histories"] = s["histories"][:2]
        if "history" in s:
            s["history"] = s["history"][:40]
    res.assumptions = [
        "C18_distinct only: HKDF injective in its salt on API channel ids (after the LDK mask), its 192-byte expansion "
        "injective in the key, SHA-256 injective (collision resistance idealised); HKDF output length 32*n bytes",
        "BIP32 hardened child derivation (rust-bitcoin) enters the executable model as an oracle value per case",
        "per-commitment points are G * secret (libsecp256k1): checked in the harness, not modelled",
        "the LND style is excluded by the property; the harness shows it order dependent as a control",
        "the correspondence is differential testing: bounded by the generator described in coverage.rule",
    ]
