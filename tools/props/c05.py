"""C05 — accepted commitments satisfy every mandatory policy bound."""
import lib
import gen_rustfn

MANIFEST = dict(
    text="Coq theorem C05_accept_implies_bounds: for every policy, setup, chain state, enforcement state, commitment "
         "number and content (amounts unbounded naturals with the code's checked / plain / truncating operations "
         "modelled, so every u64 overflow candidate is inside the quantifier), if validate_counterparty_commitment_tx "
         "or validate_holder_commitment_tx of the simple or the on-chain validator answers Ok under a non-permissive "
         "filter then the mathematical conjunction holds: implied fee within the BOLT-3 fees of [min,max] feerate, no "
         "main output or HTLC below its dust/trim limit, HTLC count, in-flight sum, expiry window, initial-commitment "
         "rules; C05_accept_per_tag gives each bound for an arbitrary filter unless its own tag is downgraded; "
         "C05_setup (safe type, both delays in range), C05_channel_value (no counterparty signature above the size "
         "limit), C05_onchain (nothing beyond commitment 0 while funding unconfirmed or closed), C05_usable_only_after_setup "
         "(over all request histories on a channel id: a signed / accepted commitment belongs to a ready channel whose "
         "setup passed validate_setup_channel), C05_signed_commitment_bounds (a phase-2 signature is for the request's own "
         "lists, repeated HTLC entries included, and that content is within the bounds), filter theorems (only "
         "an explicit Warn rule downgrades).  The model is run against the real validators (through the Validator "
         "trait) and against Channel::sign_counterparty_commitment_tx_phase2 on every run with boundary-crossed "
         "inputs, and an independent u128 reference predicate monitors every acceptance.  C05_feerate_estimate_is_source / C05_commitment_weight_is_source: the fee helpers ARE the source's - estimate_feerate_per_kw and expected_commitment_tx_weight (util/transaction_utils.rs) are translated on every run by tools/gen_rustfn.py (Gen/TxUtilGen.v) and proved equal to the model's definitions for every u64 fee and non-zero weight, in both build profiles.  C05_commitment_rules_are_source / C05_expiry_rule_is_source / C05_fee_rule_is_source: the commitment rules ARE the source's - SimpleValidator::validate_commitment_tx (whole body), ::validate_expiry, ::validate_fee with ChannelSetup::is_anchors / ::is_zero_fee_htlc and CommitmentInfo2::value_to_parties are translated statement by statement on every run (Gen/CommitmentPolicyGen.v, records generated from the struct declarations, constants read from their files) and proved equal to the model's validate_commitment / validate_expiry / validate_fee on the abstraction of every source-level value, for every policy filter, both build profiles, refusal tags and panics included; C05_source_accept_implies_bounds carries the bounds over to what the translated function accepts.  C05_counterparty_rules_are_source / C05_holder_rules_are_source: the two entry points validate_counterparty_commitment_tx / validate_holder_commitment_tx (whole bodies: the call of validate_commitment_tx, the revocation window, the retry rules, holder-not-revoked, the closed-channel rule) are translated on every run (Gen/EnforcementRulesGen.v over Gen/EnforcementGen.v) and proved equal, tags and panics included, to the model's validate_counterparty_commitment / validate_holder_commitment with the translated validate_commitment_tx in the place of the call.  C05_channel_value_rule_is_source / C05_source_channel_value_ok_implies_bound: SimpleValidator::validate_channel_value (policy-funding-max; called by channel.rs before every counterparty-commitment signature with the policy then in force) is translated on every run and equals the model's validate_channel_value; its Ok means channel_value_sat <= max_channel_size_sat.",
    design="§4 C05",
    note=lib.TB + "Additionally trusted: tools/gen_rustfn.py and the meaning Base/Rust.v gives to the Rust constructs it reads; side conditions of the source theorems (boolean commit_fits): channel_value_sat fits u64, feerate_per_kw fits u32, (number of HTLCs)*172+1124 fits usize; LDK's htlc_timeout/success_tx_weight and the policy filter are parameters of the translation.  Side conditions stated in the theorem: max_feerate_per_kw < u32::MAX (u32::MAX means no maximum "
         "after the repair saturates), and in release builds current_height + delay <= u32::MAX (debug builds panic "
         "instead of wrapping).  Modelled, not verified: LDK HTLC weights (663/703), CommitmentInfo2 ordering, the "
         "wallet's can_spend / allowlist answers, payment and balance checks around the validator.",
    technique="Coq proof (implication over unbounded integers with machine arithmetic modelled) + vm_compute "
              "correspondence with the Rust validators + u128 reference monitor",
)

PINNED = ["C05_accept_implies_bounds", "C05_accept_per_tag", "C05_setup", "C05_channel_value", "C05_onchain",
          "C05_usable_only_after_setup", "C05_signed_commitment_bounds", "C05_dedup_validation_refuted", "C05_filter_default", "C05_filter_only_explicit", "C05_nonvacuous",
          "C05_fee_truncation_refuted"]

# the tie to the source: Gen/TxUtilGen.v and Gen/CommitmentPolicyGen.v are regenerated from /repo right before the build
SOURCE_PINNED = ["C05_feerate_estimate_is_source", "C05_feerate_estimate_zero_weight_panics",
                 "C05_commitment_weight_is_source", "C05_expiry_rule_is_source", "C05_fee_rule_is_source",
                 "C05_commitment_rules_are_source", "C05_source_accept_implies_bounds",
                 "C05_counterparty_rules_are_source", "C05_holder_rules_are_source",
                 "C05_channel_value_rule_is_source", "C05_source_channel_value_ok_implies_bound"]

IMPORTS = ["Model.CommitmentPolicyCheck"]


def _strip(c):
    return {k: v for k, v in c.items() if k != "coq"}


def run(res):
    quick = res.tier == "quick"
    # the translator regenerates Gen/TxUtilGen.v from /repo's transaction_utils.rs under the build lock, right before
    # the theorems that relate it to the model's fee helpers are re-checked
    report = {}

    def regen():
        report.update(gen_rustfn.generate_txutil(lib.REPO))
        stage["at"] = "commitment"
        # Gen/CommitmentPolicyGen.v: validate_expiry, validate_fee, validate_commitment_tx and the helpers they call
        report["commitment_policy"] = gen_rustfn.generate_commitment_policy(lib.REPO)
        # Gen/EnforcementGen.v + Gen/EnforcementRulesGen.v: the two entry points around validate_commitment_tx
        report["enforcement"] = gen_rustfn.generate_enforcement(lib.REPO)
        report["entry_points"] = gen_rustfn.generate_enforcement_rules(lib.REPO)
    stage = {"at": "txutil"}
    try:
        lib.proof_stage(res, "C05.v", "Props.C05", PINNED + SOURCE_PINNED, pre=regen)
    except gen_rustfn.GenError as e:
        if stage["at"] == "txutil":
            res.violation("the translator cannot read estimate_feerate_per_kw / expected_commitment_tx_weight (a construct "
                          "outside its fragment): %s" % e,
                          {"translator": "tools/gen_rustfn.py", "source": "vls-core/src/util/transaction_utils.rs",
                           "error": str(e), "theorem": "C05_feerate_estimate_is_source"}, has_input=False)
        else:
            res.violation("the translator cannot read validate_commitment_tx / validate_expiry / validate_fee, the entry points "
                          "validate_counterparty_commitment_tx / validate_holder_commitment_tx, or a helper, declaration or constant they use (a construct outside its fragment): %s" % e,
                          {"translator": "tools/gen_rustfn.py",
                           "source": "vls-core/src/policy/simple_validator.rs (+ channel.rs, tx/tx.rs, policy/validator.rs, "
                                     "policy/mod.rs, policy/error.rs, util/transaction_utils.rs)",
                           "error": str(e), "theorem": "C05_commitment_rules_are_source"}, has_input=False)
    res.coverage["translated_from_source"] = report
    cov = res.coverage
    profiles = ["debug"] if quick else ["debug", "release"]
    n_commit = 3000 if quick else 100000
    n_setup = 600 if quick else 8000
    n_chan = 150 if quick else 1500
    n_life = 140 if quick else 2100
    n_wire = 300 if quick else 6000
    n_signed = 450 if quick else 9000
    n_chainlife = 120 if quick else 2400
    commit, setup, chan, stats = [], [], [], []
    for prof in profiles:
        r = lib.run_harness("policy", "commit", res.seed, n_commit, res.tier, profile=prof)
        commit += r["CASE"]
        stats += r.get("STATS", [])
        r = lib.run_harness("policy", "chan", res.seed, n_chan, res.tier, profile=prof)
        chan += r["CASE"]
        stats += r.get("STATS", [])
    r = lib.run_harness("policy", "setup", res.seed, n_setup, res.tier)
    setup = r["CASE"]
    stats += r.get("STATS", [])
    r = lib.run_harness("policy", "life", res.seed, n_life, res.tier)
    life = r["CASE"]
    stats += r.get("STATS", [])
    r = lib.run_harness("policy", "wire", res.seed, n_wire, res.tier)
    wire = r["CASE"]
    stats += r.get("STATS", [])
    life = life + wire     # same case type (life_case), same checker
    r = lib.run_harness("policy", "chainlife", res.seed, n_chainlife, res.tier)
    chainlife = r["CASE"]
    stats += r.get("STATS", [])
    chan = chan + chainlife     # same case type per step (sign_case), same checker
    signed = []
    for prof in profiles:
        r = lib.run_harness("policy", "signed", res.seed, n_signed, res.tier, profile=prof)
        signed += r["CASE"]
        stats += r.get("STATS", [])

    cterms = [c["coq"] for c in commit]
    sterms = [c["coq"] for c in setup]
    chan_steps = [(c, i) for c in chan for i in range(len(c["coq"]))]
    hterms = [c["coq"][i] for c, i in chan_steps]
    fc = lib.coq_failures(IMPORTS, "commit_case", "check_commit", cterms, "c05_commit")
    fs = lib.coq_failures(IMPORTS, "setup_case", "check_setup", sterms, "c05_setup")
    fh = lib.coq_failures(IMPORTS, "sign_case", "check_sign", hterms, "c05_sign")
    gterms = [c["coq"] for c in signed]
    fg = lib.coq_failures(IMPORTS, "commit_case", "check_signed", gterms, "c05_signed")
    lterms = [c["coq"] for c in life]
    fl = lib.coq_failures(IMPORTS, "life_case", "check_life", lterms, "c05_life")

    # the property itself on the implementation's answers (u128 reference predicate in the harness)
    mon_commit = [c for c in commit if c["monitor_violation"]]
    mon_setup = [c for c in setup if c["monitor_violation"]]
    mon_chan = [c for c in chan if c["monitor_violation"]]
    mon_life = [c for c in life if c["monitor_violation"]]
    mon_signed = [c for c in signed if c["monitor_violation"]]
    for c in mon_signed[:3]:
        res.violation("a commitment outside the policy bounds was SIGNED (the returned signature verifies against the "
                      "transaction built from the full HTLC lists of the request, repeated entries included): "
                      + "; ".join(c["monitor_violation"][:2]),
                      {"domain": "policy-signed", "seed": res.seed, "case": _strip(c)})
    for c in [c for c in mon_life if c["kind"] == "life"][:2]:
        res.violation("a commitment was signed / accepted on a channel whose setup did not pass validate_setup_channel "
                      "(new_channel, setup_channel refused, then requests on the same channel id): "
                      + "; ".join(c["monitor_violation"][:3]),
                      {"domain": "policy-life", "seed": res.seed, "case": _strip(c)})
    for c in [c for c in mon_life if c["kind"] == "wire"][:2]:
        res.violation("channel set up through the wire (NewChannel, SetupChannel): the ChannelSetup differs from the "
                      "message, or an initial commitment outside the bounds computed from the wire values was accepted: "
                      + "; ".join(c["monitor_violation"][:3]),
                      {"domain": "policy-wire", "seed": res.seed, "case": _strip(c)})
    # end-to-end first: a real channel signing the commitment
    for c in [c for c in mon_chan if c["kind"] == "chainlife"][:2]:
        res.violation("on-chain validator on the KVV persister: a counterparty commitment beyond the initial one was signed "
                      "although, by the harness's own record of the best chain, the funding transaction is in no block or "
                      "its output is spent: " + "; ".join(c["monitor_violation"][:2]),
                      {"domain": "policy-chainlife", "seed": res.seed, "case": _strip(c)})
    for c in [c for c in mon_chan if c["kind"] != "chainlife"][:2]:
        res.violation("counterparty commitment outside the policy bounds was signed by "
                      "Channel::sign_counterparty_commitment_tx(_phase2): " + "; ".join(c["monitor_violation"][:3]),
                      {"domain": "policy-chan", "seed": res.seed, "case": _strip(c)})
    for c in mon_commit[:2]:
        res.violation("validator accepted a commitment outside the policy bounds: " + "; ".join(c["monitor_violation"]),
                      {"domain": "policy-commit", "seed": res.seed, "case": _strip(c)})
    for c in mon_setup[:2]:
        res.violation("validate_setup_channel / validate_channel_value accepted outside policy: "
                      + "; ".join(c["monitor_violation"]),
                      {"domain": "policy-setup", "seed": res.seed, "case": _strip(c)})

    # correspondence disagreements; say whether the implementation still behaves like the estimator as found
    explained_old = None
    if fc or fh:
        explained_old = 0
        if fc:
            bad = [cterms[i] for i in fc]
            still = lib.coq_failures(IMPORTS, "commit_case", "check_commit_old", bad, "c05_commit_old")
            explained_old += len(bad) - len(still)
        if fh:
            bad = [hterms[j] for j in fh]
            still = lib.coq_failures(IMPORTS, "sign_case", "check_sign_old", bad, "c05_sign_old")
            explained_old += len(bad) - len(still)
    have_input = bool(mon_commit or mon_chan or mon_setup or mon_life or mon_signed)
    shown = 0
    for i in fg:
        c = signed[i]
        if c["monitor_violation"]:
            continue
        if shown >= 2:
            break
        shown += 1
        model = lib.coq_eval(IMPORTS, "signed_model (%s)" % c["coq"], "c05_show")
        res.violation("phase-2 signing with HTLC lists disagrees with the model (correspondence policy-signed); observed 0 "
                      "signed for the full lists, 1 panic, 2 refused, 3/4 signed for another transaction; model 0/1/2",
                      {"correspondence": "policy-signed", "theorem": "C05_signed_commitment_bounds", "case": _strip(c),
                       "model": model[-200:]}, has_input=False)
    shown = 0
    for i in fc:
        c = commit[i]
        if have_input and c["monitor_violation"]:
            continue   # already reported with its input
        if shown >= 2:
            break
        shown += 1
        model = lib.coq_eval(IMPORTS, "(commit_model (%s), commit_model_old (%s))" % (c["coq"], c["coq"]), "c05_show")
        res.violation("real validator disagrees with Model.CommitmentPolicy (correspondence policy-commit); "
                      "codes: 0 accepted, 1 panic, 100+k refused with tag k",
                      {"correspondence": "policy-commit", "theorem": "C05_accept_implies_bounds",
                       "case": _strip(c), "model(repaired, as-found)": model[-300:]}, has_input=False)
    for i in fs[:2]:
        c = setup[i]
        model = lib.coq_eval(IMPORTS, "setup_model (%s)" % c["coq"], "c05_show")
        res.violation("validate_setup_channel / validate_channel_value disagree with the model (correspondence policy-setup)",
                      {"correspondence": "policy-setup", "theorem": "C05_setup", "case": _strip(c),
                       "model": model[-300:]}, has_input=False)
    shown = 0
    for i in fl:
        c = life[i]
        if c["monitor_violation"]:
            continue
        if shown >= 2:
            break
        shown += 1
        model = lib.coq_eval(IMPORTS, "life_model (%s)" % c["coq"], "c05_show")
        res.violation("setup_channel / commitment requests on one channel id disagree with the model's lifecycle "
                      "(correspondence policy-%s); 0 ok, 1 panic, 2 refused" % c["kind"],
                      {"correspondence": "policy-" + c["kind"], "theorem": "C05_usable_only_after_setup", "case": _strip(c),
                       "model": model[-300:]}, has_input=False)
    shown = 0
    for j in fh:
        c, i = chan_steps[j]
        if c["monitor_violation"]:
            continue
        if shown >= 2:
            break
        shown += 1
        model = lib.coq_eval(IMPORTS, "(sign_model (%s), sign_model_old (%s))" % (c["coq"][i], c["coq"][i]), "c05_show")
        res.violation("sign_counterparty_commitment_tx(_phase2) disagrees with the model's sign_counterparty "
                      "(correspondence policy-chan); 0 signed, 1 panic, 2 refused",
                      {"correspondence": "policy-chan", "theorem": "C05_channel_value", "case": _strip(c),
                       "step": (c["steps"][i] if c["kind"] != "chainlife" else "commitment request #%d of the case" % i),
                       "model(repaired, as-found)": model[-300:]}, has_input=False)

    structured = {c["coq"] for c in commit if c["kind"] in ("base", "pairwise")}
    nontrivial = len(structured) + len(set(sterms)) + len(set(hterms)) + len(set(lterms)) + len(set(gterms))
    dist = {}
    for c in commit:
        dist[str(c["observed"])] = dist.get(str(c["observed"]), 0) + 1
    witness = [c for c in chan if c["kind"] == "chan-F5-witness"]
    cov.update({
        "evaluations": len(commit) + len(setup) + len(hterms) + len(life) + len(signed),
        "distinct_nontrivial": nontrivial,
        "rule": "commit: 10% fully random edge values (malformed stream), 10% accepted base commitments, 80% an accepted "
                "base commitment with two fields (all 351 pairs of 27 fields cycled) set to boundary values derived from "
                "the case: limit-1/limit/limit+1, 0, 1, 2^32+-1, 2^63, 2^64-2, 2^64-1, fee at the edges of the BOLT-3 "
                "window, fee = ceil((k*2^32+r)*weight/1000) (truncation class), fee*1000 around 2^64, sums that overflow "
                "u64, heights where u32 height+delay wraps, counts/in-flight/feerates at +-1 of the policy, retry and "
                "closed flags, filter rule sets (exact, prefix, error-before-warn, permissive); all four entry points. "
                "setup: types x delays at min/max +-1, 0, 65535 x shutdown script ours/allowlisted/foreign x channel value "
                "around max_channel_size_sat x filters. chan: real node+channel, initial commitment / retry / next with "
                "fee and channel value at the edges, simple and on-chain validator. life: real node, one channel id: "
                "setup_channel refused for each modelled reason (each delay below/above, unsafe type, foreign shutdown "
                "script; accepted as control), then sign_counterparty_commitment_tx_phase2 and "
                "validate_holder_commitment_tx_phase2 (with a genuine counterparty signature) for commitment 0, a retry of "
                "the refused setup, a good setup, the requests again, the first setup again. wire: NewChannel to the RootHandler and SetupChannel to the "
                "ChannelHandler (as_vec -> from_vec, protocol 4/5/6) with every field varied (role, value, push in msat "
                "incl. 0.1% of the channel and above the channel, txid/vout, both delays, shutdown scripts, remote keys, "
                "channel_type bits incl. anchors / zero-fee / padding), mostly valid with one kind of field over an edge; "
                "the ChannelSetup is read back and compared field by field with the message; SignRemoteCommitmentTx2 for "
                "commitment 0 giving the fundee 1000x the push / the msat figure / push+1 / the push, then "
                "ValidateCommitmentTx2 with a genuine counterparty signature; bounds computed from the wire values. signed: commitment 1 with HTLC lists through "
                "Channel::sign_counterparty_commitment_tx_phase2, the SignRemoteCommitmentTx2 handler and "
                "sign_holder_commitment_tx_phase2_redundant; 2-3 HTLCs identical in amount, hash and expiry on the offered "
                "side, the received side or both (plus distinct ones); modes valid / fee below min / fee above max / "
                "in-flight one over (or exactly the sum without repeats) / count one over; the signature is verified "
                "against the transaction built with LDK from the full lists and the bounds are evaluated on that. "
                "chainlife: OnchainValidatorFactory on KVVPersister<MemoryKVVStore, Json>, one outbound channel, random "
                "sequences of honest blocks (filler / with the funding tx / spending the funding output), forged blocks "
                "(proof claims the funding tx, or leaves the spend out, for a header that says otherwise), restarts from "
                "the store and requests for counterparty commitment 1, judged by the harness's own chain record. "
                "Non-trivial = structured case (base "
                "or boundary-mutated; every setup and chan step), distinct by full Coq term.",
        "samples": [_strip(commit[2]) if len(commit) > 2 else None, _strip(setup[0]), _strip(chan[0]), _strip(life[1]),
                    _strip(wire[0]), _strip(signed[0])],
        "traces_validated_against_impl": len(commit) + len(setup) + len(hterms) + len(life) + len(signed),
        "correspondence_disagreements": len(fc) + len(fs) + len(fh) + len(fl) + len(fg),
        "disagreements_by_domain": {"commit": len(fc), "setup": len(fs), "chan": len(fh), "life": len(fl), "signed": len(fg)},
        "disagreements_matching_unrepaired_estimator": explained_old,
        "monitor_failures": len(mon_commit) + len(mon_setup) + len(mon_chan) + len(mon_life) + len(mon_signed),
        "observed_distribution_commit(0 ok,1 panic,100+tag)": dist,
        "profiles": profiles,
        "f5_witness_replay": [s["observed"] for s in witness[0]["steps"]] if witness else None,
        "harness_stats": stats,
    })
    res.assumptions = [
        "max_feerate_per_kw < u32::MAX (u32::MAX = no maximum); release builds: current_height + delay fits u32 "
        "(both are premises of the theorem; C05_max_feerate_u32max_is_unlimited / C05_release_height_wrap show why)",
        "LDK's htlc_timeout/success weights are 663/703 for non zero-fee channel types (exercised through the real code)",
        "wallet answers (can_spend, allowlist) enter the setup model as a flag",
        "the correspondence is differential testing: bounded by the generator described in coverage.rule",
    ]
