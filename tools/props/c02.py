"""C02 — no holder commitment is both signed for broadcast and revoked."""
import lib
from props import chan_common

MANIFEST = dict(
    text="Coq theorems C02_signed_and_revoked_disjoint (every disclosed number is strictly below every number signed for "
         "broadcast, in either order, over every history with restarts, both build profiles) and C02_frozen_after_signature "
         "(after a holder signature no request discloses a secret that was not disclosed before), from the same invariant as C01 "
         "plus 'everything obtainable has been disclosed'.  Correspondence and monitor as for C01.",
    design="§4 C02",
    note=lib.TB + "Same modelling assumptions as C01.  The pre-repair revoke (no policy-revoke-not-closed check) is kept as "
         "C02_old_revoke_refuted.",
    technique="Coq proof (state-machine invariant by induction over request histories) + vm_compute correspondence with the Rust implementation",
)


def run(res):
    chan_common.run(res, "C02.v", ["C02_signed_and_revoked_disjoint", "C02_frozen_after_signature", "C02_nonvacuous"], "C02")
