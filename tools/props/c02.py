"""C02 — no holder commitment is both signed for broadcast and revoked."""
import lib
from props import chan_common
from props.chan_common import TIE, TRUST

MANIFEST = dict(
    text="Coq theorems C02_signed_and_revoked_disjoint (every disclosed number is strictly below every number signed for "
         "broadcast, in either order, over every history with restarts, both build profiles) and C02_frozen_after_signature "
         "(after a holder signature no request discloses a secret that was not disclosed before), from the same invariant as C01 "
         "plus 'everything obtainable has been disclosed'.  Correspondence and monitor as for C01; in the multi-channel "
         "domain (where the revocation's payment re-check can fail) refused revocations are retried with the same number and "
         "a signer restored from a copy of the store after every revocation reply must refuse to sign what was revoked." + TIE +
         "C02_holder_sign_guard_is_source (the guard of do_sign_holder is Validator::get_current_holder_commitment_info: n+1 = "
         "next_holder_commit_num or policy-other, a panic without a current commitment, else the current content).",
    design="§4 C02",
    note=lib.TB + TRUST + "Same modelling assumptions as C01.  The pre-repair revoke (no policy-revoke-not-closed check) is kept as "
         "C02_old_revoke_refuted.",
    technique="Coq proof (state-machine invariant by induction over request histories) + vm_compute correspondence with the Rust implementation",
)


def run(res):
    chan_common.run_tied(res, "C02.v", ["C02_signed_and_revoked_disjoint", "C02_frozen_after_signature", "C02_nonvacuous",
                                        "C02_holder_sign_guard_is_source"], "C02", "C02_holder_sign_guard_is_source")
    # the revocation's node-wide payment re-check (the model's [pay_ok] input) can only fail with several channels:
    # the multi-channel domain retries refused revocations with the same number, and after every revocation reply a
    # signer restored from a copy of the store is asked to sign the commitments whose secrets went out (and all
    # channels are force-closed after a restart at the end of each history)
    n = 120 if res.tier == "quick" else 1500
    pay = lib.run_harness("pay", "run", res.seed, n, res.tier)
    bad = [c for c in pay["CASE"] if any(v.startswith("C02:") for v in c["monitor_violations"])]
    for c in bad[:3]:
        res.violation("C02 fails on the implementation's own answers (multi-channel domain): %s"
                      % [v for v in c["monitor_violations"] if v.startswith("C02:")][:2],
                      {"domain": "pay", "seed": res.seed, "channels": c["nch"], "history": c["ops"],
                       "violations": c["monitor_violations"]})
    revokes = sum(1 for c in pay["CASE"] for o in c["ops"] if isinstance(o["op"], list) and o["op"][0] == "revoke")
    res.coverage["multi_channel_histories_with_restart_and_force_close_probe"] = len(pay["CASE"])
    res.coverage["multi_channel_revocations"] = revokes
    res.coverage["monitor_failures"] = res.coverage.get("monitor_failures", 0) + len(bad)
