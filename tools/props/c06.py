"""C06 — approved invoices are never overpaid in flight; unbacked payments are refused."""
import lib
import gen_rustfn

IMPORTS = ["Model.PaymentsCheck"]

MANIFEST = dict(
    text="Coq theorems over every history of commitment updates on any number of channels, approvals and restarts "
         "(Props/C06.v): C06_no_overpay (for every approved hash, out-flight*1000 <= in-flight*1000 + approved + routing-fee "
         "allowance), C06_ledger_is_in_flight_value (the ledger the check runs on is the max/min summary of the current "
         "commitments of each channel, also after a restart) and C06_unbacked_refused (an accepted update with outgoing value for "
         "an unapproved, never seen hash is covered by incoming value in the same update).  Invariant by induction over the "
         "history; the validate-then-apply pairing of each request is modelled in code order.  "
         "C06_preimage_records_survive_restart / C06_fulfil_records_preimage: a payment record that carries a preimage (the one the "
         "tolerated-hash rule reads and that decides which HTLC outputs are the node's to claim) has a record in every reachable "
         "state and both survive every restart.  The model is run against a real "
         "Node with 2-3 real channels (real signatures, HTLCs, keysend approvals, restarts from the store) on every run and a "
         "monitor recomputes the in-flight values from the accepted commitment contents.  C06_balance_rule_is_source: the "
         "model's balance rule IS the source's - Gen/PaymentsGen.v is regenerated on every run from "
         "SimpleValidator::validate_payment_balance by tools/gen_rustfn.py and proved equal to balance_ok (default filter, "
         "both build profiles, amounts that fit u64).  C06_payment_check_is_source / C06_payment_check_is_validate_payments: the payment check IS the source's - NodeState::validate_payments (whole body) with RoutedPayment::updated_incoming_outgoing and the other methods it uses, validate_payment_cltv and enforce_balance is translated statement by statement on every run (Gen/NodePaymentsGen.v; maps and sets as association lists, the hash set visited in an arbitrary order) and proved to accept exactly when every hash passes the model's hash_ok, for every well-formed source-level state and every order of visiting (assumed: the CLTV-delta rule of the source, which the model does not have, passes; enforce_balance off; the three tags not downgraded; no u64 overflow).  C06_payment_booking_is_source: RoutedPayment::apply is the ledger update of apply_one C06_payment_booking_is_apply_payments: NodeState::apply_payments (whole body, state-passing: entry API, issued-invoice marking, CLTV bounds, RoutedPayment::apply per hash) never panics and leaves a state that abstracts to the model's apply_payments, for every visiting order (premises: no issued invoice among the hashes, enforce_balance off - the parts outside the model).  C06_fulfil_is_source: NodeState::htlc_fulfilled (whole body, state-passing) abstracts to the PFulfil step (preimage recorded only in an existing record; known / led / inv unchanged).  C06_prune_is_source: is_forwarded_payment_prunable = prunable and no issued invoice for the hash (issued invoices are not in the model).  C06_prune_step_is_source: NodeState::prune_forwarded_payments (whole body, state-passing; retain with a closure that raises a captured flag) leaves known / pre restricted to the records that are not dropped and led / inv / both invoice maps unchanged, returns whether a record was dropped, and is the PHeartbeat step when no prunable record has an issued invoice.  C06_summarize_is_source / C06_summaries_are_source: EnforcementState::summarize_payments, ::incoming_payments_summary and ::payments_summary (whole bodies, Gen/PaymentSummariesGen.v: entry().and_modify().or_insert(), retain, the consuming loop over a hash map in an arbitrary order) never panic and return exactly in_val / out_val on in_keys / out_keys, and the hash set built from them is sum_keys - the premises of the validate_payments / apply_payments theorems (HTLC values summing within u64).  Auxiliary, not deciding (Props/C06Aux.v, reported under coverage.auxiliary): the CLTV-delta rule inside the same validate_payments over the translated source - an accepting validate_payments implies outgoing_cltv_max < incoming_cltv_min and a margin of at least policy.cltv_delta for every record of the summaries with both bounds, a record that breaks the rule is refused whatever the amounts, RoutedPayment::apply only tightens the bounds, and after any sequence of bookings the stored bounds are the extrema of the expiries booked.  Props/Joint.v restates C06 (and "
         "C01-C03) over joint histories of Model/Joint.v, where the enforcement state machines of all channels and the "
         "ledger run together and the payment verdict of every update is computed instead of supplied; the same histories are "
         "compared with that model too (reply, ledger, and every channel's enforcement state in memory and in the store).",
    design="§4 C06",
    note=lib.TB + "Additionally trusted: tools/gen_rustfn.py and the meaning Base/Rust.v gives to the Rust constructs it reads.  Assumes approvals arrive before the payment is attempted (fresh_history) — the tolerance for uninvoiced hashes "
         "with an existing payment record (issue 331) is modelled and lies outside the property.  Amounts stay far below 2^64/1000 "
         "(enforced by the commitment policy, C05); CLTV rules and the optional balance enforcement are not modelled (issued invoices: node-level model, C10).",
    technique="Coq proof (ledger invariant by induction over multi-channel histories; the balance rule translated from the Rust source on every run and proved equal to the model) + vm_compute correspondence with the Rust implementation",
)


def run(res):
    quick = res.tier == "quick"
    # the translator regenerates Gen/PaymentsGen.v from /repo's simple_validator.rs under the build lock, right
    # before the theorem that relates it to the model's balance rule is re-checked
    report = {}

    def regen():
        report.update(gen_rustfn.generate_payments(lib.REPO))
        stage["at"] = "node"
        # Gen/NodePaymentsGen.v (NodeState::validate_payments, the RoutedPayment methods, validate_payment_cltv) over the
        # policy record of Gen/CommitmentPolicyGen.v and the balance rule of Gen/PaymentsGen.v
        report["commitment_policy"] = gen_rustfn.generate_commitment_policy(lib.REPO)["translated"]
        report["node_payments"] = gen_rustfn.generate_node_payments(lib.REPO)
        stage["at"] = "summaries"
        # Gen/PaymentSummariesGen.v (EnforcementState::summarize_payments, ::payments_summary, ::incoming_payments_summary)
        report["payment_summaries"] = gen_rustfn.generate_payment_summaries(lib.REPO)
    stage = {"at": "balance"}
    try:
        lib.proof_stage(res, "C06.v", "Props.C06",
                        ["C06_no_overpay", "C06_ledger_is_in_flight_value", "C06_unbacked_refused",
                         "C06_balance_rule_is_source", "C06_preimage_records_survive_restart",
                         "C06_fulfil_records_preimage", "C06_nonvacuous",
                         "C06_payment_check_is_source", "C06_payment_check_is_validate_payments",
                         "C06_payment_booking_is_source", "C06_value_sums_do_not_depend_on_order",
                         "C06_fulfil_is_source", "C06_prune_is_source", "C06_payment_booking_is_apply_payments",
                         "C06_summarize_is_source", "C06_summaries_are_source", "C06_prune_step_is_source"], pre=regen)
    except gen_rustfn.GenError as e:
        if stage["at"] == "balance":
            res.violation("the translator cannot read SimpleValidator::validate_payment_balance (a construct outside its "
                          "fragment): %s" % e,
                          {"translator": "tools/gen_rustfn.py", "source": "vls-core/src/policy/simple_validator.rs",
                           "error": str(e), "theorem": "C06_balance_rule_is_source"}, has_input=False)
        elif stage["at"] == "summaries":
            res.violation("the translator cannot read EnforcementState::summarize_payments, ::payments_summary or "
                          "::incoming_payments_summary or a declaration they use (a construct outside its fragment): %s" % e,
                          {"translator": "tools/gen_rustfn.py",
                           "source": "vls-core/src/policy/validator.rs (+ tx/tx.rs, lib.rs)",
                           "error": str(e), "theorem": "C06_summaries_are_source"}, has_input=False)
        else:
            res.violation("the translator cannot read NodeState::validate_payments, a RoutedPayment method, "
                          "validate_payment_cltv / enforce_balance or a declaration they use (a construct outside its "
                          "fragment): %s" % e,
                          {"translator": "tools/gen_rustfn.py",
                           "source": "vls-core/src/node.rs (+ policy/simple_validator.rs, policy/validator.rs, lib.rs, policy/error.rs)",
                           "error": str(e), "theorem": "C06_payment_check_is_source"}, has_input=False)
    res.coverage["translated_from_source"] = report
    # auxiliary (not deciding C06): the CLTV-delta rule inside the same validate_payments, over the translated source
    lib.aux_props_stage(res, "C06Aux.v", ["AUX_C06_cltv_rule_is_enforced_by_source",
                                         "AUX_C06_cltv_violation_is_refused_by_source",
                                         "AUX_C06_cltv_bounds_only_tighten",
                                         "AUX_C06_cltv_bounds_are_extrema_of_history", "AUX_C06_cltv_nonvacuous"])
    # the same theorems (and C01-C03) over joint histories of the whole node, where the payment verdict of a
    # commitment update is computed from the ledger and the enforcement verdict from the counters
    lib.extra_props_stage(res, "Joint.v", ["J_C01_secret_needs_successor", "J_C02_signed_and_revoked_disjoint",
                                          "J_C03_resign_same", "J_C06_no_overpay", "J_revoke_needs_payment_check", "J_C10_refused_changes_nothing", "J_C11_restart_is_invisible", "J_nonvacuous"])
    cov = res.coverage
    n = 150 if quick else 1500
    r = lib.run_harness("pay", "run", res.seed, n, res.tier, timeout=3000)
    cases = r["CASE"]
    fails = lib.coq_failures(IMPORTS, "pay_case", "check_pay", [c["coq"] for c in cases], "pay_c06")
    # the pay domain also carries the C10 / C11 snapshot monitors; only the C06 monitor decides here
    mon = [c for c in cases if any(v.startswith("C06:") for v in c["monitor_violations"])]
    for c in mon[:3]:
        res.violation("C06 fails on the implementation's own answers: %s" % [v for v in c["monitor_violations"] if v.startswith("C06:")][:2],
                      {"domain": "pay", "seed": res.seed, "channels": c["nch"], "history": c["ops"],
                       "violations": c["monitor_violations"]})
    if not mon:
        for i in fails[:2]:
            c = cases[i]
            d = lib.coq_eval(IMPORTS, "pay_first_diff (%s)" % c["coq"], "pay_show")
            res.violation("the real node disagrees with Model.Payments (correspondence pay); the theorems of C06.v are about "
                          "the model and no longer carry over",
                          {"correspondence": "pay", "theorems": ["C06_no_overpay", "C06_unbacked_refused"],
                           "first_difference_at_step": d, "history": c["ops"], "coq_case": c["coq"]}, has_input=False)
    # joint correspondence: the same histories with explicit numbers, points and content identities against
    # Model/Joint.v -- reply, ledger and the enforcement state (memory and store) of every channel after every request
    jcases = [c for c in cases if c.get("coq_joint")][: (70 if quick else 700)]
    jfails = lib.coq_failures(["Model.JointCheck"], "joint_case", "check_joint", [c["coq_joint"] for c in jcases],
                              "joint_c06", shards=16, timeout=3000)
    if not mon:
        for i in jfails[:2]:
            c = jcases[i]
            d = lib.coq_eval(["Model.JointCheck"], "joint_first_diff (%s)" % c["coq_joint"], "joint_show")
            res.violation("the real node disagrees with Model.Joint (correspondence joint: enforcement state machines and "
                          "payment ledger together); the theorems of Props/Joint.v are about the model and no longer carry over",
                          {"correspondence": "joint", "theorems": ["J_C06_no_overpay", "J_C01_secret_needs_successor"],
                           "first_difference_at_step": d, "history": c["ops"], "coq_case": c["coq_joint"]}, has_input=False)
    nontrivial = set()
    for c in cases:
        kinds = {(o["op"] if isinstance(o["op"], str) else o["op"][0], o["ok"]) for o in c["ops"]}
        if ("sign_cp", False) in kinds or ("revoke", False) in kinds or ("validate_holder", False) in kinds:
            if ("revoke", True) in kinds and ("sign_cp", True) in kinds:
                nontrivial.add(c["coq"])
    cov.update({
        "evaluations": len(cases),
        "distinct_nontrivial": len(nontrivial),
        "rule": "a corpus of three scripted histories (the cross-channel revoke, the exact-allowance split, backing by "
                "incoming value) then random histories of 6..30 requests on 2-3 real channels: keysend approvals for 3 hashes, "
                "counterparty signatures / holder validations with HTLC sets obtained by adding or removing parts (amounts at "
                "approved, approved/2, approved+allowance, +1, +10%) from the channel's current content, revocations, mirrored "
                "updates, restarts; non-trivial = has an accepted revoke, an accepted counterparty signature and at least one "
                "refused update; distinct by full history",
        "samples": [{"channels": cases[0]["nch"], "ops": cases[0]["ops"]}],
        "traces_validated_against_impl": len(cases),
        "requests_replayed": sum(len(c["ops"]) for c in cases),
        "correspondence_disagreements": len(fails) + len(jfails),
        "joint_histories_compared": len(jcases),
        "joint_requests_replayed": sum(c.get("joint_ops", 0) for c in jcases),
        "monitor_failures": len(mon),
        "op_outcome_distribution": r.get("STATS", []),
    })
    res.assumptions = [
        "invoice / keysend approvals arrive before the payment is attempted (fresh_history)",
        "HTLC values are positive and sums stay below 2^64/1000 (commitment policy bounds, C05)",
        "non-payment checks of a request (signatures, commitment policy, counters) enter as one boolean that is true in the harness",
        "the correspondence is differential testing: bounded by the generator described in coverage.rule",
    ]
