"""C15 — channel state is discarded only when safely buried, and ids are never reused."""
import lib
import gen_rustfn

MANIFEST = dict(
    text="Coq theorems over the model of Node::new_channel / setup_channel / forget_channel / prune_channels (from "
         "get_heartbeat) / block delivery to every channel monitor / restore_node, built on the C14 monitor model: "
         "C15_prune_sound (for every history of new / setup / forget / heartbeat / block connected / block disconnected "
         "/ restart with consistent blocks and every further step: a ready channel that is gone after the step was "
         "removed by a heartbeat, the node had asked to forget it, and on the channel's part of the current best chain a "
         "funding double-spend, a mutual close or the completion of the sweep of a unilateral close is MIN_DEPTH or more "
         "deep), C15_asked_means_forget_request, C15_step_keeps and C15_survives (a ready channel that is not done is "
         "kept by every step, and with the same state by any number of heartbeats and restarts, in every reachable "
         "state), C15_hwm_monotone, C15_no_reuse (after forgetting an existing channel every later new_channel with that "
         "or a lower dbid is refused and creates nothing, restarts included).  The model is run against a real Node on a "
         "MemoryKVVStore persister (real tracker, real funding / commitment transactions, restarts from the store) on the "
         "same histories on every run; MIN_DEPTH and the stub prune constants are read from the source under test and "
         "compared with the model's; a monitor checks the property itself against the harness's own record of the chain.  C15_done_decision_is_source: the monitor's done-decision IS the source's - monitor::State::depth_of, ::deep_enough_and_saw_node_forget and ::is_done (with MIN_DEPTH) are translated on every run by tools/gen_rustfn.py (Gen/MonitorGen.v) and proved equal to Monitor.is_done in both build profiles.",
    design="§4 C15",
    note=lib.TB + "Uses the C14 theorems (Proofs/MonitorProofs.v: history, Reach, norm_views) for what a channel "
         "monitor knows after connections and disconnections.  Modelled, not verified: the classification of a funding "
         "spend (oracle attached to the transaction, as in C14); validation of blocks by the tracker (C13); the serde "
         "round trip of the store entries (exercised by every restart of the correspondence); a crash inside an "
         "operation (C11).  'Buried' is stated through the monitor that connects only an initial part of the current "
         "best chain: it records the event in the last block of that part and at least MIN_DEPTH-1 blocks follow.",
    technique="Coq proof (invariants by induction over operation histories, on top of C14) + vm_compute correspondence with the Rust implementation",
)

PINNED = ["C15_prune_sound", "C15_prune_sound_chain", "C15_event_meaning", "C15_asked_means_forget_request", "C15_step_keeps", "C15_survives", "C15_restart_changes_nothing", "C15_preimages_durable", "C15_old_fulfill_not_persisted_refuted", "C15_fulfill_persisted_keeps", "C15_hwm_monotone",
          "C15_no_reuse", "C15_nonvacuous", "C15_nonvacuous_survives"]
IMPORTS = ["Model.PruneCheck"]


def slim(c):
    return {k: v for k, v in c.items() if k != "coq"}


def run(res):
    quick = res.tier == "quick"
    # the translator regenerates Gen/MonitorGen.v from /repo's monitor.rs under the build lock, right before the
    # theorem that relates it to the model's is_done is re-checked
    report = {}

    def regen():
        report.update(gen_rustfn.generate_monitor(lib.REPO))
    try:
        lib.proof_stage(res, "C15.v", "Props.C15", PINNED + ["C15_done_decision_is_source"], pre=regen)
    except gen_rustfn.GenError as e:
        res.violation("the translator cannot read monitor::State::depth_of / deep_enough_and_saw_node_forget / is_done (a "
                      "construct outside its fragment): %s" % e,
                      {"translator": "tools/gen_rustfn.py", "source": "vls-core/src/monitor.rs", "error": str(e),
                       "theorem": "C15_done_decision_is_source"}, has_input=False)
    res.coverage["translated_from_source"] = report
    cov = res.coverage
    sizes = [("scripted", 1), ("random", 150), ("malformed", 80)] if quick else \
            [("scripted", 1), ("random", 4000), ("malformed", 1500)]
    cases, stats, consts = [], [], []
    for sub, n in sizes:
        out = lib.run_harness("prune", sub, res.seed, n, res.tier)
        cases += out.get("CASE", [])
        stats += out.get("STATS", [])
        consts += out.get("CONSTS", [])
    fails = lib.coq_failures(IMPORTS, "pcase", "check_case", [c["coq"] for c in cases], "c15")

    # the constants of the tree under test against the model's (a translator-style consistency check)
    model_consts = lib.coq_eval(IMPORTS, "model_consts", "c15_consts")
    src = consts[0] if consts else {}
    want = "(%s, %s, %s)" % (src.get("min_depth"), src.get("channel_stub_prune_blocks"), src.get("regtest_extra"))
    consts_ok = want.replace(" ", "") in model_consts.replace(" ", "").replace("%N", "")
    if not consts_ok:
        res.violation("MIN_DEPTH / CHANNEL_STUB_PRUNE_BLOCKS / regtest allowance in the source differ from the constants the "
                      "theorems were proved for", {"source": src, "model": model_consts[-200:], "theorem": "C15_prune_sound"},
                      has_input=False)

    # the property itself, on the implementation's answers
    mon = [c for c in cases if c.get("monitor_violation")]
    mon.sort(key=lambda c: len(c["steps"]))
    kinds = {}
    for c in mon:
        kinds.setdefault(c["monitor_violation"]["what"], []).append(c)
    for what, cs in kinds.items():
        c = cs[0]
        res.violation(what + " (implementation trace, %d such histories in this run)" % len(cs),
                      {"domain": "prune-" + c["origin"], "seed": res.seed, "case": slim(c)})
    if not mon and consts_ok:
        for i in fails[:3]:
            c = cases[i]
            model = lib.coq_eval(IMPORTS, "case_model (%s)" % c["coq"], "c15_show")
            old = lib.coq_eval(IMPORTS, "check_case_old (%s)" % c["coq"], "c15_old")
            res.violation("the node disagrees with Model.Prune on an operation history (correspondence prune)",
                          {"correspondence": "prune", "theorem": "C15_prune_sound / C15_survives / C15_no_reuse",
                           "case": c, "model": model[-6000:],
                           "matches_model_of_forget_without_tracker_write": "true" in old.split("=")[-1]},
                          has_input=False)
    nontrivial = {c["coq"] for c in cases if c.get("nontrivial")}
    agg = {}
    for s in stats:
        for k, v in s["stats"].items():
            agg[k] = agg.get(k, 0) + v
    sample = [slim(c) for c in cases if c.get("nontrivial")][:1] + [slim(c) for c in cases if c["origin"] == "random"][:1]
    for smp in sample:
        smp["steps"] = smp["steps"][:40]
    errkinds = {k: v for k, v in agg.items() if k.startswith("new_refused") or k.startswith("setup_") or k in ("panics", "ended_by_tracker_refusal")}
    cov.update({
        "evaluations": len(cases),
        "distinct_nontrivial": len(nontrivial),
        "rule": "real Node + MemoryKVVStore; half of the random / malformed cases, the scripted forgotten-id-asked-again history (stub forgotten; ready channel forgotten, buried, pruned; same and lower dbids of both peers asked again before and after a restart) and a third of the other scripted histories run under a policy filter that demotes tags - permissive, warn rule for the prefix policy-channel-, exact warn rule for policy-channel-original-channel-id-reuse - or under the shadowed permissive filter; the model has no filter input, the refusal of a forgotten or lower dbid is expected under all of them; blocks connected / disconnected with follower-style proofs (compact filter + SpvProof::build over the forward / reverse watches the signer reports), the model is given what the proof delivered, the property monitor judges burial on the full chain; channels (peer in {0,1}) x (dbid in {1..4}; malformed also 0 and 2^64-1), with / "
                "without a permanent id, with / without an HTLC on the commitment, peer 1 in lockstep (holder and counterparty commitment with the same number both held), dbid 3 funded by the counterparty with an HTLC offered to us that enters through validate_holder_commitment_tx_phase2 / sign_counterparty_commitment_tx_phase2 and THEIR commitment closing; harness op Fulfill = Channel::htlcs_fulfilled + commitment request, with or (two times in three) without a later request that writes the node entry, the claimability handed to the model and used by the monitor comes from the harness's own record of preimages handed over; scripted: each pruning reason at depth "
                "MIN_DEPTH-2, -1, MIN_DEPTH (constants read from the source), forget before / after burial, reorg across "
                "the threshold, the close reorged out and back, restart between forget and the next block, stub age at "
                "the prune time and one above, full map, reorg below the setup height, two channels in one block, setup "
                "variants; random: walks over {new, setup (same / different), forget, heartbeat, block with 0-2 fitting "
                "transactions, burst of empty blocks steered to depth MIN_DEPTH-1 / MIN_DEPTH / +1 or to the stub age, "
                "disconnect (runs <= 4), restart}, every walk ends with heartbeat, restart, heartbeat; malformed: the same "
                "with conflicting / orphan transactions, dbid 0 and 2^64-1, requests for unknown ids. Compared after every "
                "operation: Ok / Status code, slots in memory (stub height | permanent id, forget_seen, is_done, six monitor "
                "heights), channel entries and stored forget flags in the store, high-water mark in memory and store, "
                "tracker height, the three constants. A case is non-trivial when it is admissible, a ready channel is "
                "pruned in it and it contains a restart or a disconnection; distinct by full history",
        "samples": sample,
        "traces_validated_against_impl": len(cases),
        "correspondence_disagreements": len(fails),
        "monitor_failures": len(mon),
        "constants_from_source": src,
        "error_kinds": errkinds,
        "harness_stats": agg,
    })
    res.assumptions = [
        "connected blocks keep the chain consistent for every ready channel: unique txids, no outpoint spent twice, inputs refer to earlier transactions, the funding transaction spends the registered funding inputs (hist_admissible; checked as a boolean on every generated admissible history); C15_step_keeps, C15_survives, C15_hwm_monotone and C15_no_reuse need no assumption on the blocks",
        "the block handed to the monitors on a disconnection is the block that was connected at that height (tracker validation, C13); the classification of a funding spend is a function of the transaction (as in C14)",
        "a restart happens between two operations; what it finds in the store is what the operations wrote (the store entries observed after every operation agree with the model; crash inside an operation: C11)",
        "tracker heights stay below 2^32 - 1 (the model aborts a connection at u32::MAX like the code)",
        "the correspondence is differential testing: bounded by the generator described in coverage.rule",
    ]
