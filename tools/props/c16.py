"""C16 — the key-version-value stores never roll back and agree with each other."""
import lib
import gen_rustfn

MANIFEST = dict(
    text="Coq theorems over all request histories (put / put_with_version / put_batch / delete / get / get_version / "
         "get_prefix / reopen / enter / prepare / commit, arbitrary keys, versions, values) of executable models of "
         "MemoryKVVStore, RedbKVVStore (table + versions cache, reopen, poisoned cache mutex) and "
         "CloudKVVStore<MemoryKVVStore> (local store + commit log): version monotonicity by induction over histories; "
         "same-version-other-content and lower versions refused (single writes and batch entries); batch atomicity; "
         "get / get_prefix return the last accepted write; the restore path put_batch_unlogged keeps every record of an accepted list "
         "(tombstones included) so that an older copy served later is refused, also across restarts of a disk-backed "
         "cloud store; the disk store simulates the memory store request by request "
         "(invariant cache = versions of table) and reopen is the identity; cloud: local store changes only by commit, "
         "read-your-writes, visible versions never lowered, commit writes exactly the standing report.  "
         "C16_mem_version_rule_is_source: MemoryKVVStore::put_with_version / get_version / put / delete are translated "
         "statement by statement from vls-persist/src/kvv/memory.rs on every run (Gen/KvvGen.v) and proved equal to the "
         "model's m_pwv / version_of / m_put on every store, key, version and value, both build profiles "
         "; C16_mem_batch_is_source: MemoryKVVStore::put_batch (the staged map, the loop with continue / return, the "
         "merge) likewise, equal to the model's m_batch on every sorted store "
         "; C16_cloud_staging_is_source: CloudKVVStore::put_with_version / put / delete (cloud.rs, with L = "
         "MemoryKVVStore: the commit-log guard with its poisoned flag, as_mut().expect, the staged-version test, the calls "
         "into the local store) equal to the model's c_pwv / c_put on every state; the state after a panic (the poisoned "
         "mutex) is not represented on the generated side "
         "(get_prefix, the transaction functions of the cloud store and RedbKVVStore are not translated).  The models are "
         "run against the three real stores on identical request sequences on every run (breadth-first over a small "
         "alphabet with state de-duplication, random transaction-shaped histories, a malformed stream, a corpus of past "
         "disagreements), and monitors check each clause of the property on the implementations' answers.",
    design="§4 C16, §5 F12",
    note=lib.TB + "Modelled, not verified: redb itself (a sorted map with atomic write transactions), the 8-byte "
         "big-endian version prefix of the table values, std::sync::Mutex poisoning. A panic ends the comparable part of "
         "a history (agreement of the two plain backends is proved and checked up to the first panic).",
    technique="Coq proof (invariants by induction over histories, refinement by simulation) + vm_compute correspondence "
              "with the three Rust stores",
)

PINNED = [
    "C16_mem_version_monotone", "C16_disk_version_monotone", "C16_disk_cache_is_table",
    "C16_mem_same_version_other_content_refused", "C16_disk_same_version_other_content_refused",
    "C16_mem_batch_same_version_other_content_refused", "C16_disk_batch_same_version_other_content_refused",
    "C16_mem_lower_version_refused", "C16_disk_lower_version_refused",
    "C16_mem_batch_atomic", "C16_disk_batch_atomic",
    "C16_mem_get_last_accepted", "C16_disk_get_last_accepted", "C16_get_prefix_is_get",
    "C16_disk_refines_mem", "C16_disk_refines_mem_release", "C16_reopen_id",
    "C16_cloud_local_changes_only_by_commit", "C16_cloud_version_never_lowered",
    "C16_cloud_local_version_never_lowered", "C16_cloud_read_your_writes",
    "C16_cloud_commit_writes_the_log", "C16_cloud_committed_is_reported",
    "C16_restore_records_kept", "C16_restore_replay_refused", "C16_plain_restore_replay_refused",
    "C16_cloud_restart_local_version_never_lowered",
    "C16_restore_repeated_key_refused", "C16_plain_restore_repeated_key_refused", "C16_nonvacuous_repeated_key",
    "C16_nonvacuous_plain", "C16_nonvacuous_cloud", "C16_nonvacuous_restore",
    "C16_mem_version_rule_is_source", "C16_mem_batch_is_source", "C16_cloud_staging_is_source",
]

# the one class of behaviour that may be listed in KNOWN_FINDINGS.json (id below): a commit reached
# while no report stands (a write request after the last prepare of the transaction, or no prepare)
KF_ID = "C16-cloud-commit-without-standing-report"

WHAT = {
    "cloud-version-lowered": "the cloud-staged store lowered the version a transaction sees for a key",
    "committed-differs-from-reported": "commit changed the local store by something other than the mutations prepare reported",
    "backends-disagree": "MemoryKVVStore and RedbKVVStore answered the same request sequence differently",
    "cloud-read-your-writes": "a transaction did not read back its own accepted write",
    "restore-record-missing": "put_batch_unlogged accepted a record list but the local store does not hold every record of it "
                              "(a dropped tombstone forgets the key's version)",
    "restore-replay-accepted": "put_batch_unlogged accepted a record below a version it had restored for that key before: "
                               "the key's version went down (replay of an older copy)",
    "write-below-restored-version": "a write below a version restored earlier by put_batch_unlogged was accepted",
    "list-with-conflicting-repeat-accepted": "a record list in which a key comes back at a lower version (or at the same version with "
                                             "other content) after an earlier entry of the same list was accepted - the list is not "
                                             "judged as handed over",
    "get-prefix-not-the-prefixed-entries": "get_prefix did not return exactly the stored entries whose key starts with the prefix",
    "restart-changed-local-store": "the local store of the disk-backed cloud store changed across a restart",
}


def run(res):
    quick = res.tier == "quick"
    # Gen/KvvGen.v is regenerated from /repo's vls-persist/src/kvv/memory.rs under the build lock, right before the
    # theorem that relates it to the model's version rule is re-checked
    report = {}

    def regen():
        report.update(gen_rustfn.generate_kvv(lib.REPO))
    try:
        lib.proof_stage(res, "C16.v", "Props.C16", PINNED, pre=regen)
    except gen_rustfn.GenError as e:
        res.violation("the translator cannot read MemoryKVVStore::put_with_version / get_version / get / put / delete / put_batch, "
                      "CloudKVVStore::put_with_version / put / delete or a "
                      "declaration they use (a construct outside its fragment): %s" % e,
                      {"translator": "tools/gen_rustfn.py", "source": "vls-persist/src/kvv/memory.rs, cloud.rs (+ kvv.rs, vls-core/src/persist/mod.rs)",
                       "error": str(e), "theorem": "C16_mem_version_rule_is_source"}, has_input=False)
    res.coverage["translated_from_source"] = report
    cov = res.coverage
    n = 120 if quick else 2000
    out = lib.run_harness("kvv", "all", res.seed, n, res.tier, timeout=3000)
    cases = out["CASE"]
    stats = out.get("STATS", [{}])[0]
    imports = ["Model.KvvCheck"]
    fails = lib.coq_failures(imports, "kvv_case", "check_kvv", [c["coq"] for c in cases], "c16")

    known = [f for f in lib.known_findings("C16") if f.get("id") == KF_ID]
    # the property itself, on the implementations' answers
    n_mon = 0
    n_known = 0
    reported = {}
    for c in cases:
        for f in c["findings"]:
            unclean_commit = f["kind"] == "committed-differs-from-reported" and not f["window_clean"]
            if unclean_commit and known:
                n_known += 1
                continue
            n_mon += 1
            key = f["kind"]
            if key not in reported or len(f["replay"]) < len(reported[key][1]["replay"]):
                reported[key] = (c, f)
    for kind, (c, f) in sorted(reported.items()):
        what = WHAT.get(kind, "the stores' answers violate the property (%s)" % kind)
        if kind == "committed-differs-from-reported" and not f["window_clean"]:
            what += " (no report was standing at commit time: a write request after the last prepare, or no prepare)"
        res.violation(what, {"domain": "kvv", "seed": res.seed, "monitor": kind, "detail": f["detail"],
                             "requests": f["replay"], "case_id": c["id"], "generator": c["gen"],
                             "observed": c.get("rows")})
    if n_known:
        res.known.append("%s: CloudKVVStore::commit with no standing report commits unreported mutations "
                         "(%d histories of this run, e.g. enter; put a; prepare; put b; commit)" % (KF_ID, n_known))
    if not reported:
        for i in fails[:3]:
            c = cases[i]
            diag = lib.coq_eval(imports, "diag_kvv (%s)" % c["coq"], "c16_diag")
            model = lib.coq_eval(imports, "kvv_model (%s)" % c["coq"], "c16_show")
            res.violation("a real store disagrees with Model.Kvv (correspondence kvv; diag = memory, redb, cloud on memory, cloud on redb agree?)",
                          {"correspondence": "kvv", "seed": res.seed, "case_id": c["id"], "generator": c["gen"],
                           "requests": c["ops"], "n_alternatives": c["n_alts"], "observed": c.get("rows"),
                           "diag": diag[-200:], "model": model[-6000:]}, has_input=False)

    distinct = set()
    for c in cases:
        if c["nontrivial"]:
            distinct.add(c["coq"])
    exh = stats.get("exhaustive", {})
    small = stats.get("exhaustive_small", {})
    cov.update({
        "evaluations": len(cases),
        "distinct_nontrivial": len(distinct),
        "rule": "each case = one request sequence run on the real MemoryKVVStore, RedbKVVStore (temp dir, reopen = drop + "
                "open), CloudKVVStore<MemoryKVVStore> and CloudKVVStore<RedbKVVStore> (reopen = signer restart), every answer and the full get_prefix(\"\") dump after every "
                "request compared with the model, plus get_version of all keys on redb and get of all keys inside a cloud "
                "transaction. corpus: past disagreements and the witnesses of Props/C16.v; exhaustive-small: every sequence up to "
                "the length in exhaustive_scope over 25 requests on keys a, b (versions 0..2, values x, y, batches with a "
                "repeated key, three put_batch_unlogged lists with tombstones, reopen, enter, prepare, commit), no cap; "
                "exhaustive-large: breadth-first from "
                "3 roots over an alphabet of put/delete/put_with_version (keys a, a/b, b; versions 0..3; values x, y, "
                "empty), put_batch pairs and triples with repeated keys, reads, prefixes, reopen, enter, prepare, commit, "
                "states de-duplicated on everything visible, every (state, request) pair run (one case per state: common "
                "prefix + all alternatives); random: transaction-shaped histories with versions steered to current-1..+2 "
                "and 2^32, 2^63, 2^64-2, 2^64-1, reopen points, off-protocol steps; malformed: unstructured requests, "
                "non-ASCII / empty / reserved keys; restore: start-up shaped histories - put_batch_unlogged lists with tombstones "
                "for keys the replica never saw, restarts, then lists and writes at older / equal / newer versions; a "
                "fourth store, CloudKVVStore<RedbKVVStore> restarted at every reopen point, runs every sequence too; all "
                "four are driven through KVVPersister<_, JsonFormat> (enter / prepare / commit / put_batch_unlogged(Mutations) "
                "via the Persist trait, the list as given: repeated keys older-after-newer, same version other / same "
                "content, newer-after-older); get_prefix prefixes: empty, stored keys, proper prefixes, between keys, beyond. "
                "non-trivial: an accepted write and (a refusal, or a commit that "
                "changed the local store, or a reopen of a non-empty store); distinct by full case term",
        "samples": [{k: v for k, v in c.items() if k not in ("coq", "alts")} for c in cases[:1] + cases[-1:]],
        "traces_validated_against_impl": len(cases),
        "steps_compared": stats.get("steps"),
        "states": exh.get("states_seen", 0) + small.get("states_seen", 0),
        "transitions": sum(l["pairs"] for l in exh.get("levels", []) + small.get("levels", [])),
        "exhaustive": bool(small.get("complete")),
        "exhaustive_scope": "all request sequences of length <= %s over the %s-request small alphabet from each of 3 roots "
                            "(complete=%s); the large alphabet (%s requests) is complete for the levels whose state count "
                            "stayed under the cap, sampled beyond (complete=%s)"
                            % (small.get("levels_run"), small.get("alphabet"), small.get("complete"), exh.get("alphabet"),
                               exh.get("complete")),
        "exhaustive_small": small,
        "exhaustive_large": exh,
        "correspondence_disagreements": len(fails),
        "monitor_failures": n_mon,
        "known_finding_hits": n_known,
        "request_kinds": stats.get("requests"),
        "result_kinds": stats.get("results"),
        "monitor_findings_by_kind": stats.get("monitor_findings"),
        "profile": stats.get("profile"),
        "harness_stats": {k: stats.get(k) for k in ("cases", "corpus", "exhaustive_cases", "random", "nontrivial",
                                                    "with_effective_commit", "with_reopen_after_write",
                                                    "with_tombstone_restore", "with_refused_replay")},
    })
    res.assumptions = [
        "redb is a sorted map with atomic write transactions (begin_write / insert / commit / abort) - a parameter of the model, exercised through the real crate",
        "cloud theorems: every enter happens where the last-writer version can be incremented (enters_ok: always in a build with overflow checks; in a release build the reserved key _WRITER must stay below 2^64-1)",
        "agreement of memory and redb stores is claimed up to the first panic of a history (put/delete on a key at version 2^64-1 with overflow checks)",
        "the correspondence is differential testing: bounded by the generator described in coverage.rule",
    ]
