"""C10 — a refused request changes nothing."""
import lib
from props import sys_common

MANIFEST = dict(
    text="Coq theorems (Props/C10.v): for every reachable channel and every request of the channel alphabet (direct and handler "
         "composites, any u64 numbers, both build profiles) a refusal leaves the memory image and the persisted image of the "
         "enforcement state unchanged (C10_channel_refused_changes_nothing, by case analysis over all request paths incl. the proof "
         "that the half-way failure points are unreachable); the same for node-level requests (incl. the table of issued invoices: "
         "C10_issued_invoice_is_never_replaced), the payment ledger, the velocity "
         "control (modulo clock rotation) and, re-exported from C13, the chain tracker; over joint histories of the whole node (Props/Joint.v, "
         "J_C10_refused_changes_nothing) a commitment request refused by the channel's state machine OR by the node-wide payment check "
         "leaves the ledger and the slot of every channel unchanged.  On every run the real signer is driven "
         "through three domains with a snapshot monitor around EVERY request: on an error reply the fingerprint of the running "
         "signer and the complete store dump (keys, versions, values) must be identical to the ones before the request.",
    design="§4 C10",
    note=lib.TB + "Storage-backend failures are not injected.  The theorem is about the models of C01-C03, C06, C12, C13 and the "
         "node-level model; the cloud store's commit log is covered through 'nothing is written on a refusal' (no persist call on "
         "any refusing path), the store itself by C16.",
    technique="Coq proof (case analysis over every refusing path of the request models) + snapshot monitors and vm_compute correspondence on the Rust implementation",
)


def run(res):
    sys_common.run(res, "C10.v",
                   ["C10_channel_refused_changes_nothing", "C10_stub_refused_changes_nothing",
                    "C10_node_refused_changes_nothing", "C10_issued_invoice_is_never_replaced", "C10_payments_refused_changes_nothing",
                    "C10_velocity_refused_records_nothing", "C10_tracker_refused_changes_nothing", "C10_nonvacuous"],
                   "C10", "on an error reply the fingerprint of the running signer and the full store dump equal the ones taken before the request")
    # the same over joint histories of the whole node (Model/Joint.v): the payment verdict and the enforcement verdict of
    # a commitment request are computed, and a refusal for either reason leaves the ledger and every channel alone
    lib.extra_props_stage(res, "Joint.v", ["J_C10_refused_changes_nothing"])
