"""C09 — sweep and second-level HTLC signatures only move funds back to the node."""
import json, os
import lib
import gen_rustfn

MANIFEST = dict(
    text="Coq theorems over an executable model of validate_sweep / validate_{delayed,counterparty_htlc,justice}_sweep, "
         "decode_and_validate_htlc_tx / validate_htlc_tx and the five Channel signing calls (rust-bitcoin's "
         "LockTime::is_satisfied_by, Height::from_consensus, the BIP143 field coverage of ALL and SINGLE|ANYONECANPAY and "
         "LDK's build_htlc_transaction written out literally; u32/u64 arithmetic per build profile).  C09_sweep_accept: for "
         "every transaction (any number of inputs and outputs; induction over the output list), input index, wallet, path, "
         "setup, height and filter that does not downgrade the destination tag, an Ok of sign_delayed_sweep / "
         "sign_counterparty_htlc_sweep / sign_justice_sweep implies every output wallet-spendable under the supplied path or "
         "allowlisted, version 2, lock time a height <= current height + 2 or the always-satisfied minimum timestamp "
         "(received HTLC: <= the expiry in its script), and the sequence of the signed input equal to the contest delay "
         "resp. 1 (anchors) resp. one of the three no-relative-lock values.  C09_htlc_accept / C09_htlc_accept_fields: with "
         "the signature hash injective on the fields the BIP143 preimage commits to (premise), an Ok of sign_holder_htlc_tx "
         "/ sign_counterparty_htlc_tx implies that those fields are the ones of the BOLT-3 HTLC-timeout/success transaction "
         "for the spent outpoint with the negotiated to_self_delay, revocation key and delayed key, and that the fee paid is "
         "exactly the BOLT-3 fee of a rate within [min,max] feerate (0 for zero-fee anchors).  The model is run against the "
         "real validators (through the Validator trait, arbitrary heights) and against the real Channel calls on every run; "
         "an independent monitor evaluates the property's conjunction on every acceptance and verifies the returned "
         "signature against the named input.  The same requests are also sent as protocol messages (SignDelayedPaymentToUs, "
         "SignRemoteHtlcToUs, SignPenaltyToUs, their SignAny* variants, SignLocalHtlcTx, SignAnyLocalHtlcTx, SignRemoteHtlcTx) "
         "through the Root/ChannelHandler with the handler's glue modelled (input index, PSBT amount, wallet path from the "
         "PSBT output's key origin, channel look-up) and the property evaluated on what was signed.  C09_feerate_estimate_is_source: the feerate estimate of the model IS the source's (estimate_feerate_per_kw translated on every run by tools/gen_rustfn.py into Gen/TxUtilGen.v and proved equal to the model's definition for every u64 fee and non-zero weight, both build profiles).  C09_sweep_rules_are_source / C09_delayed_sweep_rules_are_source / C09_justice_sweep_rules_are_source: the sweep validators ARE the source's - SimpleValidator::validate_sweep, ::validate_delayed_sweep, ::validate_justice_sweep are translated statement by statement on every run (Gen/SweepGen.v; MAX_CHAIN_LAG and the sequence sets read from the file; the wallet's answers and rust-bitcoin's Version::TWO / Time::MIN / Height::from_consensus / LockTime::is_satisfied_by are parameters, instantiated with the model's reading) and proved equal to the model's validators for every transaction, wallet, policy filter and both build profiles, panics included (the four transaction-format classes are one tag in the source; validate_counterparty_htlc_sweep is not translated).",
    design="§4 C09",
    note=lib.TB + "Additionally trusted: tools/gen_rustfn.py and the meaning Base/Rust.v gives to the Rust constructs it reads (rust-bitcoin's Transaction / TxIn / TxOut are declared to it by hand and compared with the crate source when that is in the cargo registry).  Premises visible in the theorems: sighash injective on the covered fields and hash equality decidable "
         "(instantiated by the identity in the executable comparison, C09_htlc_premises_satisfiable); commitment type other "
         "than the non-zero-fee Anchors one (unsafe type, refused at setup; C09_htlc_anchors_nonzero_fee_deviates); release "
         "builds: htlc_amount_sat*1000 fits u64 (C09_htlc_release_amount_wrap).  Modelled, not verified: the script "
         "recognisers as functions of a script descriptor, the wallet's can_spend / allowlist answers (oracle per case), key "
         "derivation (identities), LDK's script templates (self-tested against hand-built BOLT-3 templates on every run).  "
         "The model describes the sweep validators with the sequence check on the signed input (repair "
         "notes/fixes/C09-sweep-sequence-of-signed-input.patch, /repo cea86ea; C09_first_input_sequence_refuted keeps the "
         "witness against the code as found and the run reports how many disagreements that older model would explain).",
    technique="Coq proof (implication over unbounded transactions and machine integers; induction over outputs) + vm_compute "
              "correspondence with the Rust validators and Channel calls + independent property monitor",
)

PINNED = ["C09_sweep_accept", "C09_sweep_accept_validator", "C09_sweep_any_filter", "C09_locktime_bound_is_final",
          "C09_htlc_accept", "C09_htlc_accept_fields", "C09_sweep_nonvacuous", "C09_htlc_nonvacuous",
          "C09_htlc_premises_satisfiable", "C09_first_input_sequence_refuted", "C09_sweep_accept_as_found_input0"]

IMPORTS = ["Model.SweepCheck"]

FINDING = ("validate_delayed_sweep / validate_counterparty_htlc_sweep / validate_justice_sweep check tx.input[0].sequence "
           "while the signature is produced for tx.input[input]")


def _strip(c):
    return {k: v for k, v in c.items() if k != "coq"}


def _known():
    # only the committed KNOWN_FINDINGS.json counts (notes/fixes/C09-known-finding.json is a proposal, never read)
    return [f for f in lib.known_findings("C09") if f.get("class") == "sweep-sequence-of-first-input"]


def _seq_message(c):
    """every violated conjunct of this case is about the sequence of the signed input (or its existence)"""
    v = c.get("monitor_violation") or []
    return bool(v) and all(("of the signed input" in m) or ("input the transaction does not have" in m) for m in v)


def _first_input_class(cases):
    """the recorded class, exactly: a sweep signed for an input other than 0 (or naming a missing input) whose own
    sequence is off, on which the implementation answers what the model of the code as found (sequence of
    tx.input[0]) answers"""
    cand = [c for c in cases if _seq_message(c) and c["request"]["input"] != "0"]
    if not cand:
        return []
    bad = lib.coq_failures(IMPORTS, "sweep_case", "check_sweep_old", [c["coq"] for c in cand], "c09_sweep_cls")
    return [c for i, c in enumerate(cand) if i not in set(bad)]

# the tie to the source: Gen/TxUtilGen.v, Gen/CommitmentPolicyGen.v and Gen/SweepGen.v are regenerated right before the build
SOURCE_PINNED = ["C09_feerate_estimate_is_source", "C09_sweep_rules_are_source", "C09_delayed_sweep_rules_are_source",
                 "C09_justice_sweep_rules_are_source"]


def run(res):
    quick = res.tier == "quick"
    # the translator regenerates Gen/TxUtilGen.v from /repo's transaction_utils.rs under the build lock, right before
    # the theorem that relates it to the model's feerate estimate is re-checked
    tx_report = {}

    def regen():
        tx_report.update(gen_rustfn.generate_txutil(lib.REPO))
        stage["at"] = "sweep"
        # Gen/SweepGen.v (validate_sweep, validate_delayed_sweep, validate_justice_sweep) over the records of
        # Gen/CommitmentPolicyGen.v
        tx_report["commitment_policy"] = gen_rustfn.generate_commitment_policy(lib.REPO)["translated"]
        tx_report["sweep"] = gen_rustfn.generate_sweep(lib.REPO)
    stage = {"at": "txutil"}
    try:
        lib.proof_stage(res, "C09.v", "Props.C09", PINNED + SOURCE_PINNED, pre=regen)
    except gen_rustfn.GenError as e:
        if stage["at"] == "txutil":
            res.violation("the translator cannot read estimate_feerate_per_kw (a construct outside its fragment): %s" % e,
                          {"translator": "tools/gen_rustfn.py", "source": "vls-core/src/util/transaction_utils.rs",
                           "error": str(e), "theorem": "C09_feerate_estimate_is_source"}, has_input=False)
        else:
            res.violation("the translator cannot read validate_sweep / validate_delayed_sweep / validate_justice_sweep or a "
                          "declaration, constant or helper they use (a construct outside its fragment): %s" % e,
                          {"translator": "tools/gen_rustfn.py",
                           "source": "vls-core/src/policy/simple_validator.rs (+ policy/error.rs, wallet.rs, channel.rs, "
                                     "policy/validator.rs)",
                           "error": str(e), "theorem": "C09_sweep_rules_are_source"}, has_input=False)
    res.coverage["translated_from_source"] = tx_report
    cov = res.coverage
    profiles = ["debug"] if quick else ["debug", "release"]
    n = dict(sweepval=2400, sweepchan=700, htlcval=2000, htlcchan=700, sweephandler=1200, htlchandler=1200) if quick else \
        dict(sweepval=30000, sweepchan=4000, htlcval=30000, htlcchan=4000, sweephandler=10000, htlchandler=10000)
    cases = {k: [] for k in n}
    stats = []
    for prof in profiles:
        for sub in n:
            r = lib.run_harness("sweep", sub, res.seed, n[sub], res.tier, profile=prof)
            cases[sub] += r["CASE"]
            stats += r.get("STATS", [])

    sweeps = cases["sweepval"] + cases["sweepchan"]
    htlcs = cases["htlcval"] + cases["htlcchan"]
    sterms = [c["coq"] for c in sweeps]
    hterms = [c["coq"] for c in htlcs]
    fs = lib.coq_failures(IMPORTS, "sweep_case", "check_sweep", sterms, "c09_sweep")
    fh = lib.coq_failures(IMPORTS, "htlc_case", "check_htlc", hterms, "c09_htlc")
    # the same requests as protocol messages through the Root/ChannelHandler (glue modelled in SweepCheck.v)
    hsw, hht = cases["sweephandler"], cases["htlchandler"]
    fhs = lib.coq_failures(IMPORTS, "hsweep_case", "check_hsweep", [c["coq"] for c in hsw], "c09_hsweep")
    fhh = lib.coq_failures(IMPORTS, "hhtlc_case", "check_hhtlc", [c["coq"] for c in hht], "c09_hhtlc")

    # ---- the property itself on the implementation's answers
    mon_s = [c for c in sweeps if c["monitor_violation"]]
    mon_h = [c for c in htlcs if c["monitor_violation"]]
    known = _known()
    reported = 0
    seq_cases = _first_input_class(mon_s)
    seq_ids = {id(c) for c in seq_cases}
    other_s = [c for c in mon_s if id(c) not in seq_ids]
    if seq_cases and known:
        chan = [c for c in seq_cases if c["level"] == "channel"]
        ex = (chan or seq_cases)[0]
        res.known.append("class=sweep-sequence-of-first-input cases=%d (%s; e.g. %s input %s sequences %s: %s)"
                         % (len(seq_cases), FINDING, ex["request"]["sweep"], ex["request"]["input"],
                            [i["sequence"] for i in ex["request"]["tx"]["inputs"]], ex["monitor_violation"][0]))
    else:
        # end-to-end first: a real channel producing the signature
        for c in sorted(seq_cases, key=lambda c: (c["level"] != "channel", not str(c["request"]["label"]).startswith("witness")))[:3]:
            res.violation("a sweep whose signed input carries a sequence outside the bound was %s: %s"
                          % ("signed by the Channel call" if c["level"] == "channel" else "accepted by the validator",
                             "; ".join(c["monitor_violation"][:3])),
                          {"domain": "sweep-" + c["level"], "seed": res.seed, "case": _strip(c),
                           "refuted_in_model_of_code_as_found": "Props/C09.v C09_first_input_sequence_refuted",
                           "repair": "notes/fixes/C09-sweep-sequence-of-signed-input.patch"})
            reported += 1
    for c in other_s[:3]:
        res.violation("accepted sweep outside the property: " + "; ".join(c["monitor_violation"][:3]),
                      {"domain": "sweep-" + c["level"], "seed": res.seed, "case": _strip(c)})
        reported += 1
    for c in mon_h[:3]:
        res.violation("accepted second-level HTLC transaction outside the property: " + "; ".join(c["monitor_violation"][:3]),
                      {"domain": "htlc-" + c["level"], "seed": res.seed, "case": _strip(c)})
        reported += 1

    mon_hd = [c for c in hsw + hht if c["monitor_violation"]]
    for c in mon_hd[:3]:
        res.violation("a protocol request was answered with a signature outside the property (handler level; the property is "
                      "evaluated on what was signed): " + "; ".join(c["monitor_violation"][:3])[:600],
                      {"domain": "sweep-handler" if "sweep" in c["request"] else "htlc-handler", "seed": res.seed,
                       "case": _strip(c)})
        reported += 1
    shown = 0
    for lst, bad, model_fn, what in ((hsw, fhs, "hsweep_model_with SignedInput", "sweep"), (hht, fhh, "hhtlc_model", "htlc")):
        for i in bad:
            c = lst[i]
            if c["monitor_violation"]:
                continue
            if shown >= 3:
                break
            shown += 1
            model = lib.coq_eval(IMPORTS, "%s (%s)" % (model_fn, c["coq"]), "c09_show")
            res.violation("protocol handler disagrees with the model of its glue + Channel call (correspondence %s-handler); "
                          "codes: 0 signed, 1 panic, 150 refused" % what,
                          {"correspondence": what + "-handler", "theorem": "C09_sweep_accept" if what == "sweep" else "C09_htlc_accept",
                           "case": _strip(c), "model": model[-200:]}, has_input=False)

    # ---- correspondence; say whether the implementation still behaves like the code as found
    explained_old = None
    unexplained = list(fs)
    if fs:
        bad = [sterms[i] for i in fs]
        still = lib.coq_failures(IMPORTS, "sweep_case", "check_sweep_old", bad, "c09_sweep_old")
        explained_old = len(bad) - len(still)
        if known:
            unexplained = [fs[j] for j in still]
    shown = 0
    have_input = bool(mon_s or mon_h)
    for i in unexplained:
        c = sweeps[i]
        if have_input and c["monitor_violation"]:
            continue   # already reported with its input
        if shown >= 2:
            break
        shown += 1
        model = lib.coq_eval(IMPORTS, "(sweep_model (%s), sweep_model_old (%s))" % (c["coq"], c["coq"]), "c09_show")
        res.violation("real sweep validation disagrees with Model.Sweep (correspondence sweep-%s); codes: 0 accepted, 1 panic, "
                      "100+k refused with class k (channel level: 109 invalid argument, 150 refused)" % c["level"],
                      {"correspondence": "sweep-" + c["level"], "theorem": "C09_sweep_accept", "case": _strip(c),
                       "model(signed input, first input)": model[-300:]}, has_input=False)
    shown = 0
    for i in fh:
        c = htlcs[i]
        if c["monitor_violation"]:
            continue
        if shown >= 2:
            break
        shown += 1
        model = lib.coq_eval(IMPORTS, "htlc_model (%s)" % c["coq"], "c09_show")
        res.violation("real HTLC-transaction validation disagrees with Model.Sweep (correspondence htlc-%s)" % c["level"],
                      {"correspondence": "htlc-" + c["level"], "theorem": "C09_htlc_accept", "case": _strip(c),
                       "model": model[-300:]}, has_input=False)

    allc = sweeps + htlcs + hsw + hht
    structured = {c["coq"] for c in allc if c.get("structured")}
    dist = {}
    for k, cs in cases.items():
        d = {}
        for c in cs:
            d[str(c["observed"])] = d.get(str(c["observed"]), 0) + 1
        dist[k] = d
    accepted = sum(1 for c in allc if c["observed"] == 0)
    multi_out = sum(1 for c in sweeps if c["observed"] == 0 and len(c["request"]["tx"]["outputs"]) >= 2)
    multi_in = sum(1 for c in sweeps if c["observed"] == 0 and c["request"]["input"] not in ("0",))
    timelock = sum(1 for c in sweeps if c["request"]["tx"]["locktime"] >= 500000000)
    cov.update({
        "evaluations": len(allc),
        "distinct_nontrivial": len(structured),
        "rule": "sweeps (validator level with arbitrary heights incl. where height+2 stops being a block height or wraps u32; "
                "channel level on real channels at heights 0/3/5, types Legacy/StaticRemoteKey/Anchors/AnchorsZeroFeeHtlc, two "
                "delay pairs, six filters): 10% base requests that every check accepts (1-3 inputs with the signed input at "
                "any position, 1-3 outputs from wallet p2wpkh/p2sh-p2wpkh/p2tr, allowlisted, wallet-and-allowlisted "
                "scripts), 80% a base request with one or two of 14 mutations (version; lock time at 0, h..h+4, "
                "499999999/500000000/500000001, time-based, cltv-1/cltv/cltv+1; sequence of the signed / of any input at "
                "expected+-1, 0, 1, 2, 0xfffffffd..0xffffffff, delay, flag bits; swapped sequences; destination foreign / "
                "other wallet index / appended foreign output; wallet path empty / wrong index / bad length (wallet error); "
                "input index len, len+1, 2^32-1, 2^64-1; redeemscript of the other kind / other anchor variant / negative, "
                "2^31-1, 2^31, 2^32 expiry / garbage; no outputs; commitment number nh+1..nh+3; filter; moved signed "
                "input), 10% malformed (3-7 random mutations, sometimes no inputs).  HTLC transactions (validator level and "
                "both Channel calls; per-commitment point supplied or by number): base = the BOLT-3 transaction at a rate in "
                "range, mutated in version, lock time, sequence, to_self_delay (the other side's, +-1), revocation key, "
                "delayed key, output script, fee at min-1/min/min+1/max-1/max/max+1/2^32(+302) rates and one satoshi off "
                "the grid, output value, amount at 0, 546, 2^32, 2^64/1000(+1), 2^64-1, extra input / output, no inputs / "
                "outputs, redeemscript kind / anchor variant / garbage, filter, commitment number, outpoint.  Handler level: the "
                "same generators, sent as SignDelayedPaymentToUs / SignRemoteHtlcToUs / SignPenaltyToUs and their SignAny* "
                "variants, SignLocalHtlcTx / SignAnyLocalHtlcTx / SignRemoteHtlcTx (as_vec -> from_vec -> handler at protocol "
                "4/5/6), with the glue fields varied: wire input index, distinct witness_utxo amounts per PSBT input "
                "(missing, msat-sized, more/fewer PSBT inputs than the tx), key origins per PSBT output (bip32 / taproot, "
                "none, other index, two origins, exchanged between outputs, no PSBT outputs), witness_script of PSBT "
                "outputs, unknown dbid; every returned signature is verified against the mapped key, input, amount and "
                "script.  Non-trivial = "
                "structured case (base or mutated; not the malformed stream), distinct by full Coq term.",
        "samples": [_strip(cases["sweepchan"][0]), _strip(cases["sweepval"][12]), _strip(cases["htlcchan"][1]),
                    _strip(cases["htlcval"][22]), _strip(hsw[3]), _strip(hht[4])],
        "traces_validated_against_impl": len(allc),
        "accepted": accepted,
        "accepted_sweeps_with_2_or_more_outputs": multi_out,
        "accepted_sweeps_signing_input_above_0": multi_in,
        "sweep_cases_with_time_based_locktime": timelock,
        "correspondence_disagreements": len(fs) + len(fh) + len(fhs) + len(fhh),
        "disagreements_by_domain": {"sweep": len(fs), "htlc": len(fh), "sweep-handler": len(fhs), "htlc-handler": len(fhh)},
        "handler_level": {"requests": len(hsw) + len(hht), "signed": sum(1 for c in hsw + hht if c["observed"] == 0),
                          "signatures_verified_against_named_input": sum(1 for c in hsw if c.get("signature_verifies_for_named_input"))
                          + sum(1 for c in hht if c.get("signature_verifies")),
                          "monitor_failures": len(mon_hd)},
        "disagreements_matching_code_as_found(first-input sequence)": explained_old,
        "monitor_failures": len(mon_s) + len(mon_h) + len(mon_hd),
        "monitor_failures_by_class": {"sweep-sequence-of-first-input": len(seq_cases), "sweep-other": len(other_s),
                                      "htlc": len(mon_h), "handler": len(mon_hd)},
        "observed_distribution": dist,
        "profiles": profiles,
        "harness_stats": stats,
    })
    res.assumptions = [
        "the signature hash is injective on the fields the BIP143 preimage commits to (premise of C09_htlc_accept; "
        "collision resistance of double SHA-256 over rust-bitcoin's serialisation)",
        "commitment type other than non-zero-fee Anchors (unsafe type, refused by validate_setup_channel); release builds: "
        "htlc_amount_sat * 1000 <= u64::MAX (debug builds panic) — both premises of the theorem",
        "the wallet's answers (can_spend, allowlist_contains) and the script recognisers enter the model as oracles per "
        "case; keys, txids and scripts as identities",
        "for an HTLC-timeout the expiry is read from the transaction's own lock time (the offered-HTLC script does not "
        "contain it); only non-zero is enforced, as in the code",
        "the current chain height in the lock-time bound is the height of the best chain as counted by the harness from "
        "the blocks it connected and disconnected through the real tracker (model input), not the signer's own counter",
        "the correspondence is differential testing: bounded by the generator described in coverage.rule",
    ]
