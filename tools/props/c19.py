"""C19 — protocol messages survive the wire unchanged (translator route)."""
import json, os
import lib
import gen_wire

MANIFEST = dict(
    text="Coq theorem C19_registry: for every blob implementation satisfying the round-trip laws and every message m of "
         "the registry that is well-formed (integers in range, Octets < 2^16, WireStrings NUL-free, array counts < 2^16, "
         "streamed PSBTs consistent) and whose encoding fits MAX_MESSAGE_SIZE, from_vec (as_vec m) = Some (Known m). "
         "The records, enc_T / dec_T, the message sum and the dispatch table are REGENERATED from vls-protocol/src/msgs.rs "
         "and model.rs by tools/gen_wire.py on every run and re-proved (per-struct round trip by one tactic over "
         "once-proved combinators; table completeness; C19_ids_unique = NoDup of the type ids by computation over the "
         "generated table). C19_wf_from_size / C19_registry_sized: the array-count and blob-size parts of well-formedness "
         "follow from the encoding fitting MAX_MESSAGE_SIZE (one generated obligation per array field, max < min_size(elem) * "
         "2^16, by computation; only Array<WireString> keeps its count bound as a hypothesis). C19_psbt_sound / C19_psbt_accepts: the StreamedPSBT decoder, when it accepts, yields the "
         "encoded transaction, the previous outputs the encoded PSBT designates and the reference segwit flags, and it "
         "accepts exactly the consistent PSBTs (a witness_utxo without its previous transaction only for witness-program / p2sh "
         "outputs: C19_psbt_bare_claims). C19_frame / C19_framed_stream / C19_read_message: the u32 length framing inverts, and any "
         "number of messages written back to back are read back one by one by read / read_message, leaving the rest of the stream "
         "(the law is about the byte stream, so it holds however the carrier segments it: exercised over vls-proxy's UnixConnection / "
         "UnixClient::read_raw on a real socket pair). "
         "The combinators, the dispatch and the PSBT post-processing are compared with "
         "the real as_vec / msgs::from_vec / msgs::write / read / read_message / from_reader (and the typed T::from_vec) on generated values of all registry types (boundary-driven), on malformed byte "
         "strings and on consistent/inconsistent PSBTs on every run, with a round-trip monitor on the implementation.",
    design="§4 C19",
    note=lib.TB + "Additionally trusted: tools/gen_wire.py (reads struct/field/type/message_id/enum order; anything it does not "
         "understand is an error) - its reading of names and field lists is re-checked by rustc (generated harness code) "
         "and its type-to-codec mapping by the byte comparison. Modelled, not verified: rust-bitcoin Transaction/PSBT and "
         "txoo TxoProof encodings (opaque blobs; their round trips are premises of the theorems). The harness builds "
         "vls-protocol with its `developer` feature (as the crate's own tests do), so HsmdDevPreinit, HsmdDevPreinit2 (TLV option "
         "stream: Base/Tlv.v models LDK's encode/decode_tlv_stream for `option` fields, no size cap other than the frame's) and "
         "HsmdDevPreinitReply are part of the registry.",
    technique="Coq proof over a translator-generated model (regenerated and re-proved per run) + vm_compute correspondence "
              "with the Rust implementation",
)

PINNED = ["C19_ids_unique", "C19_struct_codecs", "C19_registry", "C19_wf_from_size", "C19_registry_sized", "C19_psbt_sound", "C19_psbt_accepts", "C19_psbt_bare_claims", "C19_psbt_bare_legacy_refused", "C19_psbt_sibling_inputs",
          "C19_streamed_field", "C19_frame", "C19_framed_stream", "C19_read_message", "C19_nonvacuous", "C19_tlv_nonvacuous", "C19_psbt_nonvacuous", "C19_duplicate_id_misroutes",
          "C19_old_id20_refuted"]


def run(res):
    quick = res.tier == "quick"
    cov = res.coverage
    # 1. translate the current source, rebuild the generated model and the executable checker
    report = {}

    def regen():
        report.update(gen_wire.generate(lib.REPO))

    try:
        ok, out = lib.build_coq(["theories/Model/WireCheck.vo"], pre=regen)
    except gen_wire.GenError as e:
        res.violation("the translator cannot read the message declarations: " + str(e),
                      {"translator": "tools/gen_wire.py", "error": str(e)}, has_input=False)
        cov.update({"evaluations": 0, "distinct_nontrivial": 0, "rule": "translator failed", "samples": [],
                    "obligations": 1, "discharged": 0})
        return
    cov["translator"] = {k: v for k, v in report.items() if k not in ("ids", "blob_types")}
    cov["translator"]["source"] = [os.path.join(lib.REPO, "vls-protocol/src/msgs.rs"),
                                   os.path.join(lib.REPO, "vls-protocol/src/model.rs")]
    model_ok = ok
    if not ok:
        res.violation("the generated wire model (Gen/WireGen.v) no longer checks: a per-struct round trip or the "
                      "completeness of the dispatch table failed for the current source"
                      + (" (not dispatched by enum Message: %s)" % ", ".join(report["undispatched"]) if report.get("undispatched") else ""),
                      {"generated": "coq/theories/Gen/WireGen.v", "undispatched": report.get("undispatched"),
                       "log": out[-3000:]}, has_input=False)
        cov.update({"obligations": 1, "discharged": 0})
    else:
        # 2. the property theorems over the regenerated model
        proved = lib.proof_stage(res, "C19.v", "Props.C19", PINNED)
        if not proved and report.get("duplicate_ids"):
            # say what the failing obligation is about (the violation itself was recorded by proof_stage)
            cov["failing_obligation"] = {"theorem": "C19_ids_unique", "duplicate_ids": report["duplicate_ids"]}
        if not proved and report.get("undispatched"):
            cov["failing_obligation"] = {"theorem": "C19_struct_codecs / C19_registry (open hypothesis arm_<T> in Gen/WireGen.v)",
                                         "not_returned_by_from_vec": report["undispatched"],
                                         "misnamed_variants": report.get("misnamed_variants")}
    cov["trusted_base"] = cov.get("trusted_base", []) + [
        "tools/gen_wire.py (translator; regenerated model re-proved on every run)",
        "rust-bitcoin / txoo encodings of Transaction, PSBT, TxoProof (premise blob_laws)"]

    # 3. correspondence + monitors on the real code
    n_rand = 2 if quick else 40
    n_mal = 60 if quick else 2000
    n_psbt = 150 if quick else 6000
    # (the generated Rust is written again right before the build: runs of other checks against seeded
    # trees put the committed copies of the generated files back when they finish)
    gen_wire.generate(lib.REPO, only_rust=True)
    msgs = lib.run_harness("wire", "msgs", res.seed, n_rand, res.tier)
    mal = lib.run_harness("wire", "malformed", res.seed, n_mal, res.tier)
    psbt = lib.run_harness("wire", "psbt", res.seed, n_psbt, res.tier)
    framed = lib.run_harness("wire", "framed", res.seed, 60 if quick else 600, res.tier)
    cases, mals, psbts, wps = msgs["CASE"], mal["MAL"], psbt["PSBT"], psbt["WP"]
    streams, fmals = framed["STREAM"], framed["FMAL"]
    # the same frames over the real hsmd socket carrier of vls-proxy (binary `carrier` = wire.rs + feature `proxy`)
    carrier = lib.run_harness("carrier", "carrier", res.seed, 48 if quick else 480, res.tier)
    carried = carrier["CARRIER"]
    imports = ["Model.WireCheck"]
    f_wire = f_mal = f_psbt = f_wp = f_stream = f_fmal = f_carrier = []
    if model_ok:   # (without a model only the monitors below run)
        f_wire = lib.coq_failures(imports, "wire_case", "check_wire", [c["coq"] for c in cases], "c19_wire")
        f_mal = lib.coq_failures(imports, "mal_case", "check_mal", [c["coq"] for c in mals], "c19_mal")
        f_psbt = lib.coq_failures(imports, "psbt_case", "check_psbt", [c["coq"] for c in psbts], "c19_psbt")
        f_wp = lib.coq_failures(imports, "wp_case", "check_wp", [c["coq"] for c in wps], "c19_wp")
        f_stream = lib.coq_failures(imports, "stream_case", "check_stream", [c["coq"] for c in streams], "c19_stream")
        f_fmal = lib.coq_failures(imports, "fmal_case", "check_fmal", [c["coq"] for c in fmals], "c19_fmal")
        f_carrier = lib.coq_failures(imports, "stream_case", "check_stream", [c["coq"] for c in carried], "c19_carrier")

    # the property itself on the implementation's answers
    mon = [c for c in cases if c["monitor_violation"]]
    mon_psbt = [c for c in psbts if c["monitor_violation"]]
    mon_stream = [c for c in streams if c["monitor_violation"]]
    mon_carrier = [c for c in carried if c["monitor_violation"]]
    seen = set()
    for c in mon:
        key = (c["ty"], c["out"], c["detail"])
        if key in seen or len(seen) >= 3:
            continue
        seen.add(key)
        what = {1: "msgs::from_vec refuses the message's own encoding (%s)" % c["detail"],
                2: "as_vec panicked on a value that should be encodable",
                3: "msgs::from_vec(as_vec(m)) is not m: %s" % c["detail"],
                4: "msgs::from_vec does not know the message's own type id",
                5: "msgs::from_vec panicked on the message's own encoding"}.get(c["out"], c["detail"])
        dup = [d for d in report.get("duplicate_ids", []) if c["ty"] in d["types"]]
        res.violation("%s: %s" % (c["ty"], what),
                      {"domain": "wire-msgs", "seed": c["seed"], "type": c["ty"], "message_id": c["id"], "case_kind": c["kind"],
                       "value_coq": c["value"], "as_vec_hex": c["full_bytes"], "from_vec": c["detail"],
                       "expected": "Ok(Message::%s) with equal fields" % c["ty"],
                       "shared_id_with": dup[0]["types"] if dup else None,
                       "replay": "harness wire msgs --seed %d --n %d --tier %s %s" % (res.seed, n_rand, res.tier, c["ty"])})
    for c in mon_psbt[:2]:
        res.violation("StreamedPSBT: " + c["monitor_violation"],
                      {"domain": "wire-psbt", "seed": c["seed"], "message": c.get("carrier"), "inputs": c["inputs"],
                       "previous_transactions": c.get("shares"), "psbt_hex": c["psbt_hex"], "as_vec_hex": c.get("message_hex"),
                       "replay": "harness wire psbt --seed %d --n %d" % (res.seed, n_psbt)})
    for c in mon_stream[:2]:
        res.violation("framed stream: " + c["monitor_violation"],
                      {"domain": "wire-framed", "seed": res.seed, "sequence": c["seq"], "types": c["types"], "values_coq": c["values"],
                       "stream_written_by_msgs_write_hex": c["stream_hex"], "read_back": c["detail"],
                       "expected": "msgs::write(m) == write_vec(as_vec(m)); msgs::read / read_message / from_reader return the messages one by one, nothing left",
                       "replay": "harness wire framed --seed %d --n %d" % (res.seed, 60 if quick else 600)})
    for c in mon_carrier[:2]:
        res.violation("hsmd socket carrier: " + c["monitor_violation"],
                      {"domain": "wire-carrier", "seed": res.seed, "case": c["case"], "types": c["types"], "cut": c["cut"],
                       "segment_lengths": c["segments"], "values_coq": c["values"], "stream_hex": c["stream_hex"],
                       "expected": "UnixClient::read_raw returns, frame by frame, exactly the bytes written (u32 length prefix, body of that "
                                   "length), however the stream was segmented; they decode to the messages sent",
                       "replay": "harness carrier carrier --seed %d --n %d" % (res.seed, 48 if quick else 480)})
    if not mon and not mon_psbt and not mon_stream and not mon_carrier:
        for i in f_wire[:2]:
            c = cases[i]
            res.violation("as_vec / from_vec of %s disagrees with the generated model (correspondence wire-msgs)" % c["ty"],
                          {"correspondence": "wire-msgs", "case": {k: v for k, v in c.items() if k not in ("coq", "value", "full_bytes")},
                           "coq_case": c["coq"][:4000]}, has_input=False)
        for i in f_mal[:2]:
            c = mals[i]
            res.violation("msgs::from_vec on a malformed byte string disagrees with the model (correspondence wire-malformed)",
                          {"correspondence": "wire-malformed", "case": {k: v for k, v in c.items() if k != "coq"}}, has_input=False)
        for i in f_psbt[:2]:
            c = psbts[i]
            res.violation("StreamedPSBT decoding disagrees with Model.Wire.streamed_post (correspondence wire-psbt)",
                          {"correspondence": "wire-psbt", "theorem": "C19_psbt_sound", "case": {k: v for k, v in c.items()}}, has_input=False)
        for i in f_stream[:2]:
            c = streams[i]
            res.violation("msgs::write / msgs::read on a framed stream disagrees with the model (correspondence wire-framed)",
                          {"correspondence": "wire-framed", "theorem": "C19_framed_stream",
                           "case": {k: v for k, v in c.items() if k != "coq"}}, has_input=False)
        for i in f_carrier[:2]:
            c = carried[i]
            res.violation("frames read through vls-proxy's UnixClient::read_raw disagree with the framing model (correspondence wire-carrier)",
                          {"correspondence": "wire-carrier", "theorem": "C19_framed_stream",
                           "case": {k: v for k, v in c.items() if k != "coq"}}, has_input=False)
        for i in f_fmal[:2]:
            res.violation("msgs::read on a malformed frame disagrees with the model (correspondence wire-framed)",
                          {"correspondence": "wire-framed", "case": {k: v for k, v in fmals[i].items() if k != "coq"}}, has_input=False)
        for i in f_wp[:2]:
            res.violation("Script::is_witness_program disagrees with the model", {"correspondence": "wire-psbt", "case": wps[i]},
                          has_input=False)
    observations = [c for c in cases if c["expect"] == 9]

    # coverage: a message case is non-trivial when the value has at least one non-empty variable part or a
    # present option, i.e. anything but the all-minimal value; distinct by Coq term
    nontrivial = {c["coq"] for c in cases if c["kind"] != "min" and c["out"] in (0, 1)}
    nontrivial |= {c["coq"] for c in psbts if c["accepted"] and any(k.startswith("Nwu") for k in c["inputs"])}
    nontrivial |= {c["coq"] for c in mals if c["what"] not in ("valid", "empty", "one-byte")}
    nontrivial |= {c["coq"] for c in streams if len(c["types"]) >= 2}
    nontrivial |= {c["coq"] for c in fmals if c["what"] != "frame+tail"}
    nontrivial |= {c["coq"] + c["cut"] for c in carried if len(c["segments"]) >= 2}
    per_type = {}
    for c in cases:
        per_type[c["ty"]] = per_type.get(c["ty"], 0) + 1
    small = [c for c in cases if c["len"] < 200 and c["kind"] == "rand"]
    cov.update({
        "evaluations": len(cases) + len(mals) + len(psbts) + len(wps) + len(streams) + len(fmals) + len(carried),
        "distinct_nontrivial": len(nontrivial),
        "rule": "msgs: for each of the registry's message types (generated list) the all-minimal value (None, empty, 0), the "
                "all-maximal value (Some, full small arrays, integer maxima), random values with integers drawn from 0, 1, MAX, MAX-1, "
                "2^k, 2^k-1 and random, embedded random transactions / PSBTs / TxoProofs, and each variable-length site (Octets, "
                "LargeOctets, WireString, Array, ArrayBE; quick: up to 4 per type rotated by seed) driven to the largest denotable "
                "length that fits MAX_MESSAGE_SIZE (exactly 131072 bytes where the unit is one byte), one more (refused as too large), "
                "the largest lengths with total size <= 65535 / 65536 / 65537, for TLV option streams every array count from just below a "
                "65535-byte stream to 150 beyond it (so that a record ends exactly at byte 65535 with further records behind it), "
                "65536 bytes of Octets / a NUL in a WireString (as_vec panics) and 65536 array elements (count truncated: observation); "
                "carrier: 1-3 frames (random registry values, large streamed-PSBT requests with hundreds of utxos, long byte strings) written "
                "to a UnixStream::pair() in 1, 2 or 3 segments (cut in the body, right after / inside the length prefix, after the type, "
                "before the last byte, the earlier frames arriving whole) and taken off the socket with vls-proxy's UnixClient::read_raw over "
                "UnixConnection, compared bytewise and after decoding; replies written with UnixClient::write_vec read back at the other end; "
                "framed: sequences of 2-4 messages (every registry type first or second in some sequence; minimal / maximal / random / one "
                "long message) written with msgs::write (must equal write_vec(as_vec())), read back with msgs::read, read_message::<T> and "
                "from_reader, nothing left; single frames with length +1 / -1 / < 2 / > max, stream ending early, short length prefix; "
                "malformed: truncations, one extra byte, changed payload bytes, another type's id, unknown ids, oversize; psbt: PSBTs with "
                "1-4 inputs, each spending its own previous transaction, another output of a previous transaction an earlier input "
                "(adjacent or not) spends too, or the very same outpoint again, carried in turn by SignWithdrawal / SignAnchorspend / "
                "SignHtlcTxMingle and decoded both by msgs::from_vec and by the message's typed from_vec (which must agree); the inputs are bare / witness_utxo only about an admissible output (witness programs of every boundary shape, p2sh) / witness_utxo "
                "only about a legacy output (p2pkh, p2sh-like scripts of 22 and 24 bytes and with each fixed opcode wrong, near-miss witness "
                "programs: refused) / previous tx (+ matching, + mismatching value or script, wrong txid, vout out "
                "of range) with scripts around every decision of is_witness_program and is_p2sh. Non-trivial: any message case other than the "
                "all-minimal one that was encoded, malformed strings other than unmodified ones, accepted PSBTs with a previous "
                "transaction; distinct by Coq term",
        "samples": [{k: v for k, v in c.items() if k not in ("value", "full_bytes")} for c in small[:2]]
                   + [{k: v for k, v in mals[5].items()}] + [{k: v for k, v in psbts[0].items() if k != "psbt_hex"}],
        "traces_validated_against_impl": len(cases) + len(mals) + len(psbts) + len(wps) + len(streams) + len(fmals) + len(carried),
        "correspondence_disagreements": len(f_wire) + len(f_mal) + len(f_psbt) + len(f_wp) + len(f_stream) + len(f_fmal) + len(f_carrier),
        "monitor_failures": len(mon) + len(mon_psbt) + len(mon_stream) + len(mon_carrier),
        "registry_types": report["messages"],
        "registry_types_exercised": len(per_type),
        "cases_per_type_min": min(per_type.values()) if per_type else 0,
        "observations": [{"ty": c["ty"], "note": c["note"], "what": "Array writes its count with `as u16`: 65536 elements are "
                          "written as count 0 and msgs::from_vec then refuses the bytes (%s); not a value the wire format can denote, "
                          "the count bound is an explicit hypothesis of C19_registry (wf_msg)" % c["detail"]} for c in observations][:3],
        "harness_stats": msgs.get("STATS", []) + mal.get("STATS", []) + psbt.get("STATS", []) + framed.get("STATS", []) + carrier.get("STATS", []),
    })
    res.assumptions = [
        "blob_laws: rust-bitcoin's Transaction and Psbt and txoo's TxoProof decode their own encodings (premise of the theorems; exercised by the harness, not proved)",
        "tools/gen_wire.py reads the declarations faithfully (struct and field names re-checked by rustc through the generated harness code; codecs re-checked bytewise on this run's values)",
        "the hand-written combinators (Base/Codec.v), dispatch (Model/Wire.v from_vec) and streamed_post agree with serde_bolt / bitcoin-consensus-derive / bolt-derive / psbt.rs: differential testing on this run's cases, bounded by the generator described in coverage.rule",
        "cargo feature `developer` on in the harness build and in the translator (the registry then has 3 more messages; the non-developer registry is a subset with the same codecs)",
    ]
