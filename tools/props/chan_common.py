"""Shared driver for the properties decided on the `chan` domain (C01, C02, C03): the proof stage
for the property's theorem file, then the correspondence of Model/Enforcement.v with the real
channel (debug and release builds) and the implementation-side monitor for that property."""
import lib
import gen_rustfn

IMPORTS = ["Model.EnforcementCheck"]

TIE = ("  The model's decisions ARE the source's: SimpleValidator::validate_holder_commitment_tx, "
       "::validate_counterparty_commitment_tx, ::validate_counterparty_revocation (whole bodies; the verdict of "
       "validate_commitment_tx is a parameter, tied to the policy model under C05), Validator::get_current_holder_commitment_info "
       "and ::set_next_holder_commit_num are translated statement by statement on every run by tools/gen_rustfn.py "
       "(Gen/EnforcementRulesGen.v, over the EnforcementState record and methods of Gen/EnforcementGen.v) and proved to decide "
       "what Model/Enforcement.v decides, for every state, request, policy filter and both build profiles: ")
TRUST = "Additionally trusted: tools/gen_rustfn.py and the meaning Base/Rust.v gives to the Rust constructs it reads.  "


def run_tied(res, props_file, pinned, monitor_tag, theorem):
    """run(), with the translator in front of the proof stage: Gen/EnforcementGen.v (the state updates and look-ups of
    EnforcementState) and Gen/EnforcementRulesGen.v (the commitment-number rules of the validator) are regenerated from
    /repo under the build lock, right before the theorems that relate them to Model/Enforcement.v are re-checked.
    `theorem`: the first of the property's theorems that rests on the translation (named in the violation)."""
    report = {}

    def regen():
        report.update(gen_rustfn.generate_enforcement(lib.REPO))
        report["rules"] = gen_rustfn.generate_enforcement_rules(lib.REPO)
    try:
        run(res, props_file, pinned, monitor_tag, pre=regen)
    except gen_rustfn.GenError as e:
        res.violation("the translator cannot read the commitment-number rules of the validator or the EnforcementState "
                      "methods they use (a construct outside its fragment): %s" % e,
                      {"translator": "tools/gen_rustfn.py",
                       "source": "vls-core/src/policy/validator.rs, vls-core/src/policy/simple_validator.rs (+ policy/error.rs, "
                                 "policy/onchain_validator.rs, tx/tx.rs)",
                       "error": str(e), "theorem": theorem}, has_input=False)
    res.coverage["translated_from_source"] = report


def run(res, props_file, pinned, monitor_tag, extra_assumptions=(), pre=None):
    quick = res.tier == "quick"
    lib.proof_stage(res, props_file, "Props." + props_file[:-2], pinned, pre=pre)
    cov = res.coverage
    n_dbg = 220 if quick else 2500
    n_rel = 120 if quick else 1500
    dbg = lib.run_harness("chan", "run", res.seed, n_dbg, res.tier, profile="debug", timeout=3000)
    rel = lib.run_harness("chan", "run", res.seed + 1000, n_rel, res.tier, profile="release", timeout=3000)
    cases = dbg["CASE"] + rel["CASE"]
    fails = lib.coq_failures(IMPORTS, "chan_case", "check_chan", [c["coq"] for c in cases],
                             "chan_" + res.pid.lower())
    mon = [c for c in cases if any(v.startswith(monitor_tag + ":") for v in c["monitor_violations"])]
    for c in mon[:3]:
        res.violation("%s fails on the implementation's own answers: %s" % (
                          res.pid, [v for v in c["monitor_violations"] if v.startswith(monitor_tag)][:2]),
                      {"domain": "chan", "seed": res.seed, "profile": c["profile"], "proto": c["proto"],
                       "history": c["ops"], "violations": c["monitor_violations"]})
    if not mon:
        for i in fails[:2]:
            c = cases[i]
            d = lib.coq_eval(IMPORTS, "chan_first_diff (%s)" % c["coq"], "chan_show")
            res.violation("the real channel disagrees with Model.Enforcement (correspondence chan); "
                          "the theorems of %s are about the model and no longer carry over" % props_file,
                          {"correspondence": "chan", "theorems": pinned, "first_difference_at_step": d,
                           "profile": c["profile"], "proto": c["proto"], "warn": c["warn"],
                           "history": c["ops"], "coq_case": c["coq"]},
                          has_input=False)
    nontrivial = set()
    for c in cases:
        kinds = set()
        for o in c["ops"]:
            op = o["op"]
            kinds.add((op if isinstance(op, str) else op[0], o["st"]))
        if any(o["secret"] is not None for o in c["ops"]) and len(kinds) >= 8:
            nontrivial.add(c["coq"])
    stats = dbg.get("STATS", []) + rel.get("STATS", [])
    cov.update({
        "evaluations": len(cases),
        "distinct_nontrivial": len(nontrivial),
        "rule": "histories of 4..32 requests on one real channel (Channel methods and real protocol messages through "
                "ChannelHandler at protocol 4/5/6, restarts from the store, stub phase, one tag downgraded in ~1/6 of the "
                "cases), about half of the steps protocol-guided, the rest drawn around the counters (c-2..c+3, 0, "
                "2^64-1..2^64-3), contents with 0..2 HTLCs, good signatures / wrong commitment signature / one wrong HTLC signature / "
                "fewer HTLC signatures than HTLCs, same / changed content on retries; debug and release builds; "
                "non-trivial = discloses at least one secret and has >= 8 distinct (request kind, outcome) pairs; distinct by "
                "full history",
        "samples": [{"proto": cases[0]["proto"], "profile": cases[0]["profile"], "ops": cases[0]["ops"][:12]}],
        "traces_validated_against_impl": len(cases),
        "requests_replayed": sum(len(c["ops"]) for c in cases),
        "correspondence_disagreements": len(fails),
        "monitor_failures": len(mon),
        "op_outcome_distribution": [s.get("ops") for s in stats],
    })
    res.assumptions = [
        "contents of commitments, points and secrets are identities; the content/payment policy verdict, signature validity and "
        "the secret-store chain check enter the model as per-request booleans supplied by the harness from the real validators",
        "request numbers are u64 (wf_op) and the history is shorter than 2^63 requests (short)",
        "a panic ends the process and the next request is served after a restart from the store (crash rule of the model)",
        "the correspondence is differential testing: bounded by the generator described in coverage.rule",
    ] + list(extra_assumptions)
