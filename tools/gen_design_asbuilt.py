import re,sys,importlib,os,json
sys.path.insert(0,'/verif/tools'); sys.path.insert(0,'/verif/tools/props')
p='/verif/DESIGN.md'
s=open(p).read()
order=['C01','C02','C03','C04','C05','C06','C07','C08','C09','C10','C11','C12','C13','C14','C15','C16','C17','C18','C19','C20']
mine={'C01','C02','C03','C06','C10','C11','C12'}
for k in order:
    if k in mine: continue
    try:
        m=importlib.import_module('props.'+k.lower())
    except Exception as e:
        print('skip',k,e); continue
    man=m.MANIFEST
    pf='/verif/coq/theories/Props/%s.v'%k
    thms=re.findall(r'^(?:Theorem|Example|Corollary|Lemma)\s+(\w+)',open(pf).read(),re.M) if os.path.exists(pf) else []
    mut='notes/mutations-%s.md'%k
    v='**As built** (text of the registered check, `tools/props/%s.py`).  %s  **Theorem file** `Props/%s.v`: %s.  **Trusted / assumed:** %s%s'%(
        k.lower(), man['text'].strip(), k, ', '.join('`%s`'%t for t in thms) or '(being written)', man['note'].strip(),
        ('  Mutation smoke tests and observations: `%s`.'%mut) if os.path.exists('/verif/'+mut) else '')
    nxt=order[order.index(k)+1] if k!='C20' else None
    pat='\n### %s ' % nxt if nxt else '\n---------------------------------------------------------------------------------------------\n\n## 5.'
    i=s.index(pat); j=s.index('\n### %s '%k)
    sec=s[j:i]
    mm=sec.find('\n**As built')
    if mm>=0: sec=sec[:mm].rstrip('\n')+'\n'
    # wrap to 100 cols
    import textwrap
    v='\n'.join(textwrap.wrap(v,width=98,break_long_words=False,break_on_hyphens=False))
    sec=sec.rstrip('\n')+'\n\n'+v+'\n'
    s=s[:j]+sec+s[i:]
open(p,'w').write(s)
