#!/usr/bin/env python3
"""Regenerate the machine-kept tables of DESIGN.md (between <!-- BEGIN x --> / <!-- END x -->):
findings (from KNOWN_FINDINGS.json) and seeded (from seeded/*/meta.json + checks.json)."""
import json, os, re, glob

ROOT = os.path.dirname(os.path.dirname(os.path.abspath(__file__)))


def esc(s):
    return str(s).replace("|", "\\|").replace("\n", " ")


def findings():
    d = json.load(open(os.path.join(ROOT, "KNOWN_FINDINGS.json")))
    rows = ["| property | status | /repo commit | what failed on the tree as found |", "|---|---|---|---|"]
    for f in sorted(d["findings"], key=lambda f: (f["property"], f["status"] != "fixed")):
        what = f.get("what") or f.get("summary") or f.get("title") or ""
        if f.get("witness"):
            what += "  Witness: " + " ; ".join(map(str, f["witness"]))
        rows.append("| %s | %s | %s | %s |" % (f["property"], f["status"], f.get("commit", "—"), esc(what[:700])))
    return "\n".join(rows)


def seeded():
    rows = ["| seeded change | breaks | needs, in order to manifest | checks run (quick tier) → result |", "|---|---|---|---|"]
    for m in sorted(glob.glob(os.path.join(ROOT, "seeded", "*", "meta.json"))):
        meta = json.load(open(m))
        cpath = os.path.join(os.path.dirname(m), "checks.json")
        res = []
        if os.path.exists(cpath):
            for k, v in sorted(json.load(open(cpath)).items()):
                pid = k.split("/")[0]
                if v["exit"] == 1 and v.get("caught"):
                    how = "caught"
                    if all("no-failing-input-found" in l for l in v["lines"] if l.startswith("VIOLATION")):
                        how += " (proof/correspondence only, no failing input)"
                    else:
                        how += " with a failing input"
                elif v["exit"] == 0:
                    how = "not caught"
                else:
                    how = "error (exit %s)" % v["exit"]
                res.append("%s: %s" % (pid, how))
        note = meta.get("history", "")
        rows.append("| `%s` | %s | %s | %s%s |" % (meta["name"], meta["property"], esc(meta.get("needs_to_manifest", "")),
                                                  "; ".join(res) or "not run yet", (" — " + esc(note)) if note else ""))
    return "\n".join(rows)


def main():
    p = os.path.join(ROOT, "DESIGN.md")
    s = open(p).read()
    for name, fn in (("findings", findings), ("seeded", seeded)):
        pat = re.compile(r"(<!-- BEGIN %s -->\n).*?(<!-- END %s -->)" % (name, name), re.S)
        if not pat.search(s):
            print("marker for %s missing" % name)
            continue
        s = pat.sub(lambda m: m.group(1) + fn() + "\n" + m.group(2), s)
    open(p, "w").write(s)


if __name__ == "__main__":
    main()
