"""C20 translator: from the lock programs recorded by `harness locks record` to the lock-order
graph, a searched rank, the cycles (if any) with the call sites that create them, and the
generated Coq file Gen/LockProgs.v."""
import fnmatch, json, os

HERE = os.path.dirname(os.path.abspath(__file__))
ROOT = os.path.dirname(HERE)
OUT = os.path.join(ROOT, "coq", "theories", "Gen", "LockProgs.v")


class GenError(Exception):
    pass


def load(recs):
    """recs = {kind: [json]} as returned by lib.run_harness."""
    classes = {c["code"]: c for c in recs["CLASSES"][0]}
    progs = []
    for p in recs["PROG"]:
        if "error" in p:
            raise GenError("request %s: %s" % (p["name"], p["error"]))
        if p["outcome"] not in ("ok", "refused"):
            raise GenError("request %s ended with %s while its program was recorded" % (p["name"], p["outcome"]))
        for k, c, i in p["events"]:
            if k not in "ART":
                raise GenError("request %s uses try_lock (event %s): not covered by the model" % (p["name"], k))
        if p["still_held"]:
            raise GenError("request %s returned while holding %s" % (p["name"], p["still_held"]))
        progs.append(p)
    return classes, progs


def lname(classes, l):
    return "%s#%d" % (classes[l[0]]["name"], l[1])


def edges_of(prog):
    """(holder lock, acquired lock, number of the acquisition after which the holder lock is
    held = pause point, index of the acquired lock's acquisition)"""
    held = []   # (lock, acquisition number)
    out = []
    nacq = 0
    for k, c, i in prog["events"]:
        l = (c, i)
        if k == "A":
            nacq += 1
            for h, n in held:
                out.append((h, l, n, nacq))
            held.append((l, nacq))
        elif k == "R":
            for j in range(len(held) - 1, -1, -1):
                if held[j][0] == l:
                    del held[j]
                    break
    return out


def build_graph(progs):
    """class-level graph: {(c1, c2): [witness]}; same-class edges are kept apart"""
    g, same = {}, []
    for p in progs:
        for h, l, n, m in edges_of(p):
            w = {"request": p["name"], "holds": h, "takes": l, "park_after": n}
            if h[0] == l[0]:
                if not h[1] < l[1]:
                    same.append(w)
            else:
                g.setdefault((h[0], l[0]), []).append(w)
    return g, same


def toposort(nodes, edges):
    """Kahn; returns (order, leftover nodes that are on or behind a cycle)"""
    indeg = {n: 0 for n in nodes}
    for a, b in edges:
        indeg[b] += 1
    order = []
    ready = sorted(n for n in nodes if indeg[n] == 0)
    while ready:
        n = ready.pop(0)
        order.append(n)
        for a, b in sorted(edges):
            if a == n:
                indeg[b] -= 1
                if indeg[b] == 0:
                    ready.append(b)
                    ready.sort()
    return order, [n for n in nodes if n not in order]


def elementary_cycles(nodes, edges, limit=200):
    """all elementary cycles of a small digraph, shortest first (each reported once, starting
    at its smallest node)"""
    succ = {n: sorted(b for a, b in edges if a == n) for n in nodes}
    out = []

    def dfs(start, cur, path):
        for nx in succ[cur]:
            if nx == start:
                out.append(list(path))
            elif nx > start and nx not in path and len(path) < 6:
                path.append(nx)
                dfs(start, nx, path)
                path.pop()
    for s in sorted(nodes):
        dfs(s, s, [s])
    out.sort(key=lambda c: (len(c), c))
    return out[:limit]


def match_known(w, classes, known):
    """is this edge witness one of the listed inversions? returns the entry"""
    for k in known:
        for inv in k.get("inversions", []):
            if classes[w["holds"][0]]["name"] == inv["holds"] and classes[w["takes"][0]]["name"] in inv["takes"] \
                    and any(fnmatch.fnmatch(w["request"], pat) for pat in inv["requests"]):
                return k
    return None


def analyse(classes, progs, known):
    g, same = build_graph(progs)
    nodes = sorted({c for p in progs for k, c, i in p["events"]})
    cycles_all = elementary_cycles(nodes, set(g))
    # take the listed inversions out; the requests that contain one are excluded from the theorem
    excluded, used = set(), {}
    g2 = {}
    for e, ws in g.items():
        for w in ws:
            k = match_known(w, classes, known)
            if k is not None:
                excluded.add(w["request"])
                used.setdefault(k["id"], []).append(w)
            else:
                g2.setdefault(e, []).append(w)
    # an excluded request contributes no edges at all (its whole program is outside the theorem)
    g2 = {e: [w for w in ws if w["request"] not in excluded] for e, ws in g2.items()}
    g2 = {e: ws for e, ws in g2.items() if ws}
    same2 = [w for w in same if w["request"] not in excluded]
    order, left = toposort(nodes, set(g2))
    cycles = elementary_cycles(nodes, set(g2))
    rank = {c: i for i, c in enumerate(order + left)}
    return {"graph": g, "graph_checked": g2, "same": same2, "nodes": nodes, "order": order, "leftover": left,
            "rank": rank, "cycles": cycles, "cycles_all": cycles_all, "excluded": sorted(excluded), "known_used": used}


UPDATE_PREFIXES = ("validate_holder_commitment", "revoke_holder_commitment", "sign_counterparty_commitment",
                   "validate_counterparty_revocation", "sign_holder_commitment", "sign_mutual_close",
                   "htlcs_fulfilled",
                   # the same through ChannelHandler::do_handle (protocol 4 and 6)
                   "h4_validate_commitment", "h6_validate_commitment", "h4_revoke_commitment", "h6_revoke_commitment",
                   "h4_sign_remote_commitment", "h6_sign_remote_commitment")


def is_update(name):
    return name.startswith(UPDATE_PREFIXES)


def model_schedule(progs_by_name, spec):
    """Run the race spec in the model (same rules as Model/Locks.v): thread i runs alone until
    right after its k_i-th acquisition, the last one until it blocks, then the parked ones are
    resumed last to first.  Returns (schedule, deadlocked)."""
    names, parks = [], []
    for s in spec:
        n, _, k = s.partition(":")
        names.append(n)
        parks.append(int(k) if k else None)
    rest = [list(progs_by_name[n]["events"]) for n in names]
    held = [[] for _ in names]
    sched = []

    def busy():
        return {l for h in held for l in h}

    def run(i, until_acq=None):
        nacq = 0
        while rest[i]:
            k, c, x = rest[i][0]
            l = (c, x)
            if k == "A":
                if l in busy():
                    return "blocked"
                held[i].append(l)
                nacq += 1
            elif k == "R":
                held[i].remove(l)
            rest[i].pop(0)
            sched.append(i)
            if k == "A" and until_acq is not None and nacq == until_acq:
                return "parked"
        return "finished"
    for i in range(len(names)):
        run(i, parks[i])
    for i in range(len(names) - 1, -1, -1):
        if rest[i]:
            run(i)
    # let everybody who can still move do so
    moved = True
    while moved:
        moved = False
        for i in range(len(names)):
            n0 = len(sched)
            if rest[i]:
                run(i)
            moved = moved or len(sched) > n0
    return sched, any(rest)


def check_then_act(classes, progs, cls_name="M"):
    """Requests that take a lock of class `cls_name` (the channel map) in two or more separate
    critical sections and access the protected value in at least two of them: a look-up and a
    later update that are not one atomic step.  Not a violation by itself (setup_channel does
    it under the tracker lock); the names direct the two-thread sweep to these requests."""
    out = []
    for p in progs:
        sections, cur = {}, {}
        for k, c, i in p["events"]:
            if classes[c]["name"] != cls_name:
                continue
            l = (c, i)
            if k == "A":
                cur[l] = 0
            elif k == "T" and l in cur:
                cur[l] += 1
            elif k == "R" and l in cur:
                sections.setdefault(l, []).append(cur.pop(l))
        for l, secs in sections.items():
            if len([x for x in secs if x > 0]) >= 2:
                out.append({"request": p["name"], "lock": lname(classes, l), "sections": len(secs)})
    return out


def atomic_programs(repo):
    """Syntactic translator for the lock-free shared state of vls-core: every `Atomic*` struct field
    and, per function, the atomic operations performed on it in source order.  A read-modify-write
    (`fetch_*`, `swap`, `compare_exchange*`) is ONE event `Rmw`; `load` and `store` are the events
    `Ld` and `St`.  Anything else on such a field is an error."""
    import glob, re
    root = os.path.join(repo, "vls-core", "src")
    files = [f for f in glob.glob(os.path.join(root, "**", "*.rs"), recursive=True)
             if "/test_utils/" not in f and not f.endswith("_tests.rs") and not f.endswith("verif_sync.rs")]
    fields = {}
    for f in files:
        for m in re.finditer(r"^\s*(?:pub(?:\([a-z]+\))?\s+)?(\w+)\s*:\s*(Atomic\w+)\s*,", open(f).read(), flags=re.M):
            fields[m.group(1)] = (m.group(2), os.path.relpath(f, repo))
    progs = []
    for f in files:
        txt = open(f).read()
        # cut the unit tests of the file off
        cut = txt.find("#[cfg(test)]\nmod tests")
        if cut >= 0:
            txt = txt[:cut]
        fns = [(m.start(), m.group(1)) for m in re.finditer(r"\bfn\s+(\w+)", txt)]
        per = {}
        for name in fields:
            for m in re.finditer(r"\.%s\s*\.\s*(\w+)\s*\(" % re.escape(name), txt):
                op = m.group(1)
                fn = [n for pos, n in fns if pos < m.start()]
                fn = fn[-1] if fn else "?"
                if op.startswith("fetch_") or op in ("swap", "compare_exchange", "compare_exchange_weak", "compare_and_swap"):
                    ev = "Rmw"
                elif op == "load":
                    ev = "Ld"
                elif op == "store":
                    ev = "St"
                else:
                    raise GenError("atomic field %s: operation %s in %s is not understood" % (name, op, f))
                per.setdefault((name, fn), []).append(ev)
        for (name, fn), ops in sorted(per.items()):
            progs.append({"field": name, "type": fields[name][0], "function": fn, "file": os.path.relpath(f, repo), "ops": ops})
    return {"fields": {k: {"type": v[0], "file": v[1]} for k, v in fields.items()}, "programs": progs}


def store_outside_locks(classes, progs, outer=("S", "M", "C", "T"), inner="P"):
    """requests that reach the store (lock class P) while holding none of the `outer` classes"""
    out = []
    for p in progs:
        held = []
        for k, c, i in p["events"]:
            if k == "A":
                if classes[c]["name"] == inner and not any(classes[h[0]]["name"] in outer for h in held):
                    if p["name"] not in [o["request"] for o in out]:
                        out.append({"request": p["name"], "store": lname(classes, (c, i)),
                                    "holding": [lname(classes, h) for h in held]})
                held.append((c, i))
            elif k == "R" and (c, i) in held:
                held.remove((c, i))
    return out


def coq_prog(p):
    names = {"A": "Acq", "R": "Rel", "T": "Touch"}
    return "[" + "; ".join("%s (%d, %d)" % (names[k], c, i) for k, c, i in p["events"]) + "]"


def write_coq(classes, progs, res, repo):
    os.makedirs(os.path.dirname(OUT), exist_ok=True)
    excl = set(res["excluded"])
    L = []
    L.append("(** GENERATED by tools/gen_locks.py on every run from the lock programs recorded on the")
    L.append("    real code (%s, harness `locks record`).  Do not edit. *)" % repo)
    L.append("From VLS Require Import Model.Locks Model.Atomics.")
    L.append("From Coq Require Import String.")
    L.append("Open Scope N_scope.")
    L.append("")
    L.append("(** lock classes: %s *)" % ", ".join("%d = %s (%s)" % (c, v["name"], v["type"].replace("*)", "* )"))
                                                   for c, v in sorted(classes.items())))
    L.append("Definition class_names : list (N * string) := [%s]." % "; ".join(
        '(%d, "%s"%%string)' % (c, v["name"]) for c, v in sorted(classes.items())))
    L.append("")
    L.append("(** the rank found by the tool (topological order of the observed lock-order graph);")
    L.append("    Coq only checks it *)")
    L.append("Definition rank (c : N) : N :=")
    L.append("  match c with")
    for c, r in sorted(res["rank"].items(), key=lambda x: x[1]):
        L.append("  | %d => %d   (* %s *)" % (c, r, classes[c]["name"]))
    L.append("  | _ => %d" % (len(res["rank"]) + 1))
    L.append("  end.")
    L.append("")
    for p in progs:
        L.append("Definition p_%s : program :=\n  %s." % (p["name"], coq_prog(p)))
    L.append("")
    L.append("(** every recorded request kind *)")
    L.append("Definition all_progs : list (string * program) := [\n  %s]." % ";\n  ".join(
        '("%s"%%string, p_%s)' % (p["name"], p["name"]) for p in progs))
    L.append("")
    L.append("(** the request kinds the theorems are about: all of them, minus those that contain an")
    L.append("    inversion listed in KNOWN_FINDINGS.json (none when the list is empty) *)")
    L.append("Definition progs : list program := [%s]." % "; ".join("p_" + p["name"] for p in progs if p["name"] not in excl))
    L.append("Definition excluded : list (string * program) := [%s]." % "; ".join(
        '("%s"%%string, p_%s)' % (p["name"], p["name"]) for p in progs if p["name"] in excl))
    L.append("")
    L.append("(** the commitment-update requests (each must take its channel slot exactly once) *)")
    L.append("Definition update_progs : list program := [%s]." % "; ".join(
        "p_" + p["name"] for p in progs if p["name"] not in excl and is_update(p["name"])))
    L.append("")
    L.append("(** for every listed inversion: recorded programs and a schedule on which they deadlock *)")
    L.append("Definition known_witnesses : list (list program * list nat) := [%s]." % "; ".join(
        "([%s], [%s]%%nat)" % ("; ".join("p_" + n for n in w["requests"]), "; ".join(str(x) for x in w["schedule"]))
        for w in res.get("known_witnesses", [])))
    L.append("")
    at = res.get("atomics", {"programs": []})
    L.append("(** the lock-free shared state (Atomic* fields of vls-core) and, per function, the atomic operations")
    L.append("    on it in source order (tools/gen_locks.py atomic_programs): Rmw = one read-modify-write event *)")
    L.append("Definition counter_progs : list (string * list aop) := [%s]." % "; ".join(
        '("%s.%s"%%string, [%s])' % (a["field"], a["function"], "; ".join(a["ops"])) for a in at["programs"]))
    L.append("")
    code = {v["name"]: c for c, v in classes.items()}
    L.append("(** the store (MemoryKVVStore behind the persister), the node state, the structural classes *)")
    L.append("Definition store_class : N := %d." % code.get("P", 0))
    L.append("Definition state_class : N := %d." % code.get("S", 0))
    L.append("Definition structural_classes : list N := [%s]." % "; ".join(str(code[n]) for n in ("S", "M", "C", "T") if n in code))
    L.append("Definition map_class : N := %d." % code.get("M", 0))
    L.append("(** setup_channel (Node entry point and SetupChannel message): the channel record and the tracker are")
    L.append("    written inside the channel-map section that publishes the ready channel *)")
    L.append("Definition setup_progs : list program := [%s]." % "; ".join(
        "p_" + p["name"] for p in progs if p["name"] not in excl and p["name"] in ("setup_channel", "h6_setup_channel")))
    L.append("(** the allowlist requests (their store write must be inside the node-state section) *)")
    L.append("Definition allowlist_progs : list program := [%s]." % "; ".join(
        "p_" + p["name"] for p in progs if p["name"] not in excl and p["name"].startswith("allowlist_")))
    L.append("")
    L.append("(** class of the channel slots *)")
    slot = [c for c, v in classes.items() if v["name"] == "C"]
    L.append("Definition slot_class : N := %d." % (slot[0] if slot else 0))
    open(OUT, "w").write("\n".join(L) + "\n")
    return OUT


def describe_cycle(classes, res, cyc, graph_key="graph_checked"):
    g = res[graph_key]
    edges = []
    for i, a in enumerate(cyc):
        b = cyc[(i + 1) % len(cyc)]
        ws = g[(a, b)]
        edges.append({"holds": classes[a]["name"], "takes": classes[b]["name"],
                      "requests": sorted({w["request"] for w in ws}), "witnesses": ws})
    return edges


def schedules(edges, limit=6):
    """For a cycle l1 -> l2 -> ... -> l1 choose one request per edge such that consecutive
    edges meet in the same lock instance; yields up to `limit` `race` specs (threads 0..n-2
    park right after acquiring the lock of their edge, the last one runs freely)."""
    found = []

    def rec(i, chosen, first_holds, want):
        if len(found) >= limit:
            return
        if i == len(edges):
            if want == first_holds:
                found.append(list(chosen))
            return
        seen = set()
        for w in edges[i]["witnesses"]:
            if want is not None and tuple(w["holds"]) != want:
                continue
            key = (w["request"], tuple(w["holds"]), tuple(w["takes"]))
            if key in seen or w["request"] in [c["request"] for c in chosen]:
                continue
            seen.add(key)
            rec(i + 1, chosen + [w], first_holds if first_holds is not None else tuple(w["holds"]), tuple(w["takes"]))
    rec(0, [], None, None)
    for ch in found:
        yield ["%s:%d" % (w["request"], w["park_after"]) for w in ch[:-1]] + [ch[-1]["request"]], ch
